"""C02 — the on-disk layout means what docs/specification.md says, in both directions.

Direction 1 (library writer -> specification-only decoder): the graph is written by geff.core_io.write_arrays,
the store is dumped through the raw zarr API and decoded by the Lean function `Geff.Spec.denote`
(GeffModel/SpecDecode.lean: written from the document alone, literal names, shares nothing with the reader
model); the result must be the graph that was given to the writer, and `validate_structure` must accept the
store.  A second, 60-line raw-zarr decoder in Python (`py_decode`) cross-checks the dump and the Lean decoder.

Direction 2 (independent writer -> library reader): `indep_write` lays the same abstract graph out with the
zarr API only (never geff): random chunk shapes, compressor on/off, zarr format 2/3, `missing` omitted or
all-false, dummy values under missing entries, optional groups absent/empty, defaulted metadata fields
omitted, shuffled key and creation order, foreign attributes and sibling nodes, and — counted separately —
the string encoding (fixed width / variable length UTF8 as the specification prescribes) and the dtype of
the var-length offset table.  geff.core_io.read_to_memory must return exactly the graph the store denotes.
The LAYOUT of a variable-length property is the writer's choice too (the offset table only has to point into `data`):
`lay_out` executes a plan (append order = any permutation, gaps, trailing cells, shared sections, no section under a
missing entry; `enc["vlen_plan"]["nodes:<name>" | "edges:<name>"]`, or a plan drawn per property when
`enc["vlen_layout"] == "free"`); harness/corr/_c02_layout.py enumerates the plans, and those stores are also read through
GeffReader(...).build() unmasked and masked (theorems: GeffProps/C02Layout.lean).

Model correspondence: model reader on the dump == real reader; Lean `denote` of the independent store ==
the abstract graph (so independent writer and Lean decoder validate each other).
"""
from __future__ import annotations

import copy
import json
import random

import numpy as np

from harness import common
from harness.corr import C01
from harness.corr import _rw_shared as R

PROP = "C02"


# ----------------------------------------------------------------- a raw-zarr decoder (python, specification only)
def py_decode(store):
    """docs/specification.md followed literally on the zarr API; returns the graph or raises"""
    import zarr

    root = zarr.open_group(store, mode="r")
    meta = root.attrs["geff"]
    nodes, edges = root["nodes"], root["edges"]
    nid, eid = nodes["ids"][...], edges["ids"][...]
    assert nid.ndim == 1 and eid.ndim == 2 and eid.shape[1] == 2 and nid.dtype == eid.dtype and nid.dtype.kind in "iu"

    def props(grp, n, mds):
        out = []
        if "props" not in grp:
            return out
        for name in sorted(k for k in grp["props"].keys()):
            pg = grp["props"][name]
            md = mds[name]
            values = pg["values"][...]
            missing = pg["missing"][...] if "missing" in pg else np.zeros((n,), dtype=bool)
            assert missing.shape == (n,) and missing.dtype == bool and values.shape[0] == n
            rows = []
            if md.get("varlength", False):
                data = pg["data"][...]
                assert data.ndim == 1 and values.ndim == 2
                for i in range(n):
                    off, shape = int(values[i][0]), [int(x) for x in values[i][1:]]
                    cell = data[off: off + int(np.prod(shape, dtype=np.int64))].reshape(shape)
                    rows.append(None if missing[i] else cell_json(cell))
            else:
                assert "data" not in pg
                for i in range(n):
                    rows.append(None if missing[i] else cell_json(np.asarray(values[i])))
            out.append([name, "vlen" if md.get("varlength", False) else "dense", rows])
        return out
    ids = R.enc_arr(nid)
    return {"directed": meta["directed"], "id_dtype": ids["dtype"], "nodes": ids["flat"],
            "edges": [R.enc_arr(r)["flat"] for r in eid],
            "node_props": props(nodes, len(nid), meta["node_props_metadata"]),
            "edge_props": props(edges, len(eid), meta["edge_props_metadata"])}


def cell_json(x):
    e = R.enc_arr(x)
    return {"dtype": e["dtype"], "shape": e["shape"], "flat": e["flat"]}


def graph_of_inmem(o, directed):
    """abstract graph of an in-memory geff (numpy level), same JSON as the Lean `graphJson`"""
    g = R.graph_of(o, directed)
    for key in ("node_props", "edge_props"):
        g[key] = [[name, kind, [None if c is None else {"dtype": c[0], "shape": c[1], "flat": c[2]} for c in rows]]
                  for name, kind, rows in g[key]]
    return g


def canon_graph(g):
    if g is None:
        return None
    return {**g, "node_props": sorted(g["node_props"], key=lambda p: p[0]), "edge_props": sorted(g["edge_props"], key=lambda p: p[0])}


# ----------------------------------------------------------------- the independent writer (zarr API only)
COMPRESSORS = ["none", "auto", "zstd", "gzip", "blosc"]


def _compressor(kind, fmt):
    if kind == "none":
        return None
    if kind == "auto":
        return "auto"
    if fmt == 3:
        import zarr.codecs as zc

        return {"zstd": zc.ZstdCodec(level=1), "gzip": zc.GzipCodec(level=1), "blosc": zc.BloscCodec()}[kind]
    import numcodecs

    return {"zstd": numcodecs.Zstd(level=1), "gzip": numcodecs.GZip(level=1), "blosc": numcodecs.Blosc()}[kind]


def draw_encoding(rng, g):
    return {"fmt": rng.choice([2, 3]), "seed": rng.getrandbits(32), "compress": rng.choice(COMPRESSORS),
            "missing_all_false": rng.random() < 0.5, "node_props_group": rng.choice(["absent", "empty"]),
            "edge_props_group": rng.choice(["absent", "empty"]), "omit_varlength": rng.random() < 0.5,
            "omit_version": rng.random() < 0.3, "extra_attrs": rng.random() < 0.5, "siblings": rng.random() < 0.5,
            "extra_meta": rng.random() < 0.5, "strings": rng.choice(["fixed", "fixed", "vlen"]),
            "vlen_values_dtype": rng.choice(["uint64", "uint64", "uint64", "int64"]),
            "directed": rng.random() < 0.5, "store": rng.choice(["mem"] * 8 + ["local", "path"]),
            # where the sections of a variable-length property lie in `data`: a plan drawn per property (`draw_plan`), or the
            # older back-to-front-with-gaps layout
            "vlen_layout": rng.choice(["free", "free", "legacy"])}


# ----------------------------------------------------------------- layout freedom of a variable-length property
def draw_plan(rng, n):
    """a random layout plan for `n` elements (see `lay_out`)"""
    order = list(range(n))
    mode = rng.choice(["row", "reverse", "shuffle", "shuffle", "swap", "rotate"])
    if mode == "reverse":
        order.reverse()
    elif mode == "shuffle":
        rng.shuffle(order)
    elif mode == "swap" and n >= 2:
        i, j = rng.sample(range(n), 2)
        order[i], order[j] = order[j], order[i]
    elif mode == "rotate" and n >= 2:
        k = rng.randrange(1, n)
        order = order[k:] + order[:k]
    # half of the plans are gap-free (the sections tile `data`, in whatever order)
    pg = rng.choice([0.0, 0.0, 0.15, 0.5])
    return {"order": order, "gaps": [rng.randint(1, 2) if rng.random() < pg else 0 for _ in range(n)],
            "trail": rng.choice([0, 0, 0, 1, 3]) if pg else 0, "share": rng.random() < 0.3,
            "missing_unplaced": rng.random() < 0.3}


def lay_out(elems, missing, plan, dt):
    """The specification says of a variable-length property only that `data` holds the flattened values and that row i
    of `values` is `(offset, *shape)` of "the relevant section of data": WHERE the sections lie is the writer's choice.
    `plan` fixes one choice:
      order             the order in which the elements are appended to `data` (any permutation of the rows)
      gaps[k]           unused cells put in front of the k-th appended element (gaps[0] > 0: the first section does not
                        start at 0)
      trail             unused cells after the last section
      share             an element whose cells already occur, contiguously, in what has been laid out so far is not
                        appended again: its row points INTO the earlier cells (shared / overlapping sections)
      missing_unplaced  an element marked missing gets no section at all: its row is (0, 0, ..., 0)
    Returns (rows, data).  Every row satisfies data[offset : offset + prod(shape)].reshape(shape) == element (except
    under `missing_unplaced`, where the element is ignored by every reader)."""
    n = len(elems)
    ndim = elems[0].ndim if elems else 1
    same_dtype = all(e.dtype == dt for e in elems)

    def filler(k):
        if dt.kind == "U":
            return np.array(["gap"] * k, dtype=dt)
        if dt.kind == "b":
            return np.ones((k,), dtype=dt)
        return np.full((k,), 77, dtype=dt)
    chunks_, off, offs = [], 0, {}
    assert sorted(plan["order"]) == list(range(n)), "a plan places every element once"
    for pos, i in enumerate(plan["order"]):
        if plan.get("missing_unplaced") and ndim > 0 and missing is not None and bool(missing[i]):
            offs[i] = None
            continue
        gap = plan["gaps"][pos] if pos < len(plan.get("gaps") or []) else 0
        if gap:
            chunks_.append(filler(gap))
            off += gap
        flat = elems[i].ravel()
        if plan.get("share") and same_dtype and dt.kind != "U" and chunks_:
            hay, needle, w = np.concatenate(chunks_).tobytes(), flat.tobytes(), dt.itemsize
            at = next((p for p in range(0, len(hay) - len(needle) + 1, w) if hay[p:p + len(needle)] == needle), None)
            if at is not None:
                offs[i] = at // w
                continue
        offs[i] = off
        chunks_.append(flat)
        off += flat.size
    if plan.get("trail"):
        chunks_.append(filler(plan["trail"]))
    rows = [[0] * (ndim + 1) if offs[i] is None else [offs[i], *elems[i].shape] for i in range(n)]
    data = np.concatenate(chunks_) if chunks_ else np.empty((0,), dtype=dt)
    return rows, data


def indep_write(store, g, enc):
    """lay the graph `g` (numpy form, see _rw_shared.build_geff) out in `store` following the specification"""
    import zarr

    rng = random.Random(enc["seed"])
    fmt = enc["fmt"]

    def native(a):
        return a if a.dtype == object else np.array(a, order="C").astype(a.dtype.newbyteorder("="))

    def native_prop(p):
        v = p["values"]
        vals = R.obj_array([native(e) for e in v]) if v.dtype == object else native(v)
        return {"values": vals, "missing": None if p["missing"] is None else native(p["missing"])}
    # the independent writer works from the logical contents; memory layout / byte order of the inputs is not its concern
    g = {"node_ids": native(g["node_ids"]), "edge_ids": native(g["edge_ids"]),
         "node_props": {k: native_prop(p) for k, p in g["node_props"].items()},
         "edge_props": {k: native_prop(p) for k, p in g["edge_props"].items()}}
    attrs = {"creator": {"tool": "not-geff", "v": [1, 2]}, "multiscales": []} if enc["extra_attrs"] else {}
    # `overwrite`: the location already holds something (a re-export): zarr removes it first
    root = zarr.create_group(store, zarr_format=fmt, attributes=dict(attrs), **({"overwrite": True} if enc.get("overwrite") else {}))

    def put(group, name, a):
        a = np.asarray(a)
        chunks = tuple(rng.randint(1, max(1, d)) for d in a.shape) or None
        comp = _compressor(enc["compress"], fmt)
        if a.dtype.kind == "U" and enc["strings"] == "vlen":
            z = group.create_array(name, shape=a.shape, dtype=str, chunks=chunks, **({} if comp == "auto" else {"compressors": comp}))
            if a.size:
                z[...] = a.astype(object)
        else:
            z = group.create_array(name, shape=a.shape, dtype=a.dtype, chunks=chunks, **({} if comp == "auto" else {"compressors": comp}))
            if a.size:
                z[...] = a
        return z

    def dummy_like(v, i):
        """any value may sit under a missing entry"""
        if v.dtype.kind == "U":
            # "" is what a writer that pads unset strings leaves there
            return np.full(v[i].shape, enc.get("str_dummy", "dummy")[: max(1, v.dtype.itemsize // 4)], dtype=v.dtype)
        if v.dtype.kind == "f":
            return np.full(v[i].shape, np.nan, dtype=v.dtype)
        if v.dtype.kind == "b":
            return np.full(v[i].shape, True, dtype=v.dtype)
        return np.full(v[i].shape, np.iinfo(v.dtype).max, dtype=v.dtype)

    def write_props(parent, props, n, absent_mode):
        mds = {}
        if not props:
            if absent_mode == "empty":
                parent.create_group("props")
            return mds
        pgroup = parent.create_group("props")
        names = list(props)
        rng.shuffle(names)
        for name in names:
            p = props[name]
            v, m = p["values"], p["missing"]
            pg = pgroup.create_group(name)
            md = {"identifier": name}
            if v.dtype == object:
                elems = list(v)
                dt = elems[0].dtype if elems else np.dtype("int64")
                ndim = elems[0].ndim if elems else 1
                rows, chunks_, off = [], [], 0
                plan = (enc.get("vlen_plan") or {}).get(f"{parent.path}:{name}")
                if plan is None and enc.get("vlen_layout") == "free":
                    plan = draw_plan(rng, len(elems))
                if plan is not None:
                    # LAYOUT FREEDOM: the offset table only has to point into `data` (see `lay_out`)
                    rows, data = lay_out(elems, m, plan, dt)
                else:
                    # (encodings recorded before the layout plans existed) back to front, with gaps
                    order = list(range(len(elems)))
                    if rng.random() < 0.5:
                        order.reverse()
                    offs = {}
                    for i in order:
                        if rng.random() < 0.3:
                            chunks_.append(np.zeros((rng.randint(1, 2),), dtype=dt) if dt.kind != "U" else np.array(["gap"], dtype=dt))
                            off += len(chunks_[-1])
                        offs[i] = off
                        chunks_.append(elems[i].ravel())
                        off += elems[i].size
                    rows = [[offs[i], *elems[i].shape] for i in range(len(elems))]
                    data = np.concatenate(chunks_) if chunks_ else np.empty((0,), dtype=dt)
                table = np.asarray(rows, dtype=enc["vlen_values_dtype"]).reshape(len(elems), ndim + 1)
                items = [("values", table), ("data", data)]
                md.update(dtype=R.enc_arr(np.empty((0,), dtype=dt))["dtype"], varlength=True)
            else:
                vv = v.astype(np.float32) if v.dtype == np.float16 else v.copy()
                if m is not None:
                    for i in range(len(vv)):
                        if m[i]:
                            vv[i] = dummy_like(vv, i)
                items = [("values", vv)]
                md.update(dtype=R.enc_arr(np.empty((0,), dtype=vv.dtype))["dtype"])
                if not enc["omit_varlength"]:
                    md["varlength"] = False
            if m is not None:
                items.append(("missing", np.asarray(m, dtype=bool)))
            elif enc["missing_all_false"]:
                items.append(("missing", np.zeros((n,), dtype=bool)))
            rng.shuffle(items)
            for nm, a in items:
                put(pg, nm, a)
            if enc["extra_meta"]:
                md.update(rng.choice([{"unit": "pixel"}, {"name": "A property"}, {"description": "d", "unit": None}]))
            mds[name] = md
        return mds

    def write_part(which):
        grp = root.create_group(which)
        ids = g["node_ids"] if which == "nodes" else g["edge_ids"]
        steps = [lambda: put(grp, "ids", ids)]
        res = {}
        steps.append(lambda: res.update(md=write_props(grp, g["node_props"] if which == "nodes" else g["edge_props"],
                                                       len(ids), enc["node_props_group" if which == "nodes" else "edge_props_group"])))
        rng.shuffle(steps)
        for s in steps:
            s()
        return res["md"]

    parts = ["nodes", "edges"]
    rng.shuffle(parts)
    mds = {}
    if enc["siblings"] and rng.random() < 0.5:
        root.create_group("segmentation").create_array("labels", shape=(2, 2), dtype="uint16")
    for which in parts:
        mds[which] = write_part(which)
    if enc["siblings"]:
        put(root, "raw", np.arange(6, dtype=np.uint8).reshape(2, 3))
        root.require_group("segmentation")
    meta = [("directed", enc["directed"]), ("node_props_metadata", mds["nodes"]), ("edge_props_metadata", mds["edges"])]
    if enc.get("axes"):
        meta.append(("axes", [{"name": a} for a in enc["axes"]]))
    if not enc["omit_version"]:
        meta.append(("geff_version", rng.choice(["1.0", "1.0.0", "0.5.1.dev3+gabc"])))
    if enc["extra_meta"]:
        meta.append(("extra", {"anything": [1, {"a": None}]}))
        meta.append(("related_objects", [{"type": "image", "path": "../raw/"}]))
    rng.shuffle(meta)
    root.attrs["geff"] = dict(meta)
    if enc["extra_attrs"]:
        root.attrs["zzz"] = 1


# ----------------------------------------------------------------- non-conformant stores (reader's error branch)
DEFECTS = ["no-geff", "geff-not-mapping", "geff-invalid", "no-nodes-ids", "no-edges-group", "ids-is-group", "props-is-array",
           "no-values", "values-is-group", "missing-is-group", "data-is-group", "no-md-entry", "md-dtype-int8", "md-dtype-bool",
           "md-varlength-no-data", "foreign-array-in-props", "short-data", "mask-wrong-length", "edge-ids-other-dtype"]


def inject_defect(store, defect, g):
    """break one clause of the specification in a conformant store (zarr API only).  Returns False when the
    defect does not apply to this graph."""
    import zarr

    root = zarr.open_group(store, mode="a")
    meta = dict(root.attrs["geff"])
    fmt = root.metadata.zarr_format
    names = sorted(meta["node_props_metadata"])
    dense = [k for k in names if not meta["node_props_metadata"][k].get("varlength", False)]
    vlen = [k for k in names if meta["node_props_metadata"][k].get("varlength", False)]

    def regroup(parent, key):
        del parent[key]
        parent.create_group(key)

    if defect == "no-geff":
        del root.attrs["geff"]
    elif defect == "geff-not-mapping":
        root.attrs["geff"] = 3
    elif defect == "geff-invalid":
        meta["directed"] = "maybe"
        root.attrs["geff"] = meta
    elif defect == "no-nodes-ids":
        del root["nodes"]["ids"]
    elif defect == "no-edges-group":
        del root["edges"]
    elif defect == "ids-is-group":
        regroup(root["nodes"], "ids")
    elif defect == "props-is-array":
        if "props" in root["nodes"]:
            del root["nodes"]["props"]
        root["nodes"].create_array("props", shape=(1,), dtype="int8")
    elif defect in ("no-values", "values-is-group", "missing-is-group", "data-is-group", "no-md-entry", "foreign-array-in-props"):
        if not names:
            return False
        k = names[0]
        pg = root["nodes/props"][k]
        if defect == "no-values":
            del pg["values"]
        elif defect == "values-is-group":
            regroup(pg, "values")
        elif defect == "missing-is-group":
            if "missing" in pg:
                del pg["missing"]
            pg.create_group("missing")
        elif defect == "data-is-group":
            if "data" in pg:
                del pg["data"]
            pg.create_group("data")
        elif defect == "no-md-entry":
            del meta["node_props_metadata"][k]
            root.attrs["geff"] = meta
        else:
            root["nodes/props"].create_array("stray", shape=(1,), dtype="int8")
    elif defect in ("md-dtype-int8", "md-dtype-bool"):
        ints = [k for k in dense if meta["node_props_metadata"][k]["dtype"] in R.INT_DTYPES]
        if not ints:
            return False
        meta["node_props_metadata"][ints[0]]["dtype"] = defect[len("md-dtype-"):]
        root.attrs["geff"] = meta
    elif defect == "md-varlength-no-data":
        if not dense:
            return False
        meta["node_props_metadata"][dense[0]]["varlength"] = True
        root.attrs["geff"] = meta
    elif defect == "short-data":
        if not vlen or len(g["node_ids"]) == 0:
            return False
        pg = root["nodes/props"][vlen[0]]
        d = pg["data"][...]
        if d.size == 0:
            return False
        del pg["data"]
        z = pg.create_array("data", shape=(d.size - 1,), dtype=d.dtype)
        if d.size > 1:
            z[...] = d[:-1]
    elif defect == "mask-wrong-length":
        if not names:
            return False
        pg = root["nodes/props"][names[0]]
        if "missing" in pg:
            del pg["missing"]
        pg.create_array("missing", shape=(len(g["node_ids"]) + 1,), dtype="bool")
    elif defect == "edge-ids-other-dtype":
        e = root["edges"]["ids"][...]
        other = "int32" if e.dtype != np.int32 else "int16"
        if e.size and (e.max() > 32767 or e.min() < -32768):
            return False
        del root["edges"]["ids"]
        z = root["edges"].create_array("ids", shape=e.shape, dtype=other)
        if e.size:
            z[...] = e.astype(other)
    else:
        raise ValueError(defect)
    return True


def dir3_run(case):
    """a conformant independent store with one injected defect: dump + what the reader (validation off) does"""
    g = R.build_geff(case["g"])
    obs = {}
    with R.StoreCtx("mem") as store:
        try:
            indep_write(store, g, case["enc"])
            if not inject_defect(store, case["defect"], g):
                return {"skipped": True}
            obs["dump"] = R.dump_store(store)
        except BaseException as e:  # noqa: BLE001
            return {"indep_error": f"{type(e).__name__}: {e}"[:300]}
        obs["read_raw"] = observe_read(store, False)
        obs["read_validated"] = observe_read(store, True)
    return obs


# ----------------------------------------------------------------- graphs seen through a backend's adapter
def loose_equal(value, cell):
    """the value a graph library holds for one element equals the cell the store denotes: same shape, same numbers /
    strings / booleans (a library may hold a Python scalar, a list or an array; the numpy dtype is not part of it;
    NaN equals NaN)"""
    a = np.asarray(value)
    b = R.dec_arr({"dtype": cell["dtype"], "shape": cell["shape"], "flat": cell["flat"]})
    if a.dtype == object:
        return False
    if a.size == 0 and b.size == 0:
        return True          # a list cannot show the extents of an empty array ((0, 2) -> [])
    if a.shape != b.shape:
        return False
    if b.dtype.kind in "UT" or a.dtype.kind in "UT":
        return a.dtype.kind in "UT" and b.dtype.kind in "UT" and a.tolist() == b.tolist()
    if b.dtype.kind == "b" or a.dtype.kind == "b":
        return a.dtype.kind == b.dtype.kind and a.tolist() == b.tolist()
    if a.dtype.kind in "iu" and b.dtype.kind in "iu":
        return a.tolist() == b.tolist()
    return bool(np.array_equal(a.astype(np.float64), b.astype(np.float64), equal_nan=True))


def simple_graph(want):
    """node ids unique, no edge twice (in either direction), no self loop: what every graph library can hold"""
    nodes = [str(x) for x in want["nodes"]]
    if len(set(nodes)) != len(nodes):
        return False
    seen = set()
    for u, v in want["edges"]:
        u, v = str(u), str(v)
        if u == v or (u, v) in seen or (v, u) in seen:
            return False
        seen.add((u, v))
    return True


def compare_adapter(adapter, md, want, skip_missing=False):
    """the graph a backend's adapter shows == the graph `want` (JSON as produced by `denote` / graph_of).
    Returns None or a description of the first difference."""
    nodes = [int(x) for x in adapter.get_node_ids()]
    wn = [int(x) for x in want["nodes"]]
    if sorted(nodes) != sorted(wn):
        return f"node ids {sorted(nodes)[:8]}... != {sorted(wn)[:8]}..."
    edges = [(int(u), int(v)) for u, v in adapter.get_edge_ids()]
    we = [(int(u), int(v)) for u, v in want["edges"]]
    norm = (lambda e: e) if want["directed"] else (lambda e: tuple(sorted(e)))
    if sorted(map(norm, edges)) != sorted(map(norm, we)):
        return f"edges {sorted(map(norm, edges))[:6]} != {sorted(map(norm, we))[:6]}"
    for name, _kind, rows in want["node_props"]:
        for node, cell in zip(wn, rows):
            if skip_missing and cell is None:
                continue
            has = adapter.has_node_prop(name, node, md)
            if has != (cell is not None):
                return f"node {node} property {name!r}: present={has}, store says present={cell is not None}"
            if has and not loose_equal(adapter.get_node_prop(name, node, md), cell):
                return f"node {node} property {name!r}: {adapter.get_node_prop(name, node, md)!r} != {cell}"
    for name, _kind, rows in want["edge_props"]:
        for edge, cell in zip(we, rows):
            if skip_missing and cell is None:
                continue
            has = adapter.has_edge_prop(name, edge, md)
            if has != (cell is not None):
                return f"edge {edge} property {name!r}: present={has}, store says present={cell is not None}"
            if has and not loose_equal(adapter.get_edge_prop(name, edge, md), cell):
                return f"edge {edge} property {name!r}: {adapter.get_edge_prop(name, edge, md)!r} != {cell}"
    return None


def observe_backend(store, backend, want, **kw):
    """geff.read(store, backend=...) and the graph its adapter shows, compared with `want`"""
    import geff
    from geff._graph_libs._api_wrapper import get_backend

    try:
        graph, md = geff.read(store, backend=backend, **kw)
        diff = compare_adapter(get_backend(backend).graph_adapter(graph), md, want)
        # directedness is part of the graph: the returned metadata says it, and the graph object is of the directed /
        # undirected class of its library (nx.DiGraph / nx.Graph, rx.PyDiGraph / rx.PyGraph, sg.SpatialDiGraph / SpatialGraph)
        if diff is None and md.directed != want["directed"]:
            diff = f"returned metadata says directed={md.directed}, the store says directed={want['directed']}"
        if diff is None and ("Di" in type(graph).__name__) != want["directed"]:
            diff = f"returned a {type(graph).__name__}, the store says directed={want['directed']}"
    except BaseException as e:  # noqa: BLE001
        return {"outcome": C01.exc_class(e), "msg": f"{type(e).__name__}: {e}"[:300]}
    return {"outcome": "ok", "diff": diff}


# spatial-graph generates and compiles C++ per dtype signature (~12 s each, cached under ~/.cache/witty): two fixed
# signatures, the same ones harness/corr/C03.py uses (so the cache is shared)
SG_SCHEMAS = [
    # (axes, node id dtype, node attrs, edge attrs)
    (["y", "x"], "uint64", {"score": "float32"}, {"w": "int16"}),
    (["t", "y", "x"], "uint64", {"lab": "int64"}, {"w": "float64"}),
]


def sg_warm():
    """build / load the spatial-graph classes of the signatures used, before forking"""
    import os

    import spatial_graph as sg

    saved = os.dup(2)
    devnull = os.open(os.devnull, os.O_WRONLY)      # the C++ compiler's warnings
    os.dup2(devnull, 2)
    try:
        for axes, nd, na, ea in SG_SCHEMAS:
            for directed in (True, False):
                sg.create_graph(ndims=len(axes), node_dtype=nd, node_attr_dtypes={**na, "position": f"float64[{len(axes)}]"},
                                edge_attr_dtypes=dict(ea), position_attr="position", directed=directed)
    finally:
        os.dup2(saved, 2)
        os.close(devnull)
        os.close(saved)


def sg_case(rng):
    """a graph in the domain of the spatial-graph backend: axes (1-D float64 node properties), numeric 1-D properties
    with identifier names, no missing values, a simple graph with at least one edge, node ids in arbitrary order"""
    axes, idt, na, ea = rng.choice(SG_SCHEMAS)
    n = rng.randint(2, 9)
    nodes = list(range(n))
    mode = rng.choice(["shuffle", "descending", "sparse", "swap"])
    if mode == "descending":
        nodes.reverse()
    elif mode == "swap":
        nodes[0], nodes[1] = nodes[1], nodes[0]
    else:
        rng.shuffle(nodes)
        if mode == "sparse":
            nodes = [x * 3 + 2 for x in nodes]
    seen, edges = set(), []
    for _ in range(rng.randint(1, 2 * n)):
        u, v = rng.sample(nodes, 2)
        if (u, v) not in seen and (v, u) not in seen:
            seen.add((u, v))
            edges.append([u, v])

    def num(k, name, dt):
        if dt.startswith("float"):
            arr = np.array([rng.choice([0.0, -0.0, 1.5, -2.25, 0.1, 1e6]) if rng.random() < 0.4 else rng.uniform(-100, 100)
                            for _ in range(k)], dtype=dt)
            return [name, {"values": R.enc_arr(arr), "missing": None}]
        return [name, {"values": {"dtype": dt, "shape": [k], "flat": R.rand_scalar_tokens(rng, dt, k)}, "missing": None}]
    nps = [num(n, a, "float64") for a in axes] + [num(n, nm, dt) for nm, dt in na.items()]
    eps = [num(len(edges), nm, dt) for nm, dt in ea.items()]
    g = {"node_ids": {"dtype": idt, "shape": [n], "flat": nodes},
         "edge_ids": {"dtype": idt, "shape": [len(edges), 2], "flat": [x for e in edges for x in e]},
         "node_props": nps, "edge_props": eps}
    return g, axes


# ----------------------------------------------------------------- write histories through the graph-library writers
def history_run(h):
    """several graphs written one after the other through geff.write (networkx / rustworkx) or write_dicts into
    fresh targets, all with ONE GeffMetadata object; after each write the store must validate and — decoded by the
    specification-only decoder — denote the graph that was written"""
    import geff
    import geff_spec
    import networkx as nx
    import rustworkx as rx
    from geff.core_io import write_dicts
    from geff.validate.structure import validate_structure

    directed = h["directed"]
    shared = geff_spec.GeffMetadata(geff_version="1.0.0", directed=directed, node_props_metadata={}, edge_props_metadata={})
    out = []
    def want_of(nodes, edges):
        """graph JSON of (id, attrs) / (u, v, attrs) lists; the properties are the attribute names some element carries"""
        n_names = sorted({k for _, d in nodes for k in d})
        e_names = sorted({k for _, _, d in edges for k in d})
        return {"directed": directed, "nodes": [n for n, _ in nodes], "edges": [[u, v] for u, v, _ in edges],
                "node_props": [[nm, "dense", [None if nm not in d else cell_json(np.asarray(d[nm])) for _, d in nodes]] for nm in n_names],
                "edge_props": [[nm, "dense", [None if nm not in d else cell_json(np.asarray(d[nm])) for _, _, d in edges]] for nm in e_names]}

    for k, st in enumerate(h["steps"]):
        nodes, edges = st["nodes"], st["edges"]          # nodes: [[id, {attr: value}]], edges: [[u, v, {attr: value}]]
        ob = {"step": k, "writer": st["writer"], "write": None}
        out.append(ob)
        with R.StoreCtx("mem") as store:
            try:
                if st["writer"] == "networkx":
                    G = nx.DiGraph() if directed else nx.Graph()
                    G.add_nodes_from((n, dict(d)) for n, d in nodes)
                    G.add_edges_from((u, v, dict(d)) for u, v, d in edges)
                    # the object's own history: removals and re-insertions (insertion order != id order)
                    for op in st.get("ops", []):
                        if op[0] == "remove_node" and op[1] in G:
                            G.remove_node(op[1])
                        elif op[0] == "add_node":
                            G.add_node(op[1], **op[2])
                        elif op[0] == "remove_edge" and G.has_edge(op[1], op[2]):
                            G.remove_edge(op[1], op[2])
                        elif op[0] == "add_edge" and op[1] in G and op[2] in G and op[1] != op[2]:
                            G.add_edge(op[1], op[2], **op[3])
                    # the graph as the library's own API shows it at write time
                    want = want_of([(n, dict(d)) for n, d in G.nodes(data=True)], [(u, v, dict(d)) for u, v, d in G.edges(data=True)])
                    geff.write(G, store, metadata=shared, zarr_format=st["fmt"], structure_validation=st["validate"])
                elif st["writer"] == "rustworkx":
                    G = rx.PyDiGraph() if directed else rx.PyGraph()
                    idx = G.add_nodes_from([dict(d) for _, d in nodes])
                    rxid = {n: i for (n, _), i in zip(nodes, idx)}
                    G.add_edges_from([(rxid[u], rxid[v], dict(d)) for u, v, d in edges])
                    # the object's own history: index holes (removed nodes), nodes added afterwards, edges removed / added
                    for op in st.get("ops", []):
                        if op[0] == "remove_node" and op[1] in rxid:
                            G.remove_node(rxid.pop(op[1]))
                        elif op[0] == "add_node" and op[1] not in rxid:
                            rxid[op[1]] = G.add_node(dict(op[2]))
                        elif op[0] == "remove_edge" and op[1] in rxid and op[2] in rxid and G.has_edge(rxid[op[1]], rxid[op[2]]):
                            G.remove_edge(rxid[op[1]], rxid[op[2]])
                        elif op[0] == "add_edge" and op[1] in rxid and op[2] in rxid and op[1] != op[2] \
                                and not G.has_edge(rxid[op[1]], rxid[op[2]]) and not G.has_edge(rxid[op[2]], rxid[op[1]]):
                            G.add_edge(rxid[op[1]], rxid[op[2]], dict(op[3]))
                    if st.get("node_id_dict", True):
                        idd = {i: n for n, i in rxid.items()}
                        name = lambda i: idd[i]       # noqa: E731
                    else:
                        idd = None                    # ids are the rustworkx indices, holes included
                        name = lambda i: i            # noqa: E731
                    want = want_of([(name(i), dict(G[i])) for i in G.node_indices()],
                                   [(name(u), name(v), dict(d)) for u, v, d in G.weighted_edge_list()])
                    geff.write(G, store, metadata=shared, zarr_format=st["fmt"], structure_validation=st["validate"],
                               node_id_dict=idd)
                else:
                    want = want_of(nodes, edges)
                    n_names = [nm for nm, _k, _r in want["node_props"]]
                    e_names = [nm for nm, _k, _r in want["edge_props"]]
                    write_dicts(store, [(n, dict(d)) for n, d in nodes], [((u, v), dict(d)) for u, v, d in edges],
                                n_names, e_names, shared, zarr_format=st["fmt"], structure_validation=st["validate"])
                ob["write"] = "ok"
            except BaseException as e:  # noqa: BLE001
                ob["write"] = C01.exc_class(e)
                ob["msg"] = f"{type(e).__name__}: {e}"[:300]
                break
            ob["dump"] = R.dump_store(store)
            try:
                validate_structure(store)
                ob["validate"] = "ok"
            except BaseException as e:  # noqa: BLE001
                ob["validate"] = C01.exc_class(e)
                ob["msg"] = f"{type(e).__name__}: {e}"[:300]
            try:
                dec = py_decode(store)
                ob["py_decode"] = canon_graph(dec)
                ob["diff"] = compare_graphs(dec, want)
            except BaseException as e:  # noqa: BLE001
                ob["py_decode"] = None
                ob["diff"] = f"the written store cannot be decoded by following the specification: {type(e).__name__}: {e}"[:300]
            if ob.get("validate") != "ok" or ob["diff"]:
                break
    return out


def compare_graphs(dec, want):
    """decoded store (graph JSON) vs the graph handed to a graph-library writer (values compared loosely)"""
    dn = [int(x) for x in dec["nodes"]]
    wn = [int(x) for x in want["nodes"]]
    if dec["directed"] != want["directed"]:
        return "directedness differs"
    if sorted(dn) != sorted(wn):
        return f"node ids {sorted(dn)} != {sorted(wn)}"
    norm = (lambda e: e) if want["directed"] else (lambda e: tuple(sorted(e)))
    de = [norm((int(u), int(v))) for u, v in dec["edges"]]
    we = [norm((int(u), int(v))) for u, v in want["edges"]]
    if sorted(de) != sorted(we):
        return f"edges {sorted(de)} != {sorted(we)}"
    for key, dk, wk in (("node_props", dn, wn), ("edge_props", de, we)):
        dp = {nm: dict(zip(dk, rows)) for nm, _k, rows in dec[key]}
        wp = {nm: dict(zip(wk, rows)) for nm, _k, rows in want[key]}
        if sorted(dp) != sorted(wp):
            return f"{key}: the store declares/holds {sorted(dp)}, the graph has {sorted(wp)}"
        for nm in wp:
            for el, cell in wp[nm].items():
                got = dp[nm][el]
                if (got is None) != (cell is None):
                    return f"{key} {nm!r} of {el}: missing={got is None}, graph says missing={cell is None}"
                if cell is not None and not loose_equal(R.dec_arr(got), cell):
                    return f"{key} {nm!r} of {el}: {got} != {cell}"
    return None


def history_cases(rng, n):
    out = []
    pool = ["a", "b", "score", "label", "pos"]

    def value(name, i):
        return {"a": i * 3 - 4, "b": float(i) / 4 - 1.5, "score": [0.5 * i, -1.0, 2.0], "label": f"cell-{i}", "pos": [i, i + 1]}[name]
    for k in range(n):
        directed = rng.random() < 0.6
        steps = []
        for j in range(rng.choice([2, 2, 3])):
            nn = rng.choice([0, 1, 3, 5]) if j else rng.choice([2, 4, 6])
            ids = rng.sample(range(0, 40), nn)
            n_names = rng.sample(pool, rng.randint(0, 3) if j else rng.randint(2, 4))
            e_names = rng.sample(pool, rng.randint(0, 2))
            sparse = rng.random() < 0.4
            nodes = [[x, {nm: value(nm, x) for nm in n_names if not (sparse and nm != n_names[0] and rng.random() < 0.3)}] for x in ids]
            seen, edges = set(), []
            for _ in range(rng.randint(0, nn)):
                if nn < 2:
                    break
                u, v = rng.sample(ids, 2)
                if (u, v) not in seen and (v, u) not in seen:
                    seen.add((u, v))
                    edges.append([u, v, {nm: value(nm, u + v) for nm in e_names}])
            # only names that some element carries are properties of the graph
            n_used = [nm for nm in n_names if any(nm in d for _, d in nodes)]
            e_used = [nm for nm in e_names if edges]
            step = {"writer": rng.choice(["networkx", "rustworkx", "rustworkx", "write_dicts"]), "nodes": nodes, "edges": edges,
                    "node_names": n_used, "edge_names": e_used, "fmt": rng.choice([2, 3]), "validate": rng.random() < 0.7}
            if step["writer"] != "write_dicts" and nn >= 2 and rng.random() < 0.7:
                # the graph object has a history of its own before it is written
                ops = []
                victims = rng.sample(ids[:-1], rng.randint(1, min(2, nn - 1)))       # not the last one: leaves an index hole
                for vct in victims:
                    ops.append(["remove_node", vct])
                fresh = [x for x in range(40, 60)]
                if rng.random() < 0.6:
                    ops.append(["add_node", rng.choice(victims) if rng.random() < 0.5 else fresh.pop(), {nm: value(nm, 7) for nm in n_names[:2]}])
                if rng.random() < 0.4:
                    ops.append(["add_node", fresh.pop(), {}])
                if edges and rng.random() < 0.4:
                    ops.append(["remove_edge", edges[0][0], edges[0][1]])
                if rng.random() < 0.5:
                    u, v = rng.sample(ids, 2)
                    ops.append(["add_edge", u, v, {nm: value(nm, u + v) for nm in e_names}])
                rng.shuffle(ops)
                step["ops"] = ops
            if step["writer"] == "rustworkx":
                step["node_id_dict"] = rng.random() < 0.5
            steps.append(step)
        out.append({"directed": directed, "steps": steps, "origin": "history", "direction": "history"})
    return out


# ----------------------------------------------------------------- implementation observations
def observe_read(store, validate):
    from geff.core_io import read_to_memory

    try:
        o = read_to_memory(store, structure_validation=validate)
    except BaseException as e:  # noqa: BLE001
        return {"outcome": C01.exc_class(e), "msg": str(e)[:300]}
    return {"outcome": "ok", "graph": canon_graph(graph_of_inmem(o, o["metadata"].directed)), "inmem": R.enc_inmem(o)}


def observe_builds(store, masks):
    """ONE GeffReader(store) with every property loaded; .build() unmasked, then .build(node_mask, edge_mask) per mask"""
    import geff

    out = []
    try:
        r = geff.GeffReader(store)
        r.read_node_props()
        r.read_edge_props()
    except BaseException as e:  # noqa: BLE001
        return [{"node_mask": None, "edge_mask": None, "outcome": C01.exc_class(e), "msg": f"{type(e).__name__}: {e}"[:300]}]
    for mk in [{}] + list(masks):
        nm, em = mk.get("node"), mk.get("edge")
        try:
            o = r.build(node_mask=None if nm is None else np.array(nm, dtype=bool), edge_mask=None if em is None else np.array(em, dtype=bool))
            out.append({"node_mask": nm, "edge_mask": em, "outcome": "ok", "graph": canon_graph(graph_of_inmem(o, o["metadata"].directed))})
        except BaseException as e:  # noqa: BLE001
            out.append({"node_mask": nm, "edge_mask": em, "outcome": C01.exc_class(e), "msg": f"{type(e).__name__}: {e}"[:300]})
    return out


def restrict_graph(want, node_mask, edge_mask):
    """the sub-graph a masked build is documented to return: the nodes selected by `node_mask`, the edges selected by
    `edge_mask` whose two endpoints are both among the selected nodes; each property restricted to those rows"""
    nodes = want["nodes"]
    nk = [i for i in range(len(nodes)) if node_mask is None or node_mask[i]]
    kept = {str(nodes[i]) for i in nk}
    ek = [j for j, (u, v) in enumerate(want["edges"])
          if (edge_mask is None or edge_mask[j]) and (node_mask is None or (str(u) in kept and str(v) in kept))]
    return {**want, "nodes": [nodes[i] for i in nk], "edges": [want["edges"][j] for j in ek],
            "node_props": [[nm, kind, [rows[i] for i in nk]] for nm, kind, rows in want["node_props"]],
            "edge_props": [[nm, kind, [rows[j] for j in ek]] for nm, kind, rows in want["edge_props"]]}


def dir1_run(case):
    """library writer -> dump -> (python decoder here; Lean decoder in the parent)"""
    from geff.core_io import write_arrays
    from geff.validate.structure import validate_structure

    g = R.build_geff(case["g"])
    md = case.get("md") or {}
    obs = {"write": None}
    want = C01.expected_graph(g, md)
    obs["want"] = canon_graph(graph_of_inmem(want, md.get("directed", True)))
    with R.StoreCtx(case.get("store", "mem")) as store:
        gin = copy.deepcopy(g)
        try:
            # validation off here: acceptance by validate_structure is observed separately below
            write_arrays(store, gin["node_ids"], gin["node_props"], gin["edge_ids"], gin["edge_props"],
                         C01.make_metadata(md), zarr_format=case.get("fmt", 2), structure_validation=False)
            obs["write"] = "ok"
        except BaseException as e:  # noqa: BLE001
            obs["write"] = C01.exc_class(e)
            obs["write_msg"] = str(e)[:300]
            return obs
        obs["dump"] = R.dump_store(store)
        try:
            validate_structure(store)
            obs["validate"] = "ok"
        except BaseException as e:  # noqa: BLE001
            obs["validate"] = C01.exc_class(e)
            obs["validate_msg"] = str(e)[:300]
        try:
            obs["py_decode"] = canon_graph(py_decode(store))
        except BaseException as e:  # noqa: BLE001
            obs["py_decode"] = None
            obs["py_decode_err"] = f"{type(e).__name__}: {e}"[:300]
    return obs


def dir2_run(case):
    """independent writer -> library reader (validation on and off) + dump"""
    g = R.build_geff(case["g"])
    enc = case["enc"]
    obs = {}
    obs["want"] = canon_graph(graph_of_inmem(g, enc["directed"]))
    with R.StoreCtx(enc.get("store", "mem")) as store:
        try:
            indep_write(store, g, enc)
        except BaseException as e:  # noqa: BLE001
            obs["indep_error"] = f"{type(e).__name__}: {e}"[:300]
            return obs
        obs["dump"] = R.dump_store(store)
        try:
            obs["py_decode"] = canon_graph(py_decode(store))
        except BaseException as e:  # noqa: BLE001
            obs["py_decode"] = None
            obs["py_decode_err"] = f"{type(e).__name__}: {e}"[:300]
        obs["read_validated"] = observe_read(store, True)
        obs["read_raw"] = observe_read(store, False)
        # through GeffReader(...).build(): unmasked, and with the node / edge masks of the case (a masked read selects rows
        # of the offset table; `data` has no per-element axis)
        if "masks" in case:
            obs["builds"] = observe_builds(store, case["masks"])
        # through geff.read with every graph-library backend whose domain the graph is in
        obs["backends"] = {}
        want = obs["want"]
        if obs["read_validated"]["outcome"] == "ok" and simple_graph(want):
            for backend in ("networkx", "rustworkx"):
                obs["backends"][backend] = observe_backend(store, backend, want)
            if case.get("sg"):
                obs["backends"]["spatial-graph"] = observe_backend(store, "spatial-graph", want)
    return obs


# ----------------------------------------------------------------- classification of direction-2 failures
def classify_read_failure(ob_read, enc, g):
    msg = ob_read.get("msg", "")
    if "must contain a group named 'props'" in msg or "must contain a group named \"props\"" in msg:
        return "C02:independent-writer-no-node-props-group"
    if "StringDType" in msg and ob_read["outcome"] == "ValueError":
        return "C02:independent-writer-vlen-utf8-strings-validator"
    if "StringDType" in msg:
        return "C02:independent-writer-vlen-utf8-strings-reader-cast"
    if "does not have type uint64" in msg:
        return "C02:independent-writer-varlength-values-int64"
    return "C02:reader-rejects-conformant"


def feature_tag(case):
    enc = case["enc"]
    g = case["g"]
    has_str = any(("obj" not in p["values"] and p["values"]["dtype"] == "str") or
                  ("obj" in p["values"] and any(e["dtype"] == "str" for e in p["values"]["obj"]))
                  for lst in (g["node_props"] or [], g["edge_props"] or []) for _, p in lst)
    has_vlen = any("obj" in p["values"] for lst in (g["node_props"] or [], g["edge_props"] or []) for _, p in lst)
    t = [f"v{enc['fmt']}", enc["compress"], enc.get("store", "mem")]
    if has_str:
        t.append("str-" + enc["strings"])
    if has_vlen:
        t.append("vlen-" + enc["vlen_values_dtype"])
    if not g["node_props"]:
        t.append("nprops-" + enc["node_props_group"])
    return ":".join(t)


# ----------------------------------------------------------------- the document the decoder was written from
DOC_PHRASES = ["presence of a `geff` key", "must contain a `nodes` group and an `edges` group", "`nodes\\ids` array is a 1D array",
               "`edges\\ids` array is a 2D array with the same dtype", "shape `(E, 2)`", "`nodes\\props` group is optional",
               "each with a `values` array and an optional `missing` array",
               "first dimension of the `values` array must have the same length as the node `ids` array",
               "A `1` at an index in the `missing` array indicates that the `value` of that property",
               "will have a `data` array in addition to the `values` and `missing` arrays",
               "`values` array will contain the offset and shape of the relevant section of data",
               "values # shape: (N, ndim + 1)", "`edges/props` is optional"]


def check_document_names(ck):
    """GeffModel/SpecDecode.lean was written from docs/specification.md; if the clauses it implements disappear from
    the document of the tree under test, the tie of `denote` to the document is broken (not a violation by itself)."""
    try:
        text = (common.REPO / "docs" / "specification.md").read_text()
    except OSError as e:
        ck.broken.append({"what": "corr C02:specification-document", "detail": str(e)})
        return
    gone = [p for p in DOC_PHRASES if p not in text]
    ck.extra["document_clauses_checked"] = len(DOC_PHRASES)
    if gone:
        ck.broken.append({"what": "corr C02:specification-document", "detail": {"clauses no longer in docs/specification.md": gone}})


# ----------------------------------------------------------------- the check
def run(ck: common.Check):
    ck.prove(["GeffProps.C02", "GeffProps.C02Links", "GeffProps.C02History", "GeffProps.C02Layout"])
    ck.rule = ("graphs as in C01 (bounded-exhaustive small graphs + hand-picked + seeded random; well-formed ones only). "
               "Direction 1: each graph written by write_arrays on MemoryStore x zarr_format 2 and 3 (a sample on "
               "LocalStore/Path), dump decoded by Lean `denote` and by a python raw-zarr decoder. Direction 2: per graph "
               "K random specification-conformant encodings by an independent zarr-only writer (chunks, compressor, format, "
               "missing omitted/all-false, dummy values, optional groups absent/empty, omitted/shuffled metadata, foreign "
               "attrs/siblings, var-length sections out of order with gaps; string encoding and offset-table dtype counted "
               "separately), read by read_to_memory with validation on and off AND through geff.read with every graph-library "
               "backend (networkx, rustworkx on every simple graph; spatial-graph on a stream in its domain), the graph each "
               "adapter shows compared with the denoted graph; node ids in arbitrary order (permutations of 0..N-1, descending, "
               "interleaved, sparse); node and edge properties sharing names (same/different dtype, fixed/var-length). "
               "STRING VALUE CLASSES: every string column over {'', 'b'} of length 1..3 (all-empty, single empty, empty at each position), "
               "N-D / masked / all-missing-padded-with-'' variants, node and edge side, x fixed width / variable length UTF8 x zarr 2 / 3, and "
               "the random graphs again with their string properties blanked. "
               "LAYOUT FREEDOM of variable-length properties (the offset table only has to point into `data`): every size vector over "
               "{0,1,2}^n (n <= 3, some n = 4) x EVERY permutation of the order in which the elements are appended to `data` x gap patterns "
               "(none = the sections tile `data`, leading = first offset != 0, before every element, trailing, leading+trailing; thorough: "
               "all 0/1 patterns), 2-D / 3-D / rank-0 elements x every permutation, shared / nested / repeated elements (rows pointing into "
               "cells of another element) x every permutation, missing elements with and without a section, node and edge side, zarr 2 / 3, "
               "5 data dtypes, + seeded random plans (the random graphs of the general stream also get a random plan per property); each such "
               "store read through read_to_memory (validation on/off), GeffReader.build() unmasked AND with node / edge masks (all, all but "
               "one, one, none; compared with the selected part of the denoted graph), geff.read networkx / rustworkx. "
               "READ/REWRITE HISTORIES: one location (Path, str, LocalStore "
               "per call, one LocalStore object, one MemoryStore object) through 2-3 epochs; each epoch a writer (independent writer into "
               "the empty location / after rmtree / zarr overwrite / directory swap, with an unrelated graph or one derived from the previous "
               "one: same names other dtypes, fixed<->var-length, properties dropped/added, directedness flipped, any format; an in-place "
               "zarr-API edit; geff's write_arrays) then reads through a drawn subset (last epoch: all) of GeffMetadata.read, "
               "validate_structure, read_to_memory (validation on/off), GeffReader.build, geff.read networkx/rustworkx, each compared with "
               "`denote` of the store as dumped at that moment; a failing read is repeated on a copy of the store at a never-seen location. "
               "Write histories: 2-3 graphs written through geff.write (networkx, rustworkx with/without node_id_dict) / write_dicts "
               "with ONE GeffMetadata object; the graph objects have a history of their own (nodes removed -> rustworkx index "
               "holes, nodes re-inserted / added later, edges removed / added) and are observed through the library's own API at "
               "write time; every written store validated and decoded. Direction 3: stores with one injected defect. "
               "non-trivial = at least one node or property")
    check_document_names(ck)
    from harness.corr import _c02_rw as RW

    base = [c for c in C01.rotate_layouts(C01.exhaustive(ck.quick)) + C01.special_cases() if C01.wf_case(c)]
    nrand = 500 if ck.quick else 2000
    base += [c for c in (C01.random_case(ck.rng, ck.quick) for _ in range(nrand)) if C01.wf_case(c)]
    corpus = list(R.corpus(PROP))

    # ---------------- direction 1
    d1 = []
    for i, c in enumerate(base):
        if ck.quick and c["origin"].startswith("exh") and i % 2:
            d1.append({**c, "fmt": 2 + (i // 2) % 2, "store": "mem"})
            continue
        for fmt in (2, 3):
            d1.append({**c, "fmt": fmt, "store": "mem"})
        if i % (25 if ck.quick else 10) == 0:
            d1.append({**c, "fmt": 2 + i % 2, "store": ["local", "path", "str"][i % 3]})
    d1 = [c for c in corpus if c.get("direction") == 1] + d1
    import time as _t
    _t0 = _t.time()
    obs1 = common.pmap(dir1_run, d1, chunksize=8)
    ck.extra["t_dir1"] = round(_t.time() - _t0, 1)

    # ---------------- direction 2
    k = 2 if ck.quick else 3
    d2 = [c for c in corpus if c.get("direction") == 2]
    for i, c in enumerate(base):
        if ck.quick and c["origin"].startswith("exh") and i % 4:
            continue
        # "variable length arrays cannot be of dtype string" (PropMetadata): an independent writer has no such property
        g2 = {**c["g"], **{key: [[nm, p] for nm, p in (c["g"][key] or [])
                                 if not ("obj" in p["values"] and any(e["dtype"] == "str" for e in p["values"]["obj"]))]
                           for key in ("node_props", "edge_props")}}
        for _ in range(k):
            d2.append({"g": g2, "enc": draw_encoding(ck.rng, g2), "origin": c["origin"], "direction": 2})
        # the same graph with its string properties blanked (all values / a random subset empty), variable length UTF8 twice as often
        gb = RW.blank_strings(ck.rng, g2)
        if gb is not None:
            enc = draw_encoding(ck.rng, gb)
            enc.update(strings=ck.rng.choice(["fixed", "vlen", "vlen"]), str_dummy=ck.rng.choice(["", "dummy"]))
            d2.append({"g": gb, "enc": enc, "origin": "strings:blanked:" + c["origin"], "direction": 2})
    # string value classes, bounded-exhaustive: every column over {"", "b"} of length 1..3, N-D, masked; both encodings, both formats
    d2 += RW.string_cases(ck.rng, ck.quick)
    # LAYOUT FREEDOM of variable-length properties: sections of `data` in every order, with gaps, shared, N-D, masked reads
    from harness.corr import _c02_layout as LY
    d2 += LY.layout_cases(ck.rng, ck.quick)
    d2 += LY.random_layout_cases(ck.rng, 150 if ck.quick else 1500)
    # graphs in the domain of the spatial-graph backend (axes, numeric fixed-shape properties, no missing values)
    sg_warm()
    for _ in range(120 if ck.quick else 1200):
        g_sg, axes = sg_case(ck.rng)
        enc = draw_encoding(ck.rng, g_sg)
        enc.update(axes=axes, strings="fixed", store="mem", missing_all_false=False)
        d2.append({"g": g_sg, "enc": enc, "origin": "sg-domain", "direction": 2, "sg": True})
    _t0 = _t.time()
    obs2 = common.pmap(dir2_run, d2, chunksize=8)
    ck.extra["t_dir2"] = round(_t.time() - _t0, 1)

    # ---------------- direction 1, histories through geff.write / write_dicts sharing one metadata object
    hists = [c for c in corpus if c.get("direction") == "history"] + history_cases(ck.rng, 150 if ck.quick else 1500)
    _t0 = _t.time()
    hobs = common.pmap(history_run, hists, chunksize=4)
    ck.extra["t_hist"] = round(_t.time() - _t0, 1)

    # ---------------- direction 2, histories: one location read, rewritten (independent writer / in-place edit / the
    # library's writer), read again through every read entry point
    rwh = [c for c in corpus if c.get("direction") == "rw-history"] + RW.rw_history_cases(ck.rng, 70 if ck.quick else 1200)
    _t0 = _t.time()
    rwobs = common.pmap(RW.rw_history_run, rwh, chunksize=2)
    ck.extra["t_rw_hist"] = round(_t.time() - _t0, 1)

    # ---------------- direction 3: non-conformant stores (reader error branch; correspondence only)
    d3 = []
    pool = [c for c in base if c["origin"] in ("random", "special-names", "special-md") or c["origin"].startswith("exh-vlen")]
    for i, defect in enumerate(DEFECTS * (6 if ck.quick else 40)):
        c = pool[(i * 7919) % len(pool)]
        g2 = {**c["g"], **{key: [[nm, p] for nm, p in (c["g"][key] or [])
                                 if not ("obj" in p["values"] and any(e["dtype"] == "str" for e in p["values"]["obj"]))]
                           for key in ("node_props", "edge_props")}}
        enc = draw_encoding(ck.rng, g2)
        enc.update(store="mem", strings="fixed", vlen_values_dtype="uint64")
        d3.append({"g": g2, "enc": enc, "defect": defect, "origin": c["origin"], "direction": 3})
    _t0 = _t.time()
    obs3 = common.pmap(dir3_run, d3, chunksize=8)
    ck.extra["t_dir3"] = round(_t.time() - _t0, 1)
    _t0 = _t.time()

    # ---------------- the Lean side
    drv = ck.driver()
    reqs = []
    for ob in obs1:
        if ob.get("dump") is not None:
            reqs.append({"op": "denote", "store": R.strip_width(ob["dump"])})
    for ob in obs2:
        if ob.get("dump") is not None:
            reqs.append({"op": "denote", "store": R.strip_width(ob["dump"])})
            reqs.append({"op": "read", "store": R.strip_width(ob["dump"])})
            reqs.append({"op": "read", "validate": True, "store": R.strip_width(ob["dump"])})
    for ob in obs3:
        if ob.get("dump") is not None:
            reqs.append({"op": "denote", "store": R.strip_width(ob["dump"])})
            reqs.append({"op": "read", "store": R.strip_width(ob["dump"])})
            reqs.append({"op": "read", "validate": True, "store": R.strip_width(ob["dump"])})
    for obs in hobs:
        for ob in obs:
            if ob.get("dump") is not None:
                reqs.append({"op": "denote", "store": R.strip_width(ob["dump"])})
    for obs in rwobs:
        for ob in obs:
            if ob.get("dump") is not None:
                reqs.append({"op": "denote", "store": R.strip_width(ob["dump"])})
    answers = drv.ask(reqs)
    ck.extra["t_lean"] = round(_t.time() - _t0, 1)
    if answers is None:
        ck.broken.append({"what": "driver Drivers/C02.lean", "detail": drv.broken or getattr(drv, "build_log", "")})
    ai = 0

    # ---------------- direction 1 verdicts
    for c, ob in zip(d1, obs1):
        g = c["g"]
        ck.case({"dir": 1, **c}, f"d1:{C01.shape_tag(c)}:{c.get('store', 'mem')}{c.get('fmt', 2)}:{ob['write']}",
                nontrivial=bool(g["node_ids"]["flat"]) or bool(g["node_props"]) or bool(g["edge_props"]))
        if ob["write"] != "ok":
            # the writer failing on a well-formed graph is C01's finding; nothing to decode here
            ck.histogram["d1:writer-failed(C01)"] = ck.histogram.get("d1:writer-failed(C01)", 0) + 1
            continue
        want = R.strip_width(ob["want"])
        lean = None
        if answers is not None:
            a = answers[ai]
            ai += 1
            if "err" in a:
                ck.corr_broken("C02:driver-denote", c, None, a)
            else:
                lean = canon_graph(a["graph"])
        py = R.strip_width(ob["py_decode"])
        # specification verdict: both spec-only decoders; the Lean one is the authority, the python one cross-checks it
        if answers is not None and lean != want:
            if py == want:
                ck.corr_broken("C02:lean-decoder-vs-python-decoder", c, py, lean)
            else:
                ck.fail("C02:writer-output-does-not-denote-the-graph",
                        "the store written by write_arrays, decoded by following docs/specification.md alone, is not the graph given to the writer"
                        + (f" (python decoder: {ob.get('py_decode_err')})" if py is None else ""), {"dir": 1, **c}, lean, want)
        elif answers is None and py != want:
            ck.fail("C02:writer-output-does-not-denote-the-graph", "python raw-zarr decoder disagrees with the written graph: "
                    + str(ob.get("py_decode_err")), {"dir": 1, **c}, py, want)
        elif py != want:
            ck.corr_broken("C02:lean-decoder-vs-python-decoder", c, py, lean)
        if ob.get("validate") != "ok":
            ck.fail("C02:writer-output-rejected-by-validate_structure",
                    f"validate_structure rejects what write_arrays wrote: {ob.get('validate_msg')}", {"dir": 1, **c}, ob.get("validate"), "ok")

    # ---------------- direction 2 verdicts
    for c, ob in zip(d2, obs2):
        g, enc = c["g"], c["enc"]
        ck.case(c, "d2:" + (RW.string_tag(c) if c["origin"].startswith("strings:") else LY.layout_tag(c) if c["origin"].startswith("layout:") else feature_tag(c)), nontrivial=bool(g["node_ids"]["flat"]) or bool(g["node_props"]) or bool(g["edge_props"]))
        if "indep_error" in ob:
            ck.broken.append({"what": "corr C02:independent-writer", "detail": {"case": c, "error": ob["indep_error"]}})
            continue
        want = R.strip_width(ob["want"])
        lean_g = lean_r = lean_rv = None
        if answers is not None:
            a, r, rv = answers[ai], answers[ai + 1], answers[ai + 2]
            ai += 3
            if "err" in a or "err" in r or "err" in rv:
                ck.corr_broken("C02:driver", c, None, [a, r, rv])
            else:
                lean_g, lean_r, lean_rv = canon_graph(a["graph"]), r, rv
        py = R.strip_width(ob["py_decode"])
        # the independent store really is a conformant layout of `want` (independent writer vs the two spec decoders)
        if py != want or (answers is not None and lean_g != want):
            ck.corr_broken("C02:independent-writer-vs-spec-decoders", c, {"python": py, "err": ob.get("py_decode_err")}, lean_g)
            continue
        # the library's reader, validation on (the default) and off
        for label, key in (("validation on", "read_validated"), ("validation off", "read_raw")):
            rd = ob[key]
            if rd["outcome"] != "ok":
                ck.fail(classify_read_failure(rd, enc, g),
                        f"read_to_memory ({label}) raised {rd['outcome']} on a specification-conformant store: {rd.get('msg')}",
                        c, rd["outcome"], "ok")
            elif R.strip_width(rd["graph"]) != want:
                ck.fail("C02:reader-returns-a-different-graph",
                        f"read_to_memory ({label}) returned a graph different from the one the store denotes", c,
                        R.strip_width(rd["graph"]), want)
        # GeffReader(...).build(), unmasked and masked
        for bd in ob.get("builds", []):
            masked = bd["node_mask"] is not None or bd["edge_mask"] is not None
            call = f"GeffReader(...).build(node_mask={bd['node_mask']}, edge_mask={bd['edge_mask']})" if masked else "GeffReader(...).build()"
            ck.histogram[f"d2-build:{'masked' if masked else 'unmasked'}:{bd['outcome']}"] = \
                ck.histogram.get(f"d2-build:{'masked' if masked else 'unmasked'}:{bd['outcome']}", 0) + 1
            sub = restrict_graph(want, bd["node_mask"], bd["edge_mask"])
            if bd["outcome"] != "ok":
                ck.fail(classify_read_failure(bd, enc, g), f"{call} raised {bd['outcome']} on a specification-conformant store: {bd.get('msg')}",
                        c, bd["outcome"], "ok")
            elif R.strip_width(bd["graph"]) != sub:
                ck.fail("C02:masked-build-returns-a-different-graph" if masked else "C02:build-returns-a-different-graph",
                        f"{call} returned a graph different from " + ("the selected part of " if masked else "") + "the graph the store denotes",
                        c, R.strip_width(bd["graph"]), sub)
        # the graph as every graph-library backend shows it
        for backend, bo in ob.get("backends", {}).items():
            ck.histogram[f"d2-backend:{backend}:{bo['outcome']}"] = ck.histogram.get(f"d2-backend:{backend}:{bo['outcome']}", 0) + 1
            if bo["outcome"] != "ok":
                ck.fail(f"C02:backend-{backend}-rejects-conformant", f"geff.read(backend={backend!r}) raised on a specification-conformant "
                        f"store: {bo.get('msg')}", c, bo["outcome"], "ok")
            elif bo["diff"]:
                ck.fail(f"C02:backend-{backend}-shows-a-different-graph", f"geff.read(backend={backend!r}) shows a graph different from "
                        f"the one the store denotes: {bo['diff']}", c, bo["diff"], "the denoted graph")
        # model reader vs real reader (validation off; the validator is C04's model)
        if lean_r is not None:
            rd = ob["read_raw"]
            if lean_r["outcome"] != rd["outcome"]:
                ck.corr_broken("C02:readToMemory-outcome", c, rd, lean_r["outcome"])
            elif rd["outcome"] == "ok":
                if R.canon_geff(lean_r["geff"]) != R.strip_width(rd["inmem"]):
                    ck.corr_broken("C02:readToMemory-result", c, R.strip_width(rd["inmem"]), R.canon_geff(lean_r["geff"]))
                elif canon_graph(lean_r["graph"]) != want:
                    ck.corr_broken("C02:graphOf", c, want, canon_graph(lean_r["graph"]))
        # model reader with the structural validator (C04's model through the bridge) vs the real default read
        if lean_rv is not None and lean_rv["outcome"] != ob["read_validated"]["outcome"]:
            ck.corr_broken("C02:readToMemory-outcome(validated)", c, ob["read_validated"], lean_rv["outcome"])
    # ---------------- direction 3 verdicts (model reader == real reader on stores that break one clause)
    n3 = 0
    for c, ob in zip(d3, obs3):
        if ob.get("skipped"):
            continue
        if "indep_error" in ob:
            ck.broken.append({"what": "corr C02:defect-injection", "detail": {"case": c, "error": ob["indep_error"]}})
            continue
        n3 += 1
        rd = ob["read_raw"]
        conf = None
        if answers is not None:
            a, r, rv = answers[ai], answers[ai + 1], answers[ai + 2]
            ai += 3
            if "err" in a or "err" in r or "err" in rv:
                ck.corr_broken("C02:driver", c, None, [a, r, rv])
                continue
            if rv["outcome"] != ob["read_validated"]["outcome"]:
                ck.corr_broken("C02:readToMemory-outcome(validated, non-conformant)", c, ob["read_validated"], rv["outcome"])
            conf = a["graph"] is not None
            m_out = r["outcome"]
            if m_out.startswith("unmodelled"):
                ck.histogram["d3:unmodelled"] = ck.histogram.get("d3:unmodelled", 0) + 1
            elif m_out != rd["outcome"]:
                ck.corr_broken("C02:readToMemory-outcome(non-conformant)", c, rd, m_out)
            elif m_out == "ok" and R.canon_geff(r["geff"]) != R.strip_width(rd["inmem"]):
                ck.corr_broken("C02:readToMemory-result(non-conformant)", c, R.strip_width(rd["inmem"]), R.canon_geff(r["geff"]))
        ck.case(c, f"d3:{c['defect']}:{'conformant' if conf else 'non-conformant'}:raw={rd['outcome']}:validated={ob['read_validated']['outcome']}",
                nontrivial=True)
        # a store the specification still assigns a graph to must still be read (e.g. a foreign array inside props is not one)
        if conf and rd["outcome"] != "ok":
            ck.fail("C02:reader-rejects-conformant", f"defect {c['defect']} leaves the store conformant but read_to_memory raised "
                    f"{rd['outcome']}: {rd.get('msg')}", c, rd["outcome"], "ok")
    # ---------------- history verdicts
    for h, obs in zip(hists, hobs):
        last = obs[-1]
        good = last["write"] == "ok" and last.get("validate") == "ok" and not last.get("diff")
        ck.case(h, f"history:{len(h['steps'])}-steps:{last['writer']}:" + ("ok" if good else f"step{last['step']}-fails"), nontrivial=True)
        for ob in obs:
            if ob.get("dump") is None:
                continue
            if answers is not None:
                a = answers[ai]
                ai += 1
                if "err" in a:
                    ck.corr_broken("C02:driver-denote", h, None, a)
                elif canon_graph(a["graph"]) != R.strip_width(ob.get("py_decode")):
                    ck.corr_broken("C02:lean-decoder-vs-python-decoder(history)", h, R.strip_width(ob.get("py_decode")), canon_graph(a["graph"]))
        if good:
            continue
        meta_related = last["write"] != "ok" or last.get("validate") != "ok" or "declares/holds" in (last.get("diff") or "")
        key = ("C02:history-shared-metadata" if last["step"] > 0 and meta_related
               else "C02:graph-writer-output-does-not-denote-the-graph")
        what = (f"{len(h['steps'])} graphs written through geff.write/write_dicts with one GeffMetadata object: step {last['step']} "
                f"({last['writer']}, structure_validation={h['steps'][last['step']]['validate']}): "
                + (f"the write raised {last['write']}: {last.get('msg')}" if last["write"] != "ok" else
                   f"validate_structure rejects the written store: {last.get('msg')}" if last.get("validate") != "ok" else last["diff"]))
        ck.fail(key, what, h, last.get("diff") or last.get("msg"), "each written store validates and denotes the graph that was written")
    # ---------------- read / rewrite history verdicts
    for h, obs in zip(rwh, rwobs):
        ck.case(h, RW.history_tag(h, obs), nontrivial=True)
        for ob, ep in zip(obs, h["epochs"]):
            k = ob["epoch"]
            a = None
            if ob.get("dump") is not None and answers is not None:
                a = answers[ai]
                ai += 1
            if ob["write"] != "ok":
                if ep["writer"] == "library":
                    # the writer failing on a well-formed graph is C01's / C06's finding; nothing to read here
                    ck.histogram["rw:library-writer-failed(C01/C06)"] = ck.histogram.get("rw:library-writer-failed(C01/C06)", 0) + 1
                else:
                    ck.broken.append({"what": "corr C02:independent-writer(history)", "detail": {"case": h, "epoch": k, "error": ob.get("msg")}})
                break
            if ob.get("dump") is None or ob.get("py_decode") is None:
                ck.corr_broken("C02:history-store-not-decodable", h, ob.get("py_decode_err"), None)
                break
            py = R.strip_width(ob["py_decode"])
            if a is not None:
                if "err" in a:
                    ck.corr_broken("C02:driver-denote", h, None, a)
                elif canon_graph(a["graph"]) != py:
                    ck.corr_broken("C02:lean-decoder-vs-python-decoder(rw-history)", h, py, canon_graph(a["graph"]))
                    continue
            if ep["writer"] == "indep":
                want = R.strip_width(canon_graph(graph_of_inmem(R.build_geff(ep["g"]), ep["enc"]["directed"])))
                if py != want:
                    ck.corr_broken("C02:independent-writer-vs-spec-decoders(rw-history)", h, py, want)
                    continue
            for rd in ob["reads"]:
                ck.histogram[f"rw-read:{rd['via']}:epoch{min(k, 1)}{'+' if k else ''}:{rd['outcome']}"] = \
                    ck.histogram.get(f"rw-read:{rd['via']}:epoch{min(k, 1)}{'+' if k else ''}:{rd['outcome']}", 0) + 1
                if not RW.read_bad(rd):
                    continue
                writers = " -> ".join(e["writer"] + (f"({e['how']})" if e.get("how") else "") for e in h["epochs"][: k + 1])
                what = (f"location kind {h['loc']!r}, writers {writers}: after step {k} the store denotes one graph, "
                        f"{RW.ENTRY[rd['via']]} " + (f"raised {rd['outcome']}: {rd.get('msg')}" if rd["outcome"] != "ok" else f"differs: {rd['diff']}")
                        + ("; the same call on a copy of the store at a location this process has never seen is correct"
                           if RW.history_depends(rd) else ""))
                ck.fail(RW.classify(rd, k), what, h, {kk: vv for kk, vv in rd.items() if kk != "graph"}, "the graph the store denotes at the moment of the read")
    ck.extra["rw_histories"] = len(rwh)
    ck.extra["histories"] = len(hists)
    ck.extra["direction3_cases"] = n3
    ck.extra["direction1_cases"] = len(d1)
    ck.extra["direction2_cases"] = len(d2)
    ck.extra["encodings_per_graph"] = k
    ck.assumptions += [
        "zarr-python decodes every chunking/codec/format combination to the same arrays (exercised, not verified)",
        "string values are compared as Python strings; the numpy unicode width the reader chooses for variable length strings is not part of the graph",
        "uniqueness of node ids / edge endpoints among the nodes are data validity (C12), not required of a conformant layout here",
        "structural validation is C04's model: C02_reader_accepts_all_conformant is about the reader with validation off, plus the named "
        "hypothesis that the validator accepts; the harness reads with validation on AND off",
    ]


def replay(rp):
    c = rp["case"]
    if c.get("direction") == "rw-history":
        from harness.corr import _c02_rw as RW

        obs = RW.rw_history_run(c)
        bad = [(ob["epoch"], rd) for ob in obs for rd in ob["reads"] if RW.read_bad(rd)]
        for ob in obs:
            print(json.dumps({"epoch": ob["epoch"], "writer": ob["writer"], "how": ob.get("how"), "write": ob["write"], "msg": ob.get("msg"),
                              "denotes": None if ob.get("py_decode") is None else {kk: ob["py_decode"][kk] for kk in ("directed", "nodes", "edges")},
                              "reads": [{kk: vv for kk, vv in rd.items() if kk != "graph"} for rd in ob["reads"]]}, ensure_ascii=False, default=str))
        for k, rd in bad:
            print(f"epoch {k}: {RW.ENTRY[rd['via']]}: " + (f"raised {rd['outcome']}: {rd.get('msg')}" if rd["outcome"] != "ok" else str(rd["diff"]))
                  + (" [correct on a fresh copy of the store: depends on the history]" if RW.history_depends(rd) else ""))
        print("REPLAY: property FAILS on this input" if bad else "REPLAY: property holds on this input")
        return 1 if bad else 0
    if c.get("direction") == "history":
        obs = history_run(c)
        last = obs[-1]
        ok = last["write"] == "ok" and last.get("validate") == "ok" and not last.get("diff")
        print(json.dumps([{k: v for k, v in o.items() if k not in ("dump", "py_decode")} for o in obs], ensure_ascii=False, default=str))
        print("REPLAY: property holds on this input" if ok else "REPLAY: property FAILS on this input")
        return 0 if ok else 1
    if c.get("dir") == 1 or c.get("direction") == 1:
        ob = dir1_run(c)
        ok = ob["write"] == "ok" and R.strip_width(ob.get("py_decode")) == R.strip_width(ob["want"]) and ob.get("validate") == "ok"
        print(json.dumps({"write": ob["write"], "validate": ob.get("validate"), "validate_msg": ob.get("validate_msg"),
                          "decoded_equals_written": R.strip_width(ob.get("py_decode")) == R.strip_width(ob["want"]),
                          "decode_error": ob.get("py_decode_err")}, ensure_ascii=False))
    else:
        ob = dir2_run(c)
        want = R.strip_width(ob["want"])
        res = {}
        ok = "indep_error" not in ob
        for key in ("read_validated", "read_raw"):
            rd = ob.get(key, {"outcome": "not-run"})
            good = rd["outcome"] == "ok" and R.strip_width(rd["graph"]) == want
            res[key] = {"outcome": rd["outcome"], "msg": rd.get("msg"), "graph_equals_denotation": good}
            ok = ok and good
        for bd in ob.get("builds", []):
            good = bd["outcome"] == "ok" and R.strip_width(bd["graph"]) == restrict_graph(want, bd["node_mask"], bd["edge_mask"])
            res[f"build(node_mask={bd['node_mask']}, edge_mask={bd['edge_mask']})"] = {
                "outcome": bd["outcome"], "msg": bd.get("msg"), "graph_equals_denotation": good,
                **({} if good or bd["outcome"] != "ok" else {"returned_node_props": bd["graph"]["node_props"], "returned_edge_props": bd["graph"]["edge_props"]})}
            ok = ok and good
        for backend, bo in ob.get("backends", {}).items():
            res["backend:" + backend] = bo
            ok = ok and bo["outcome"] == "ok" and not bo["diff"]
        if not ok and ob.get("py_decode") is not None:
            res["store_denotes"] = {"node_props": want["node_props"], "edge_props": want["edge_props"]}
            res["stored_layout"] = [{"path": "/".join(e["path"]), **{k: e["arr"][k] for k in ("dtype", "shape", "flat")}} for e in ob.get("dump", [])
                                    if e["kind"] == "array" and e["path"][-1] in ("values", "data") and any(x["path"] == e["path"][:-1] + ["data"] for x in ob["dump"])]
        print(json.dumps(res, ensure_ascii=False))
    print("REPLAY: property holds on this input" if ok else "REPLAY: property FAILS on this input")
    return 0 if ok else 1
