"""C02 — the on-disk layout means what docs/specification.md says, in both directions.

Direction 1 (library writer -> specification-only decoder): the graph is written by geff.core_io.write_arrays,
the store is dumped through the raw zarr API and decoded by the Lean function `Geff.Spec.denote`
(GeffModel/SpecDecode.lean: written from the document alone, literal names, shares nothing with the reader
model); the result must be the graph that was given to the writer, and `validate_structure` must accept the
store.  A second, 60-line raw-zarr decoder in Python (`py_decode`) cross-checks the dump and the Lean decoder.

Direction 2 (independent writer -> library reader): `indep_write` lays the same abstract graph out with the
zarr API only (never geff): random chunk shapes, compressor on/off, zarr format 2/3, `missing` omitted or
all-false, dummy values under missing entries, optional groups absent/empty, defaulted metadata fields
omitted, shuffled key and creation order, foreign attributes and sibling nodes, and — counted separately —
the string encoding (fixed width / variable length UTF8 as the specification prescribes) and the dtype of
the var-length offset table.  geff.core_io.read_to_memory must return exactly the graph the store denotes.

Model correspondence: model reader on the dump == real reader; Lean `denote` of the independent store ==
the abstract graph (so independent writer and Lean decoder validate each other).
"""
from __future__ import annotations

import copy
import json
import random

import numpy as np

from harness import common
from harness.corr import C01
from harness.corr import _rw_shared as R

PROP = "C02"


# ----------------------------------------------------------------- a raw-zarr decoder (python, specification only)
def py_decode(store):
    """docs/specification.md followed literally on the zarr API; returns the graph or raises"""
    import zarr

    root = zarr.open_group(store, mode="r")
    meta = root.attrs["geff"]
    nodes, edges = root["nodes"], root["edges"]
    nid, eid = nodes["ids"][...], edges["ids"][...]
    assert nid.ndim == 1 and eid.ndim == 2 and eid.shape[1] == 2 and nid.dtype == eid.dtype and nid.dtype.kind in "iu"

    def props(grp, n, mds):
        out = []
        if "props" not in grp:
            return out
        for name in sorted(k for k in grp["props"].keys()):
            pg = grp["props"][name]
            md = mds[name]
            values = pg["values"][...]
            missing = pg["missing"][...] if "missing" in pg else np.zeros((n,), dtype=bool)
            assert missing.shape == (n,) and missing.dtype == bool and values.shape[0] == n
            rows = []
            if md.get("varlength", False):
                data = pg["data"][...]
                assert data.ndim == 1 and values.ndim == 2
                for i in range(n):
                    off, shape = int(values[i][0]), [int(x) for x in values[i][1:]]
                    cell = data[off: off + int(np.prod(shape, dtype=np.int64))].reshape(shape)
                    rows.append(None if missing[i] else cell_json(cell))
            else:
                assert "data" not in pg
                for i in range(n):
                    rows.append(None if missing[i] else cell_json(np.asarray(values[i])))
            out.append([name, "vlen" if md.get("varlength", False) else "dense", rows])
        return out
    ids = R.enc_arr(nid)
    return {"directed": meta["directed"], "id_dtype": ids["dtype"], "nodes": ids["flat"],
            "edges": [R.enc_arr(r)["flat"] for r in eid],
            "node_props": props(nodes, len(nid), meta["node_props_metadata"]),
            "edge_props": props(edges, len(eid), meta["edge_props_metadata"])}


def cell_json(x):
    e = R.enc_arr(x)
    return {"dtype": e["dtype"], "shape": e["shape"], "flat": e["flat"]}


def graph_of_inmem(o, directed):
    """abstract graph of an in-memory geff (numpy level), same JSON as the Lean `graphJson`"""
    g = R.graph_of(o, directed)
    for key in ("node_props", "edge_props"):
        g[key] = [[name, kind, [None if c is None else {"dtype": c[0], "shape": c[1], "flat": c[2]} for c in rows]]
                  for name, kind, rows in g[key]]
    return g


def canon_graph(g):
    if g is None:
        return None
    return {**g, "node_props": sorted(g["node_props"], key=lambda p: p[0]), "edge_props": sorted(g["edge_props"], key=lambda p: p[0])}


# ----------------------------------------------------------------- the independent writer (zarr API only)
COMPRESSORS = ["none", "auto", "zstd", "gzip", "blosc"]


def _compressor(kind, fmt):
    if kind == "none":
        return None
    if kind == "auto":
        return "auto"
    if fmt == 3:
        import zarr.codecs as zc

        return {"zstd": zc.ZstdCodec(level=1), "gzip": zc.GzipCodec(level=1), "blosc": zc.BloscCodec()}[kind]
    import numcodecs

    return {"zstd": numcodecs.Zstd(level=1), "gzip": numcodecs.GZip(level=1), "blosc": numcodecs.Blosc()}[kind]


def draw_encoding(rng, g):
    return {"fmt": rng.choice([2, 3]), "seed": rng.getrandbits(32), "compress": rng.choice(COMPRESSORS),
            "missing_all_false": rng.random() < 0.5, "node_props_group": rng.choice(["absent", "empty"]),
            "edge_props_group": rng.choice(["absent", "empty"]), "omit_varlength": rng.random() < 0.5,
            "omit_version": rng.random() < 0.3, "extra_attrs": rng.random() < 0.5, "siblings": rng.random() < 0.5,
            "extra_meta": rng.random() < 0.5, "strings": rng.choice(["fixed", "fixed", "vlen"]),
            "vlen_values_dtype": rng.choice(["uint64", "uint64", "uint64", "int64"]),
            "directed": rng.random() < 0.5, "store": rng.choice(["mem"] * 8 + ["local", "path"])}


def indep_write(store, g, enc):
    """lay the graph `g` (numpy form, see _rw_shared.build_geff) out in `store` following the specification"""
    import zarr

    rng = random.Random(enc["seed"])
    fmt = enc["fmt"]

    def native(a):
        return a if a.dtype == object else np.array(a, order="C").astype(a.dtype.newbyteorder("="))

    def native_prop(p):
        v = p["values"]
        vals = R.obj_array([native(e) for e in v]) if v.dtype == object else native(v)
        return {"values": vals, "missing": None if p["missing"] is None else native(p["missing"])}
    # the independent writer works from the logical contents; memory layout / byte order of the inputs is not its concern
    g = {"node_ids": native(g["node_ids"]), "edge_ids": native(g["edge_ids"]),
         "node_props": {k: native_prop(p) for k, p in g["node_props"].items()},
         "edge_props": {k: native_prop(p) for k, p in g["edge_props"].items()}}
    attrs = {"creator": {"tool": "not-geff", "v": [1, 2]}, "multiscales": []} if enc["extra_attrs"] else {}
    root = zarr.create_group(store, zarr_format=fmt, attributes=dict(attrs))

    def put(group, name, a):
        a = np.asarray(a)
        chunks = tuple(rng.randint(1, max(1, d)) for d in a.shape) or None
        comp = _compressor(enc["compress"], fmt)
        if a.dtype.kind == "U" and enc["strings"] == "vlen":
            z = group.create_array(name, shape=a.shape, dtype=str, chunks=chunks, **({} if comp == "auto" else {"compressors": comp}))
            if a.size:
                z[...] = a.astype(object)
        else:
            z = group.create_array(name, shape=a.shape, dtype=a.dtype, chunks=chunks, **({} if comp == "auto" else {"compressors": comp}))
            if a.size:
                z[...] = a
        return z

    def dummy_like(v, i):
        """any value may sit under a missing entry"""
        if v.dtype.kind == "U":
            return np.full(v[i].shape, "dummy"[: max(1, v.dtype.itemsize // 4)], dtype=v.dtype)
        if v.dtype.kind == "f":
            return np.full(v[i].shape, np.nan, dtype=v.dtype)
        if v.dtype.kind == "b":
            return np.full(v[i].shape, True, dtype=v.dtype)
        return np.full(v[i].shape, np.iinfo(v.dtype).max, dtype=v.dtype)

    def write_props(parent, props, n, absent_mode):
        mds = {}
        if not props:
            if absent_mode == "empty":
                parent.create_group("props")
            return mds
        pgroup = parent.create_group("props")
        names = list(props)
        rng.shuffle(names)
        for name in names:
            p = props[name]
            v, m = p["values"], p["missing"]
            pg = pgroup.create_group(name)
            md = {"identifier": name}
            if v.dtype == object:
                elems = list(v)
                dt = elems[0].dtype if elems else np.dtype("int64")
                ndim = elems[0].ndim if elems else 1
                rows, chunks_, off = [], [], 0
                # the sections of `data` may lie in any order and leave gaps: lay them out back to front
                order = list(range(len(elems)))
                if rng.random() < 0.5:
                    order.reverse()
                offs = {}
                for i in order:
                    if rng.random() < 0.3:
                        chunks_.append(np.zeros((rng.randint(1, 2),), dtype=dt) if dt.kind != "U" else np.array(["gap"], dtype=dt))
                        off += len(chunks_[-1])
                    offs[i] = off
                    chunks_.append(elems[i].ravel())
                    off += elems[i].size
                rows = [[offs[i], *elems[i].shape] for i in range(len(elems))]
                data = np.concatenate(chunks_) if chunks_ else np.empty((0,), dtype=dt)
                table = np.asarray(rows, dtype=enc["vlen_values_dtype"]).reshape(len(elems), ndim + 1)
                items = [("values", table), ("data", data)]
                md.update(dtype=R.enc_arr(np.empty((0,), dtype=dt))["dtype"], varlength=True)
            else:
                vv = v.astype(np.float32) if v.dtype == np.float16 else v.copy()
                if m is not None:
                    for i in range(len(vv)):
                        if m[i]:
                            vv[i] = dummy_like(vv, i)
                items = [("values", vv)]
                md.update(dtype=R.enc_arr(np.empty((0,), dtype=vv.dtype))["dtype"])
                if not enc["omit_varlength"]:
                    md["varlength"] = False
            if m is not None:
                items.append(("missing", np.asarray(m, dtype=bool)))
            elif enc["missing_all_false"]:
                items.append(("missing", np.zeros((n,), dtype=bool)))
            rng.shuffle(items)
            for nm, a in items:
                put(pg, nm, a)
            if enc["extra_meta"]:
                md.update(rng.choice([{"unit": "pixel"}, {"name": "A property"}, {"description": "d", "unit": None}]))
            mds[name] = md
        return mds

    def write_part(which):
        grp = root.create_group(which)
        ids = g["node_ids"] if which == "nodes" else g["edge_ids"]
        steps = [lambda: put(grp, "ids", ids)]
        res = {}
        steps.append(lambda: res.update(md=write_props(grp, g["node_props"] if which == "nodes" else g["edge_props"],
                                                       len(ids), enc["node_props_group" if which == "nodes" else "edge_props_group"])))
        rng.shuffle(steps)
        for s in steps:
            s()
        return res["md"]

    parts = ["nodes", "edges"]
    rng.shuffle(parts)
    mds = {}
    if enc["siblings"] and rng.random() < 0.5:
        root.create_group("segmentation").create_array("labels", shape=(2, 2), dtype="uint16")
    for which in parts:
        mds[which] = write_part(which)
    if enc["siblings"]:
        put(root, "raw", np.arange(6, dtype=np.uint8).reshape(2, 3))
        root.require_group("segmentation")
    meta = [("directed", enc["directed"]), ("node_props_metadata", mds["nodes"]), ("edge_props_metadata", mds["edges"])]
    if not enc["omit_version"]:
        meta.append(("geff_version", rng.choice(["1.0", "1.0.0", "0.5.1.dev3+gabc"])))
    if enc["extra_meta"]:
        meta.append(("extra", {"anything": [1, {"a": None}]}))
        meta.append(("related_objects", [{"type": "image", "path": "../raw/"}]))
    rng.shuffle(meta)
    root.attrs["geff"] = dict(meta)
    if enc["extra_attrs"]:
        root.attrs["zzz"] = 1


# ----------------------------------------------------------------- non-conformant stores (reader's error branch)
DEFECTS = ["no-geff", "geff-not-mapping", "geff-invalid", "no-nodes-ids", "no-edges-group", "ids-is-group", "props-is-array",
           "no-values", "values-is-group", "missing-is-group", "data-is-group", "no-md-entry", "md-dtype-int8", "md-dtype-bool",
           "md-varlength-no-data", "foreign-array-in-props", "short-data", "mask-wrong-length", "edge-ids-other-dtype"]


def inject_defect(store, defect, g):
    """break one clause of the specification in a conformant store (zarr API only).  Returns False when the
    defect does not apply to this graph."""
    import zarr

    root = zarr.open_group(store, mode="a")
    meta = dict(root.attrs["geff"])
    fmt = root.metadata.zarr_format
    names = sorted(meta["node_props_metadata"])
    dense = [k for k in names if not meta["node_props_metadata"][k].get("varlength", False)]
    vlen = [k for k in names if meta["node_props_metadata"][k].get("varlength", False)]

    def regroup(parent, key):
        del parent[key]
        parent.create_group(key)

    if defect == "no-geff":
        del root.attrs["geff"]
    elif defect == "geff-not-mapping":
        root.attrs["geff"] = 3
    elif defect == "geff-invalid":
        meta["directed"] = "maybe"
        root.attrs["geff"] = meta
    elif defect == "no-nodes-ids":
        del root["nodes"]["ids"]
    elif defect == "no-edges-group":
        del root["edges"]
    elif defect == "ids-is-group":
        regroup(root["nodes"], "ids")
    elif defect == "props-is-array":
        if "props" in root["nodes"]:
            del root["nodes"]["props"]
        root["nodes"].create_array("props", shape=(1,), dtype="int8")
    elif defect in ("no-values", "values-is-group", "missing-is-group", "data-is-group", "no-md-entry", "foreign-array-in-props"):
        if not names:
            return False
        k = names[0]
        pg = root["nodes/props"][k]
        if defect == "no-values":
            del pg["values"]
        elif defect == "values-is-group":
            regroup(pg, "values")
        elif defect == "missing-is-group":
            if "missing" in pg:
                del pg["missing"]
            pg.create_group("missing")
        elif defect == "data-is-group":
            if "data" in pg:
                del pg["data"]
            pg.create_group("data")
        elif defect == "no-md-entry":
            del meta["node_props_metadata"][k]
            root.attrs["geff"] = meta
        else:
            root["nodes/props"].create_array("stray", shape=(1,), dtype="int8")
    elif defect in ("md-dtype-int8", "md-dtype-bool"):
        ints = [k for k in dense if meta["node_props_metadata"][k]["dtype"] in R.INT_DTYPES]
        if not ints:
            return False
        meta["node_props_metadata"][ints[0]]["dtype"] = defect[len("md-dtype-"):]
        root.attrs["geff"] = meta
    elif defect == "md-varlength-no-data":
        if not dense:
            return False
        meta["node_props_metadata"][dense[0]]["varlength"] = True
        root.attrs["geff"] = meta
    elif defect == "short-data":
        if not vlen or len(g["node_ids"]) == 0:
            return False
        pg = root["nodes/props"][vlen[0]]
        d = pg["data"][...]
        if d.size == 0:
            return False
        del pg["data"]
        z = pg.create_array("data", shape=(d.size - 1,), dtype=d.dtype)
        if d.size > 1:
            z[...] = d[:-1]
    elif defect == "mask-wrong-length":
        if not names:
            return False
        pg = root["nodes/props"][names[0]]
        if "missing" in pg:
            del pg["missing"]
        pg.create_array("missing", shape=(len(g["node_ids"]) + 1,), dtype="bool")
    elif defect == "edge-ids-other-dtype":
        e = root["edges"]["ids"][...]
        other = "int32" if e.dtype != np.int32 else "int16"
        if e.size and (e.max() > 32767 or e.min() < -32768):
            return False
        del root["edges"]["ids"]
        z = root["edges"].create_array("ids", shape=e.shape, dtype=other)
        if e.size:
            z[...] = e.astype(other)
    else:
        raise ValueError(defect)
    return True


def dir3_run(case):
    """a conformant independent store with one injected defect: dump + what the reader (validation off) does"""
    g = R.build_geff(case["g"])
    obs = {}
    with R.StoreCtx("mem") as store:
        try:
            indep_write(store, g, case["enc"])
            if not inject_defect(store, case["defect"], g):
                return {"skipped": True}
            obs["dump"] = R.dump_store(store)
        except BaseException as e:  # noqa: BLE001
            return {"indep_error": f"{type(e).__name__}: {e}"[:300]}
        obs["read_raw"] = observe_read(store, False)
        obs["read_validated"] = observe_read(store, True)
    return obs


# ----------------------------------------------------------------- implementation observations
def observe_read(store, validate):
    from geff.core_io import read_to_memory

    try:
        o = read_to_memory(store, structure_validation=validate)
    except BaseException as e:  # noqa: BLE001
        return {"outcome": C01.exc_class(e), "msg": str(e)[:300]}
    return {"outcome": "ok", "graph": canon_graph(graph_of_inmem(o, o["metadata"].directed)), "inmem": R.enc_inmem(o)}


def dir1_run(case):
    """library writer -> dump -> (python decoder here; Lean decoder in the parent)"""
    from geff.core_io import write_arrays
    from geff.validate.structure import validate_structure

    g = R.build_geff(case["g"])
    md = case.get("md") or {}
    obs = {"write": None}
    want = C01.expected_graph(g, md)
    obs["want"] = canon_graph(graph_of_inmem(want, md.get("directed", True)))
    with R.StoreCtx(case.get("store", "mem")) as store:
        gin = copy.deepcopy(g)
        try:
            # validation off here: acceptance by validate_structure is observed separately below
            write_arrays(store, gin["node_ids"], gin["node_props"], gin["edge_ids"], gin["edge_props"],
                         C01.make_metadata(md), zarr_format=case.get("fmt", 2), structure_validation=False)
            obs["write"] = "ok"
        except BaseException as e:  # noqa: BLE001
            obs["write"] = C01.exc_class(e)
            obs["write_msg"] = str(e)[:300]
            return obs
        obs["dump"] = R.dump_store(store)
        try:
            validate_structure(store)
            obs["validate"] = "ok"
        except BaseException as e:  # noqa: BLE001
            obs["validate"] = C01.exc_class(e)
            obs["validate_msg"] = str(e)[:300]
        try:
            obs["py_decode"] = canon_graph(py_decode(store))
        except BaseException as e:  # noqa: BLE001
            obs["py_decode"] = None
            obs["py_decode_err"] = f"{type(e).__name__}: {e}"[:300]
    return obs


def dir2_run(case):
    """independent writer -> library reader (validation on and off) + dump"""
    g = R.build_geff(case["g"])
    enc = case["enc"]
    obs = {}
    obs["want"] = canon_graph(graph_of_inmem(g, enc["directed"]))
    with R.StoreCtx(enc.get("store", "mem")) as store:
        try:
            indep_write(store, g, enc)
        except BaseException as e:  # noqa: BLE001
            obs["indep_error"] = f"{type(e).__name__}: {e}"[:300]
            return obs
        obs["dump"] = R.dump_store(store)
        try:
            obs["py_decode"] = canon_graph(py_decode(store))
        except BaseException as e:  # noqa: BLE001
            obs["py_decode"] = None
            obs["py_decode_err"] = f"{type(e).__name__}: {e}"[:300]
        obs["read_validated"] = observe_read(store, True)
        obs["read_raw"] = observe_read(store, False)
    return obs


# ----------------------------------------------------------------- classification of direction-2 failures
def classify_read_failure(ob_read, enc, g):
    msg = ob_read.get("msg", "")
    if "must contain a group named 'props'" in msg or "must contain a group named \"props\"" in msg:
        return "C02:independent-writer-no-node-props-group"
    if "StringDType" in msg and ob_read["outcome"] == "ValueError":
        return "C02:independent-writer-vlen-utf8-strings-validator"
    if "StringDType" in msg:
        return "C02:independent-writer-vlen-utf8-strings-reader-cast"
    if "does not have type uint64" in msg:
        return "C02:independent-writer-varlength-values-int64"
    return "C02:reader-rejects-conformant"


def feature_tag(case):
    enc = case["enc"]
    g = case["g"]
    has_str = any(("obj" not in p["values"] and p["values"]["dtype"] == "str") or
                  ("obj" in p["values"] and any(e["dtype"] == "str" for e in p["values"]["obj"]))
                  for lst in (g["node_props"] or [], g["edge_props"] or []) for _, p in lst)
    has_vlen = any("obj" in p["values"] for lst in (g["node_props"] or [], g["edge_props"] or []) for _, p in lst)
    t = [f"v{enc['fmt']}", enc["compress"], enc.get("store", "mem")]
    if has_str:
        t.append("str-" + enc["strings"])
    if has_vlen:
        t.append("vlen-" + enc["vlen_values_dtype"])
    if not g["node_props"]:
        t.append("nprops-" + enc["node_props_group"])
    return ":".join(t)


# ----------------------------------------------------------------- the document the decoder was written from
DOC_PHRASES = ["presence of a `geff` key", "must contain a `nodes` group and an `edges` group", "`nodes\\ids` array is a 1D array",
               "`edges\\ids` array is a 2D array with the same dtype", "shape `(E, 2)`", "`nodes\\props` group is optional",
               "each with a `values` array and an optional `missing` array",
               "first dimension of the `values` array must have the same length as the node `ids` array",
               "A `1` at an index in the `missing` array indicates that the `value` of that property",
               "will have a `data` array in addition to the `values` and `missing` arrays",
               "`values` array will contain the offset and shape of the relevant section of data",
               "values # shape: (N, ndim + 1)", "`edges/props` is optional"]


def check_document_names(ck):
    """GeffModel/SpecDecode.lean was written from docs/specification.md; if the clauses it implements disappear from
    the document of the tree under test, the tie of `denote` to the document is broken (not a violation by itself)."""
    try:
        text = (common.REPO / "docs" / "specification.md").read_text()
    except OSError as e:
        ck.broken.append({"what": "corr C02:specification-document", "detail": str(e)})
        return
    gone = [p for p in DOC_PHRASES if p not in text]
    ck.extra["document_clauses_checked"] = len(DOC_PHRASES)
    if gone:
        ck.broken.append({"what": "corr C02:specification-document", "detail": {"clauses no longer in docs/specification.md": gone}})


# ----------------------------------------------------------------- the check
def run(ck: common.Check):
    ck.prove(["GeffProps.C02", "GeffProps.C02Links"])
    ck.rule = ("graphs as in C01 (bounded-exhaustive small graphs + hand-picked + seeded random; well-formed ones only). "
               "Direction 1: each graph written by write_arrays on MemoryStore x zarr_format 2 and 3 (a sample on "
               "LocalStore/Path), dump decoded by Lean `denote` and by a python raw-zarr decoder. Direction 2: per graph "
               "K random specification-conformant encodings by an independent zarr-only writer (chunks, compressor, format, "
               "missing omitted/all-false, dummy values, optional groups absent/empty, omitted/shuffled metadata, foreign "
               "attrs/siblings, var-length sections out of order with gaps; string encoding and offset-table dtype counted "
               "separately), read by read_to_memory with validation on and off. non-trivial = at least one node or property")
    check_document_names(ck)
    base = [c for c in C01.rotate_layouts(C01.exhaustive(ck.quick)) + C01.special_cases() if C01.wf_case(c)]
    nrand = 500 if ck.quick else 2000
    base += [c for c in (C01.random_case(ck.rng, ck.quick) for _ in range(nrand)) if C01.wf_case(c)]
    corpus = list(R.corpus(PROP))

    # ---------------- direction 1
    d1 = []
    for i, c in enumerate(base):
        if ck.quick and c["origin"].startswith("exh") and i % 2:
            d1.append({**c, "fmt": 2 + (i // 2) % 2, "store": "mem"})
            continue
        for fmt in (2, 3):
            d1.append({**c, "fmt": fmt, "store": "mem"})
        if i % (25 if ck.quick else 10) == 0:
            d1.append({**c, "fmt": 2 + i % 2, "store": ["local", "path", "str"][i % 3]})
    d1 = [c for c in corpus if c.get("direction") == 1] + d1
    obs1 = common.pmap(dir1_run, d1, chunksize=8)

    # ---------------- direction 2
    k = 2 if ck.quick else 3
    d2 = [c for c in corpus if c.get("direction") == 2]
    for i, c in enumerate(base):
        if ck.quick and c["origin"].startswith("exh") and i % 3:
            continue
        # "variable length arrays cannot be of dtype string" (PropMetadata): an independent writer has no such property
        g2 = {**c["g"], **{key: [[nm, p] for nm, p in (c["g"][key] or [])
                                 if not ("obj" in p["values"] and any(e["dtype"] == "str" for e in p["values"]["obj"]))]
                           for key in ("node_props", "edge_props")}}
        for _ in range(k):
            d2.append({"g": g2, "enc": draw_encoding(ck.rng, g2), "origin": c["origin"], "direction": 2})
    obs2 = common.pmap(dir2_run, d2, chunksize=8)

    # ---------------- direction 3: non-conformant stores (reader error branch; correspondence only)
    d3 = []
    pool = [c for c in base if c["origin"] in ("random", "special-names", "special-md") or c["origin"].startswith("exh-vlen")]
    for i, defect in enumerate(DEFECTS * (6 if ck.quick else 40)):
        c = pool[(i * 7919) % len(pool)]
        g2 = {**c["g"], **{key: [[nm, p] for nm, p in (c["g"][key] or [])
                                 if not ("obj" in p["values"] and any(e["dtype"] == "str" for e in p["values"]["obj"]))]
                           for key in ("node_props", "edge_props")}}
        enc = draw_encoding(ck.rng, g2)
        enc.update(store="mem", strings="fixed", vlen_values_dtype="uint64")
        d3.append({"g": g2, "enc": enc, "defect": defect, "origin": c["origin"], "direction": 3})
    obs3 = common.pmap(dir3_run, d3, chunksize=8)

    # ---------------- the Lean side
    drv = ck.driver()
    reqs = []
    for ob in obs1:
        if ob.get("dump") is not None:
            reqs.append({"op": "denote", "store": R.strip_width(ob["dump"])})
    for ob in obs2:
        if ob.get("dump") is not None:
            reqs.append({"op": "denote", "store": R.strip_width(ob["dump"])})
            reqs.append({"op": "read", "store": R.strip_width(ob["dump"])})
            reqs.append({"op": "read", "validate": True, "store": R.strip_width(ob["dump"])})
    for ob in obs3:
        if ob.get("dump") is not None:
            reqs.append({"op": "denote", "store": R.strip_width(ob["dump"])})
            reqs.append({"op": "read", "store": R.strip_width(ob["dump"])})
            reqs.append({"op": "read", "validate": True, "store": R.strip_width(ob["dump"])})
    answers = drv.ask(reqs)
    if answers is None:
        ck.broken.append({"what": "driver Drivers/C02.lean", "detail": drv.broken or getattr(drv, "build_log", "")})
    ai = 0

    # ---------------- direction 1 verdicts
    for c, ob in zip(d1, obs1):
        g = c["g"]
        ck.case({"dir": 1, **c}, f"d1:{C01.shape_tag(c)}:{c.get('store', 'mem')}{c.get('fmt', 2)}:{ob['write']}",
                nontrivial=bool(g["node_ids"]["flat"]) or bool(g["node_props"]) or bool(g["edge_props"]))
        if ob["write"] != "ok":
            # the writer failing on a well-formed graph is C01's finding; nothing to decode here
            ck.histogram["d1:writer-failed(C01)"] = ck.histogram.get("d1:writer-failed(C01)", 0) + 1
            continue
        want = R.strip_width(ob["want"])
        lean = None
        if answers is not None:
            a = answers[ai]
            ai += 1
            if "err" in a:
                ck.corr_broken("C02:driver-denote", c, None, a)
            else:
                lean = canon_graph(a["graph"])
        py = R.strip_width(ob["py_decode"])
        # specification verdict: both spec-only decoders; the Lean one is the authority, the python one cross-checks it
        if answers is not None and lean != want:
            if py == want:
                ck.corr_broken("C02:lean-decoder-vs-python-decoder", c, py, lean)
            else:
                ck.fail("C02:writer-output-does-not-denote-the-graph",
                        "the store written by write_arrays, decoded by following docs/specification.md alone, is not the graph given to the writer"
                        + (f" (python decoder: {ob.get('py_decode_err')})" if py is None else ""), {"dir": 1, **c}, lean, want)
        elif answers is None and py != want:
            ck.fail("C02:writer-output-does-not-denote-the-graph", "python raw-zarr decoder disagrees with the written graph: "
                    + str(ob.get("py_decode_err")), {"dir": 1, **c}, py, want)
        elif py != want:
            ck.corr_broken("C02:lean-decoder-vs-python-decoder", c, py, lean)
        if ob.get("validate") != "ok":
            ck.fail("C02:writer-output-rejected-by-validate_structure",
                    f"validate_structure rejects what write_arrays wrote: {ob.get('validate_msg')}", {"dir": 1, **c}, ob.get("validate"), "ok")

    # ---------------- direction 2 verdicts
    for c, ob in zip(d2, obs2):
        g, enc = c["g"], c["enc"]
        ck.case(c, "d2:" + feature_tag(c), nontrivial=bool(g["node_ids"]["flat"]) or bool(g["node_props"]) or bool(g["edge_props"]))
        if "indep_error" in ob:
            ck.broken.append({"what": "corr C02:independent-writer", "detail": {"case": c, "error": ob["indep_error"]}})
            continue
        want = R.strip_width(ob["want"])
        lean_g = lean_r = lean_rv = None
        if answers is not None:
            a, r, rv = answers[ai], answers[ai + 1], answers[ai + 2]
            ai += 3
            if "err" in a or "err" in r or "err" in rv:
                ck.corr_broken("C02:driver", c, None, [a, r, rv])
            else:
                lean_g, lean_r, lean_rv = canon_graph(a["graph"]), r, rv
        py = R.strip_width(ob["py_decode"])
        # the independent store really is a conformant layout of `want` (independent writer vs the two spec decoders)
        if py != want or (answers is not None and lean_g != want):
            ck.corr_broken("C02:independent-writer-vs-spec-decoders", c, {"python": py, "err": ob.get("py_decode_err")}, lean_g)
            continue
        # the library's reader, validation on (the default) and off
        for label, key in (("validation on", "read_validated"), ("validation off", "read_raw")):
            rd = ob[key]
            if rd["outcome"] != "ok":
                ck.fail(classify_read_failure(rd, enc, g),
                        f"read_to_memory ({label}) raised {rd['outcome']} on a specification-conformant store: {rd.get('msg')}",
                        c, rd["outcome"], "ok")
            elif R.strip_width(rd["graph"]) != want:
                ck.fail("C02:reader-returns-a-different-graph",
                        f"read_to_memory ({label}) returned a graph different from the one the store denotes", c,
                        R.strip_width(rd["graph"]), want)
        # model reader vs real reader (validation off; the validator is C04's model)
        if lean_r is not None:
            rd = ob["read_raw"]
            if lean_r["outcome"] != rd["outcome"]:
                ck.corr_broken("C02:readToMemory-outcome", c, rd, lean_r["outcome"])
            elif rd["outcome"] == "ok":
                if R.canon_geff(lean_r["geff"]) != R.strip_width(rd["inmem"]):
                    ck.corr_broken("C02:readToMemory-result", c, R.strip_width(rd["inmem"]), R.canon_geff(lean_r["geff"]))
                elif canon_graph(lean_r["graph"]) != want:
                    ck.corr_broken("C02:graphOf", c, want, canon_graph(lean_r["graph"]))
        # model reader with the structural validator (C04's model through the bridge) vs the real default read
        if lean_rv is not None and lean_rv["outcome"] != ob["read_validated"]["outcome"]:
            ck.corr_broken("C02:readToMemory-outcome(validated)", c, ob["read_validated"], lean_rv["outcome"])
    # ---------------- direction 3 verdicts (model reader == real reader on stores that break one clause)
    n3 = 0
    for c, ob in zip(d3, obs3):
        if ob.get("skipped"):
            continue
        if "indep_error" in ob:
            ck.broken.append({"what": "corr C02:defect-injection", "detail": {"case": c, "error": ob["indep_error"]}})
            continue
        n3 += 1
        rd = ob["read_raw"]
        conf = None
        if answers is not None:
            a, r, rv = answers[ai], answers[ai + 1], answers[ai + 2]
            ai += 3
            if "err" in a or "err" in r or "err" in rv:
                ck.corr_broken("C02:driver", c, None, [a, r, rv])
                continue
            if rv["outcome"] != ob["read_validated"]["outcome"]:
                ck.corr_broken("C02:readToMemory-outcome(validated, non-conformant)", c, ob["read_validated"], rv["outcome"])
            conf = a["graph"] is not None
            m_out = r["outcome"]
            if m_out.startswith("unmodelled"):
                ck.histogram["d3:unmodelled"] = ck.histogram.get("d3:unmodelled", 0) + 1
            elif m_out != rd["outcome"]:
                ck.corr_broken("C02:readToMemory-outcome(non-conformant)", c, rd, m_out)
            elif m_out == "ok" and R.canon_geff(r["geff"]) != R.strip_width(rd["inmem"]):
                ck.corr_broken("C02:readToMemory-result(non-conformant)", c, R.strip_width(rd["inmem"]), R.canon_geff(r["geff"]))
        ck.case(c, f"d3:{c['defect']}:{'conformant' if conf else 'non-conformant'}:raw={rd['outcome']}:validated={ob['read_validated']['outcome']}",
                nontrivial=True)
        # a store the specification still assigns a graph to must still be read (e.g. a foreign array inside props is not one)
        if conf and rd["outcome"] != "ok":
            ck.fail("C02:reader-rejects-conformant", f"defect {c['defect']} leaves the store conformant but read_to_memory raised "
                    f"{rd['outcome']}: {rd.get('msg')}", c, rd["outcome"], "ok")
    ck.extra["direction3_cases"] = n3
    ck.extra["direction1_cases"] = len(d1)
    ck.extra["direction2_cases"] = len(d2)
    ck.extra["encodings_per_graph"] = k
    ck.assumptions += [
        "zarr-python decodes every chunking/codec/format combination to the same arrays (exercised, not verified)",
        "string values are compared as Python strings; the numpy unicode width the reader chooses for variable length strings is not part of the graph",
        "uniqueness of node ids / edge endpoints among the nodes are data validity (C12), not required of a conformant layout here",
        "structural validation is C04's model: C02_reader_accepts_all_conformant is about the reader with validation off, plus the named "
        "hypothesis that the validator accepts; the harness reads with validation on AND off",
    ]


def replay(rp):
    c = rp["case"]
    if c.get("dir") == 1 or c.get("direction") == 1:
        ob = dir1_run(c)
        ok = ob["write"] == "ok" and R.strip_width(ob.get("py_decode")) == R.strip_width(ob["want"]) and ob.get("validate") == "ok"
        print(json.dumps({"write": ob["write"], "validate": ob.get("validate"), "validate_msg": ob.get("validate_msg"),
                          "decoded_equals_written": R.strip_width(ob.get("py_decode")) == R.strip_width(ob["want"]),
                          "decode_error": ob.get("py_decode_err")}, ensure_ascii=False))
    else:
        ob = dir2_run(c)
        want = R.strip_width(ob["want"])
        res = {}
        ok = "indep_error" not in ob
        for key in ("read_validated", "read_raw"):
            rd = ob.get(key, {"outcome": "not-run"})
            good = rd["outcome"] == "ok" and R.strip_width(rd["graph"]) == want
            res[key] = {"outcome": rd["outcome"], "msg": rd.get("msg"), "graph_equals_denotation": good}
            ok = ok and good
        print(json.dumps(res, ensure_ascii=False))
    print("REPLAY: property holds on this input" if ok else "REPLAY: property FAILS on this input")
    return 0 if ok else 1
