"""C01 — the read-side CONFIGURATIONS of the round trip ("reading it back" under every option the reader has).

One well-formed graph is written once with the real `write_arrays`; the store is then read under many
configurations and every result is judged by the numpy-level specification oracle `_rw_shared.same_graph`
against WHAT WAS WRITTEN (restricted to the selected properties), and compared with the Lean model
(`GeffModel/ReadOpts.lean` through the op `read_opts` of `Drivers/C01.lean`):

  entry point           read_to_memory | GeffReader + read_node_props + read_edge_props + build (+ validate_data by
                        hand) | geff.read(..., backend=networkx / rustworkx / spatial-graph) with the backend's
                        `construct` replaced by the identity (what the backend's `read` hands to `construct`)
  structure_validation  True | False
  data_validation       None | ValidationConfig with any subset of the five flags (33 values)
  node_props/edge_props None | all names | all names reversed | [] | a subset (always keeping the properties the
                        enabled validators look at)

Graphs are generated VALID under the validators that a configuration enables (unique ids, endpoints among the
nodes, no self / repeated edges — also not reversed when undirected; non-negative sphere radii; symmetric
positive-definite covariances over the declared space axes; tracklet / lineage ids computed from a forest),
directed and undirected, with stored edges in both orientations (u < v and u > v) and ids that do not sort like
their positions; values under a missing mask are deliberately invalid for the validators (negative radius,
asymmetric matrix).  A share of the graphs is made invalid for ONE validator (duplicate id, dangling edge, self
edge, repeated edge, reversed repeated edge, negative radius): every configuration enabling it must then raise
ValueError (expected outcome from the independent oracles below, never from the model), all others round-trip.

Verdicts that do not involve the model (-> ck.fail): a configuration raises on a graph that is valid for what it
enables; ids / edges / a property differ from what was written; the metadata returned differs from the plain
read's (restricted to the loaded properties); reading changed the store.  Model/implementation disagreements
(outcome class, digest of the whole result incl. values under the mask) -> corr_broken.
"""
from __future__ import annotations

import hashlib
import itertools
import json

import numpy as np

from harness.corr import _rw_shared as R

FLAGS = ["graph", "sphere", "ellipsoid", "lineage", "tracklet"]
ENTRIES = ["read_to_memory", "reader_build", "read:networkx", "read:rustworkx", "read:spatial-graph"]
# names the generator gives to the properties the validators look at (random extra names avoid them)
SPECIAL = {"r", "cov", "t", "x", "y", "z", "trk", "lin"}
CHUNK = 60          # read configurations per work item / per model request


def exc_class(e: BaseException) -> str:
    if isinstance(e, FileExistsError):
        return "FileExistsError"
    if isinstance(e, KeyError):
        return "KeyError"
    if isinstance(e, ValueError):
        return "ValueError"
    if isinstance(e, TypeError):
        return "TypeError"
    return type(e).__name__


# ----------------------------------------------------------------- metadata, expected graph
def rc_metadata(md):
    import geff_spec

    axes = None if md.get("axes") is None else [geff_spec.Axis(name=a, type=t) for a, t in md["axes"]]
    return geff_spec.GeffMetadata(geff_version="1.0.0", directed=md["directed"], axes=axes,
                                  node_props_metadata={}, edge_props_metadata={},
                                  sphere=md.get("sphere"), ellipsoid=md.get("ellipsoid"), track_node_props=md.get("track"))


def stored_names(case):
    """names of the node / edge properties the store ends up holding (write_arrays docstring: on an EMPTY graph
    every axis without a node property gets an empty float64 one)"""
    g, md = case["g"], case["md"]
    nn = [nm for nm, _ in g["node_props"]]
    if md.get("axes") and g["node_ids"]["shape"][0] == 0:
        nn += [a for a, _ in md["axes"] if a not in nn]
    return nn, [nm for nm, _ in g["edge_props"]]


def expected_graph(g, md):
    if md.get("axes") and len(g["node_ids"]) == 0:
        extra = {a: {"values": np.empty((0,), dtype="float64"), "missing": None} for a, _ in md["axes"] if a not in g["node_props"]}
        return {**g, "node_props": {**g["node_props"], **extra}}
    return g


def restrict(want, nsel, esel):
    return {**want,
            "node_props": {k: v for k, v in want["node_props"].items() if nsel is None or k in nsel},
            "edge_props": {k: v for k, v in want["edge_props"].items() if esel is None or k in esel}}


# ----------------------------------------------------------------- independent oracles (property text of C12)
def ints(arr_json):
    return [int(x) for x in arr_json["flat"]]


def graph_valid(directed, node_ids, edge_ids) -> bool:
    """unique node ids, every endpoint a node id, no self edge, no repeated edge (unordered when undirected)"""
    nodes = ints(node_ids)
    flat = ints(edge_ids)
    edges = list(zip(flat[0::2], flat[1::2]))
    if len(set(nodes)) != len(nodes):
        return False
    s = set(nodes)
    if any(u not in s or v not in s for u, v in edges):
        return False
    if any(u == v for u, v in edges):
        return False
    keys = [(u, v) if directed else (min(u, v), max(u, v)) for u, v in edges]
    return len(set(keys)) == len(keys)


def sphere_valid(prop_json) -> bool:
    """every radius that is not flagged missing is non-negative"""
    v = R.dec_arr(prop_json["values"])
    m = prop_json["missing"]["flat"] if prop_json["missing"] is not None else [False] * len(v)
    return all(not (float(x) < 0) for x, miss in zip(v.tolist(), m) if not miss)


def expected_outcome(case, cfg) -> str:
    dv = cfg["dv"]
    if dv is None:
        return "ok"
    md, g = case["md"], case["g"]
    if "graph" in dv and not graph_valid(md["directed"], g["node_ids"], g["edge_ids"]):
        return "ValueError"
    if "sphere" in dv and md.get("sphere") is not None and not sphere_valid(dict(g["node_props"])[md["sphere"]]):
        return "ValueError"
    return "ok"     # ellipsoid / tracklet / lineage data are valid by construction


def data_side(case):
    """what the model cannot see in the store: declarations of the metadata and the verdicts of the non-graph
    validators on the data — by construction / from the oracle above, never from the implementation"""
    md = case["md"]
    tr = md.get("track")
    sph_bad = md.get("sphere") is not None and not sphere_valid(dict(case["g"]["node_props"])[md["sphere"]])
    return {"decl": {"sphere": md.get("sphere") is not None, "ellipsoid": md.get("ellipsoid") is not None,
                     "track": None if tr is None else ["tracklet" in tr, "lineage" in tr]},
            "other": {"sphere": "ValueError" if sph_bad else "ok", "ellipsoid": "ok", "tracklet": "ok", "lineage": "ok"}}


# ----------------------------------------------------------------- implementation observation
def digest(obj) -> str:
    return hashlib.sha1(json.dumps(obj, sort_keys=True, ensure_ascii=False).encode()).hexdigest()


def spy_read(store, backend, sv, nsel, esel, dv):
    """geff.read(store, ..., backend=backend) with the backend's `construct` replaced by the identity: the
    in-memory geff the backend's `read` produces (graph construction itself is C03's subject)"""
    import geff
    from geff._graph_libs._api_wrapper import get_backend

    B = get_backend(backend)
    if not isinstance(B, type):   # get_backend returns an instance; `read` is a classmethod calling cls.construct
        B = type(B)
    had = "construct" in B.__dict__
    orig = B.__dict__.get("construct")
    B.construct = staticmethod(lambda **kw: kw)
    try:
        graph, md_out = geff.read(store, sv, nsel, esel, dv, backend=backend)
    finally:
        if had:
            B.construct = orig
        else:
            del B.construct
    out = dict(graph)
    if md_out is not out["metadata"] and md_out != out["metadata"]:
        raise AssertionError("geff.read returned another metadata object than the one of the in-memory geff")
    return out


def run_cfg(store, cfg, want, plain_md_dump):
    import warnings

    from geff import GeffReader
    from geff.core_io import read_to_memory
    from geff.validate.data import ValidationConfig, validate_data

    nsel = None if cfg["np"] is None else list(cfg["np"])
    esel = None if cfg["ep"] is None else list(cfg["ep"])
    sv = cfg["sv"]
    dv = None if cfg["dv"] is None else ValidationConfig(**{f: True for f in cfg["dv"]})
    try:
        with warnings.catch_warnings():
            warnings.simplefilter("ignore")
            if cfg["entry"] == "read_to_memory":
                out = read_to_memory(store, structure_validation=sv, node_props=nsel, edge_props=esel, data_validation=dv)
            elif cfg["entry"] == "reader_build":
                rd = GeffReader(store, sv)
                rd.read_node_props(nsel)
                rd.read_edge_props(esel)
                out = rd.build()
                if dv is not None:
                    validate_data(out, dv)
            else:
                out = spy_read(store, cfg["entry"].split(":", 1)[1], sv, nsel, esel, dv)
    except BaseException as e:  # noqa: BLE001
        return {"outcome": exc_class(e), "msg": f"{type(e).__name__}: {e}"[:300]}
    spec = R.same_graph(restrict(want, nsel, esel), out)
    md_want = dict(plain_md_dump)
    md_want["node_props_metadata"] = {k: v for k, v in md_want["node_props_metadata"].items() if nsel is None or k in nsel}
    md_want["edge_props_metadata"] = {k: v for k, v in md_want["edge_props_metadata"].items() if esel is None or k in esel}
    return {"outcome": "ok", "spec": spec, "md_ok": out["metadata"].model_dump() == md_want,
            "digest": digest(R.strip_width(R.enc_inmem(out)))}


def rc_run(case):
    """write once, then read under every configuration of the case"""
    import copy

    from geff.core_io import read_to_memory, write_arrays

    g = R.build_geff(case["g"])
    md = case["md"]
    obs = {"write": None, "plain": None, "dump": None, "reads": [], "store_modified": False}
    want = expected_graph(copy.deepcopy(g), md)
    with R.StoreCtx(case.get("store", "mem")) as store:
        try:
            write_arrays(store, g["node_ids"], g["node_props"], g["edge_ids"], g["edge_props"], rc_metadata(md),
                         zarr_format=case.get("fmt", 2))
            obs["write"] = "ok"
        except BaseException as e:  # noqa: BLE001
            obs["write"] = exc_class(e)
            obs["msg"] = f"{type(e).__name__}: {e}"[:300]
            return obs
        dump0 = R.dump_store(store)
        obs["dump"] = dump0
        try:
            plain = read_to_memory(store)
            obs["plain"] = "ok"
        except BaseException as e:  # noqa: BLE001
            obs["plain"] = exc_class(e)
            obs["msg"] = f"{type(e).__name__}: {e}"[:300]
            return obs
        obs["plain_spec"] = R.same_graph(want, plain)
        plain_md = plain["metadata"].model_dump()
        for cfg in case["configs"]:
            obs["reads"].append(run_cfg(store, cfg, want, plain_md))
        try:
            obs["store_modified"] = R.dump_store(store) != dump0
        except BaseException as e:  # noqa: BLE001
            obs["store_modified"] = f"{type(e).__name__}: {e}"[:200]
    return obs


# ----------------------------------------------------------------- generators: graphs
def _ids(rng, idt, n):
    """n distinct ids around the dtype limits and elsewhere, in an order that is NOT ascending"""
    ii = np.iinfo(idt)
    lo, hi = int(ii.min), int(ii.max)
    n = min(n, hi - lo + 1)
    pool = set()
    for x in (hi, lo, 0, 1, hi - 1, lo + 1, 2 ** 40, 2 ** 63, 2 ** 63 - 1):
        if lo <= x <= hi and len(pool) < n and rng.random() < 0.6:
            pool.add(x)
    while len(pool) < n:
        pool.add(rng.randint(lo, hi) if rng.random() < 0.5 else rng.randint(max(lo, -50), min(hi, 50)))
    nodes = list(pool)
    rng.shuffle(nodes)
    if n >= 2 and nodes == sorted(nodes):
        nodes.reverse()
    return nodes


def _arr(dt, shape, flat):
    return {"dtype": dt, "shape": list(shape), "flat": flat}


def _np_json(a):
    return R.enc_arr(np.asarray(a))


def _mask(rng, n, p_none=0.5, want_true=False):
    if n == 0 or rng.random() < p_none:
        return None
    flat = [rng.random() < 0.3 for _ in range(n)]
    if want_true:
        flat[rng.randrange(n)] = True
    return _arr("bool", [n], flat)


def _sphere(rng, n, negative=False):
    dt = rng.choice(["float64", "float32", "int16", "uint8"])
    m = _mask(rng, n, want_true=True)
    vals = [rng.choice([0, 0.5, 1, 2, 7, 100]) for _ in range(n)]
    if dt in ("int16", "uint8"):
        vals = [int(v) for v in vals]
    if m is not None and dt != "uint8":
        vals = [(-3 if miss else v) for v, miss in zip(vals, m["flat"])]         # ignored under the mask
    if negative:
        dt = "float64" if dt == "uint8" else dt
        free = [i for i in range(n) if m is None or not m["flat"][i]]
        if not free:
            m = None
            free = list(range(n))
        vals[rng.choice(free)] = -1
    return {"values": _np_json(np.array(vals, dtype=dt)), "missing": m}


def _cov(rng, n, d):
    dt = rng.choice(["float64", "float64", "float32"])
    m = _mask(rng, n, want_true=True)
    a = np.zeros((n, d, d), dtype=dt)
    for i in range(n):
        if m is not None and m["flat"][i]:
            a[i] = np.arange(d * d).reshape(d, d) - 2          # asymmetric, not positive-definite: ignored under the mask
            continue
        for j in range(d):
            a[i, j, j] = rng.choice([0.5, 1, 2, 4])
        for j in range(d):
            for k in range(j + 1, d):
                a[i, j, k] = a[i, k, j] = rng.choice([0, 0.0625, -0.125])   # strictly diagonally dominant: positive-definite
    return {"values": _np_json(a), "missing": m}


def _coord(rng, n, dt=None):
    dt = dt or rng.choice(["float64", "float32", "int32", "uint16"])
    vals = [rng.randint(0, 200) / (4 if dt.startswith("float") else 1) for _ in range(n)]
    return {"values": _np_json(np.array(vals, dtype=dt)), "missing": None}


def _extras(rng, n, k):
    out = []
    for name, p in R.rand_props(rng, n, k):
        if name not in SPECIAL and name not in [o[0] for o in out]:
            out.append([name, p])
    return out


def general_graph(rng, nmax=9, invalid=None):
    """any simple graph (cycles, several parents): valid for the graph / sphere / ellipsoid validators"""
    idt = rng.choice(R.INT_DTYPES)
    directed = rng.random() < 0.45
    n = rng.choice([2, 2, 3, 4, 5, rng.randint(2, nmax)]) if invalid else rng.choice([0, 1, 2, 3, 4, 5, rng.randint(0, nmax)])
    nodes = _ids(rng, idt, n)
    n = len(nodes)
    pairs = [(u, v) for i, u in enumerate(nodes) for v in nodes[i + 1:]]
    rng.shuffle(pairs)
    edges = []
    for u, v in pairs[:rng.choice([0, 1, 2, 3, 4, len(pairs)]) if n > 1 else 0]:
        edges.append([u, v] if rng.random() < 0.5 else [v, u])
    if len(edges) >= 1 and all(u < v for u, v in edges):
        edges[0].reverse()                                   # a stored edge (u, v) with u > v …
    if len(edges) >= 2 and all(u > v for u, v in edges):
        edges[1].reverse()                                   # … and one with u < v
    if directed and edges and rng.random() < 0.4:
        u, v = rng.choice(edges)
        edges.insert(rng.randrange(len(edges) + 1), [v, u])  # both directions: two different edges of a directed graph
    ii = np.iinfo(idt)
    if invalid == "dup-node":
        nodes.insert(rng.randrange(n + 1), rng.choice(nodes))
    elif invalid == "dangling":
        ghost = next(x for x in itertools.chain([int(ii.max), int(ii.min), 0, 1, 2, 3], itertools.count(4)) if x not in nodes)
        edges.insert(rng.randrange(len(edges) + 1), [rng.choice(nodes), ghost] if rng.random() < 0.5 else [ghost, rng.choice(nodes)])
    elif invalid == "self":
        u = rng.choice(nodes)
        edges.insert(rng.randrange(len(edges) + 1), [u, u])
    elif invalid in ("repeated", "reversed"):
        if not edges:
            edges.append([nodes[1], nodes[0]])
        u, v = rng.choice(edges)
        if invalid == "reversed":
            directed = False
            edges = [e for e in edges if e != [v, u]]
            edges.insert(rng.randrange(len(edges) + 1), [v, u])
        else:
            edges.insert(rng.randrange(len(edges) + 1), [u, v])
    n, e = len(nodes), len(edges)
    md = {"directed": directed, "axes": None, "sphere": None, "ellipsoid": None, "track": None}
    nps = []
    if rng.random() < 0.6 or invalid == "sphere-negative":
        nps.append(["r", _sphere(rng, n, negative=invalid == "sphere-negative" and n > 0)])
        md["sphere"] = "r"
    if rng.random() < 0.4:
        d = rng.choice([2, 3])
        names = ["x", "y", "z"][:d]
        axes = [[a, "space"] for a in names]
        if rng.random() < 0.5:
            axes.insert(0, ["t", "time"])
        if n > 0 or rng.random() < 0.5:
            for a, _ in axes:
                nps.append([a, _coord(rng, n)])
        md["axes"] = axes
        if rng.random() < 0.8:
            nps.append(["cov", _cov(rng, n, d)])
            md["ellipsoid"] = "cov"
    nps += _extras(rng, n, 2)
    rng.shuffle(nps)
    eps = _extras(rng, e, 2)
    if e and rng.random() < 0.6:
        eps.append(["w", {"values": R.rand_array(rng, rng.choice(["float32", "int64", "str", "bool"]), [e]),
                          "missing": _mask(rng, e, 0.3, want_true=True)}])
    g = {"node_ids": _arr(idt, [n], [R.jint(x) for x in nodes]),
         "edge_ids": _arr(idt, [e, 2], [R.jint(x) for r in edges for x in r]), "node_props": nps, "edge_props": eps}
    return {"g": R.set_layouts(rng, g, p=0.15), "md": md, "family": "general", "invalid": invalid}


def tracks_graph(rng, nmax=10):
    """a forest with divisions, time increasing along the edges, tracklet / lineage ids declared: valid for all
    five validators.  Edges are stored (parent, child); ids are arbitrary, so both u < v and u > v occur."""
    idt = rng.choice(R.INT_DTYPES)
    directed = rng.random() < 0.5
    n = rng.choice([1, 2, 3, 5, 7, rng.randint(1, nmax)])
    nodes = _ids(rng, idt, n)
    n = len(nodes)
    parent, kids, t = {}, {i: [] for i in range(n)}, {}
    for i in range(n):
        cand = [j for j in range(i) if len(kids[j]) < 2]
        if cand and rng.random() < 0.75:
            j = rng.choice(cand)
            parent[i] = j
            kids[j].append(i)
            t[i] = t[j] + 1
        else:
            t[i] = rng.randint(0, 3)
    trk, lin, nxt = {}, {}, [10]
    for i in range(n):                                   # parents come before children
        if i in parent and len(kids[parent[i]]) == 1:
            trk[i] = trk[parent[i]]                      # the only child continues its parent's tracklet
        else:
            trk[i] = nxt[0]
            nxt[0] += rng.choice([1, 3])
        lin[i] = lin[parent[i]] if i in parent else 100 + 7 * i
    order = list(range(n))
    rng.shuffle(order)                                   # storage order of the nodes is unrelated to the construction order
    edges = [[nodes[parent[i]], nodes[i]] for i in range(n) if i in parent]
    rng.shuffle(edges)
    tdt = rng.choice(["int64", "uint16", "int32", "uint64"])
    nps = [["t", {"values": _np_json(np.array([t[i] for i in order], dtype=rng.choice(["float64", "int32", "uint8"]))), "missing": None}],
           ["trk", {"values": _np_json(np.array([trk[i] for i in order], dtype=tdt)),
                    "missing": None if rng.random() < 0.6 else _arr("bool", [n], [False] * n)}],
           ["lin", {"values": _np_json(np.array([lin[i] for i in order], dtype=tdt)),
                    "missing": None if rng.random() < 0.6 else _arr("bool", [n], [False] * n)}]]
    md = {"directed": directed, "axes": [["t", "time"]], "sphere": None, "ellipsoid": None,
          "track": rng.choice([{"tracklet": "trk", "lineage": "lin"}, {"tracklet": "trk", "lineage": "lin"}, {"tracklet": "trk"}, {"lineage": "lin"}])}
    if rng.random() < 0.6:
        nps.append(["r", _sphere(rng, n)])
        md["sphere"] = "r"
    if rng.random() < 0.5:
        d = rng.choice([2, 3])
        for a in ["x", "y", "z"][:d]:
            nps.append([a, _coord(rng, n)])
            md["axes"].append([a, "space"])
        nps.append(["cov", _cov(rng, n, d)])
        md["ellipsoid"] = "cov"
    nps += _extras(rng, n, 1)
    rng.shuffle(nps)
    e = len(edges)
    eps = _extras(rng, e, 2)
    g = {"node_ids": _arr(idt, [n], [R.jint(nodes[i]) for i in order]),
         "edge_ids": _arr(idt, [e, 2], [R.jint(x) for r in edges for x in r]), "node_props": nps, "edge_props": eps}
    return {"g": R.set_layouts(rng, g, p=0.15), "md": md, "family": "tracks", "invalid": None}


def fixed_graphs():
    """the graphs every read configuration is enumerated on (small, deterministic)"""
    out = []
    big = 2 ** 40
    w = {"values": _np_json(np.array([0.1, 0.2, 0.3, 0.4], dtype="float32")), "missing": _arr("bool", [4], [False, True, False, False])}
    for directed in (False, True):
        # ids that do not sort like their positions; stored edges (u, v) with u > v in rows 0, 2, 3
        edges = [9, 3, 1, 7, big, 1, 7, 3] + ([3, 9] if directed else [])
        ew = w if not directed else {"values": _np_json(np.array([0.1, 0.2, 0.3, 0.4, 0.5], dtype="float32")),
                                     "missing": _arr("bool", [5], [False, True, False, False, False])}
        g = {"node_ids": _arr("uint64", [5], [7, 3, 9, 1, big]), "edge_ids": _arr("uint64", [len(edges) // 2, 2], edges),
             "node_props": [["x", {"values": _np_json(np.array([0.5, 1.5, 2.5, 3.5, 4.5])), "missing": None}],
                            ["r", {"values": _np_json(np.array([1.0, -2.0, 0.0, 3.0, 0.5])), "missing": _arr("bool", [5], [False, True, False, False, False])}],
                            ["poly", {"values": {"obj": [_arr("int8", [k], list(range(k))) for k in (2, 0, 1, 3, 1)]}, "missing": None}]],
             "edge_props": [["w", ew]]}
        out.append({"g": g, "md": {"directed": directed, "axes": None, "sphere": "r", "ellipsoid": None, "track": None},
                    "family": "fixed-general", "invalid": None})
        # a forest with a division, everything declared; int8 ids with negatives, descending in places
        #   -3 -> 100 -> {-128, 127};   0 (alone);   5 -> 4
        nodes = [5, -3, 100, -128, 127, 0, 4]
        cov = np.array([[[1, 0.125], [0.125, 2]]] * 7, dtype="float64")
        cov[5] = [[0, 1], [2, -1]]
        g = {"node_ids": _arr("int8", [7], nodes), "edge_ids": _arr("int8", [4, 2], [100, 127, -3, 100, 5, 4, 100, -128]),
             "node_props": [["t", {"values": _np_json(np.array([0, 0, 1, 2, 2, 5, 1], dtype="int32")), "missing": None}],
                            ["x", {"values": _np_json(np.array([1, 2, 3, 4, 5, 6, 7], dtype="float32")), "missing": None}],
                            ["y", {"values": _np_json(np.array([7, 6, 5, 4, 3, 2, 1], dtype="float64")), "missing": None}],
                            ["trk", {"values": _np_json(np.array([3, 1, 1, 4, 5, 9, 3], dtype="uint16")), "missing": None}],
                            ["lin", {"values": _np_json(np.array([2, 1, 1, 1, 1, 3, 2], dtype="int64")), "missing": _arr("bool", [7], [False] * 7)}],
                            ["r", {"values": _np_json(np.array([1, 2, 0, 4, 5, 6, 7], dtype="uint8")), "missing": None}],
                            ["cov", {"values": _np_json(cov), "missing": _arr("bool", [7], [False] * 5 + [True, False])}]],
             "edge_props": [["score", {"values": _np_json(np.array([[1, 2], [3, 4], [5, 6], [7, 8]], dtype="int16")), "missing": None}]]}
        out.append({"g": g, "md": {"directed": directed, "axes": [["t", "time"], ["x", "space"], ["y", "space"]], "sphere": "r",
                                   "ellipsoid": "cov", "track": {"tracklet": "trk", "lineage": "lin"}},
                    "family": "fixed-tracks", "invalid": None})
    # the empty graph: the axes named in the metadata come back as empty float64 properties
    out.append({"g": {"node_ids": _arr("int16", [0], []), "edge_ids": _arr("int16", [0, 2], []), "node_props": [], "edge_props": []},
                "md": {"directed": False, "axes": [["t", "time"], ["x", "space"]], "sphere": None, "ellipsoid": None, "track": None},
                "family": "fixed-empty", "invalid": None})
    # one node, no edge, undirected
    out.append({"g": {"node_ids": _arr("uint8", [1], [255]), "edge_ids": _arr("uint8", [0, 2], []),
                      "node_props": [["r", {"values": _np_json(np.array([2.5], dtype="float32")), "missing": None}]], "edge_props": []},
                "md": {"directed": False, "axes": None, "sphere": "r", "ellipsoid": None, "track": None},
                "family": "fixed-one", "invalid": None})
    return out


# ----------------------------------------------------------------- generators: read configurations
def needed_props(case, dv):
    """node properties `validate_data` looks up for the enabled flags (absent from a selection -> KeyError: such a
    combination is a caller error, not generated)"""
    md = case["md"]
    need = set()
    for f in dv or []:
        if f == "sphere" and md.get("sphere"):
            need.add(md["sphere"])
        if f == "ellipsoid" and md.get("ellipsoid"):
            need.add(md["ellipsoid"])
        if f in ("tracklet", "lineage") and md.get("track") and f in md["track"]:
            need.add(md["track"][f])
    return need


def all_configs(case):
    """every entry point x structure_validation x data_validation (None + 32 flag sets) x {None, all names}"""
    nn, en = stored_names(case)
    dvs = [None] + [[f for f, b in zip(FLAGS, bits) if b] for bits in itertools.product([False, True], repeat=5)]
    out = []
    for entry in ENTRIES:
        for sv in (True, False):
            for dv in dvs:
                for sel in ("none", "all"):
                    out.append({"entry": entry, "sv": sv, "dv": dv, "np": None if sel == "none" else list(nn),
                                "ep": None if sel == "none" else list(en)})
    return out


def _selection(rng, names, keep):
    r = rng.random()
    if r < 0.4:
        return None
    if r < 0.55:
        return list(names)
    if r < 0.7:
        return list(reversed(names))
    if r < 0.8:
        sel = []
    else:
        sel = [nm for nm in names if rng.random() < 0.5]
        rng.shuffle(sel)
    return sel + [k for k in names if k in keep and k not in sel]


def random_configs(rng, case, k):
    nn, en = stored_names(case)
    out = [{"entry": "read_to_memory", "sv": True, "dv": list(FLAGS), "np": None, "ep": None}]
    for _ in range(k):
        dv = None if rng.random() < 0.15 else [f for f in FLAGS if rng.random() < (0.75 if f == "graph" else 0.5)]
        out.append({"entry": rng.choice(ENTRIES), "sv": rng.random() < 0.7, "dv": dv,
                    "np": _selection(rng, nn, needed_props(case, dv)), "ep": _selection(rng, en, set())})
    return out


def cases(rng, quick):
    """(graph, configurations) work items"""
    out = []
    gid = 0
    for fg in fixed_graphs():
        for fmt in (2, 3):
            base = {**fg, "fmt": fmt, "store": "mem", "gid": f"{fg['family']}-{'dir' if fg['md']['directed'] else 'undir'}-v{fmt}"}
            cfgs = all_configs(base)
            for i in range(0, len(cfgs), CHUNK):
                out.append({**base, "configs": cfgs[i:i + CHUNK], "origin": "readcfg-exhaustive"})
    nrand = 260 if quick else 1500
    kinds = ["local", "path", "str"]
    invalids = ["dup-node", "dangling", "self", "repeated", "reversed", "sphere-negative"]
    for i in range(nrand):
        r = i % 10
        if r < 5:
            c = general_graph(rng)
        elif r < 8:
            c = tracks_graph(rng)
        else:
            c = general_graph(rng, invalid=invalids[(i // 10 * 2 + r - 8) % len(invalids)])
        gid += 1
        c.update(fmt=2 + i % 2, store="mem" if i % 8 else kinds[(i // 8) % 3], gid=f"rand-{gid}", origin="readcfg-random")
        c["configs"] = random_configs(rng, c, 7 if quick else 12)
        out.append(c)
    return out


# ----------------------------------------------------------------- model requests, classification
def model_request(case, obs):
    if obs.get("dump") is None or obs.get("plain") != "ok":
        return None
    return {"op": "read_opts", "store": R.strip_width(obs["dump"]), "ds": data_side(case),
            "reads": [{"entry": c["entry"], "sv": c["sv"], "np": c["np"], "ep": c["ep"], "dv": c["dv"]} for c in case["configs"]]}


def cfg_tag(case, cfg):
    dv = cfg["dv"]
    sel = "sel-none" if cfg["np"] is None and cfg["ep"] is None else "sel-names"
    return (f"readcfg:{case['family']}:{'dir' if case['md']['directed'] else 'undir'}:{case.get('invalid') or 'valid'}:"
            f"{cfg['entry']}:sv{int(cfg['sv'])}:{'dv-none' if dv is None else ('graph' if 'graph' in dv else 'nograph') + str(len(dv))}:{sel}")


def one(case, cfg):
    """the replayable form of a single (graph, configuration)"""
    return {k: v for k, v in {**case, "configs": [cfg]}.items()}


def classify(ck, case, obs, answer):
    """`answer`: the driver's reply to model_request(case, obs) or None"""
    where = f"graph {case['gid']} ({case['family']}, {'directed' if case['md']['directed'] else 'undirected'}, zarr v{case['fmt']}, {case['store']})"
    if obs["write"] != "ok":
        ck.fail("C01:write-raises", f"{where}: write_arrays raised {obs['write']} on a well-formed graph: {obs.get('msg')}", one(case, case["configs"][0]),
                obs["write"], "ok")
        return
    if obs["plain"] != "ok":
        ck.fail("C01:read-raises", f"{where}: read_to_memory raised {obs['plain']} on what write_arrays wrote: {obs.get('msg')}",
                one(case, case["configs"][0]), obs["plain"], "ok")
        return
    for key, what in obs["plain_spec"]:
        ck.fail(key, f"{where}: plain read: {what}", one(case, case["configs"][0]), what, "the written graph")
    if obs["store_modified"]:
        ck.fail("C01:readcfg-store-modified", f"{where}: the store differs after the reads ({obs['store_modified']})", case, "store changed", "reading leaves the store as it was")
    answers = None
    if answer is not None:
        if "err" in answer or "answers" not in answer:
            ck.corr_broken("C01:driver-read_opts", {"gid": case["gid"]}, None, answer)
        else:
            answers = answer["answers"]
    for i, (cfg, ob) in enumerate(zip(case["configs"], obs["reads"])):
        ck.case({"readcfg": case["gid"], "g": case["g"] if i == 0 else None, "cfg": cfg}, cfg_tag(case, cfg) + ":" + ob["outcome"], nontrivial=True)
        desc = (f"{where}, read configuration entry={cfg['entry']} structure_validation={cfg['sv']} "
                f"data_validation={'None' if cfg['dv'] is None else 'ValidationConfig(' + ', '.join(f + '=True' for f in cfg['dv']) + ')'} "
                f"node_props={cfg['np']} edge_props={cfg['ep']}")
        exp = expected_outcome(case, cfg)
        if ob["outcome"] != "ok" and exp == "ok":
            ck.fail("C01:readcfg-read-raises", f"{desc}: raised {ob['msg']} although the graph is valid for every enabled validator",
                    one(case, cfg), ob["outcome"], "ok")
        if ob["outcome"] == "ok":
            for key, what in ob["spec"]:
                ck.fail(key.replace("C01:", "C01:readcfg-"), f"{desc}: {what}", one(case, cfg), what, "the written graph")
            if not ob["md_ok"]:
                ck.fail("C01:readcfg-metadata-differs", f"{desc}: the metadata returned is not the plain read's (restricted to the loaded properties)",
                        one(case, cfg), "metadata differs", "same metadata")
        if answers is None:
            continue
        m = answers[i]
        if "err" in m:
            ck.corr_broken("C01:driver-read_opts", one(case, cfg), ob["outcome"], m)
        elif m["outcome"].startswith("unmodelled"):
            ck.histogram["unmodelled:" + m["outcome"]] = ck.histogram.get("unmodelled:" + m["outcome"], 0) + 1
        elif m["outcome"] != ob["outcome"]:
            ck.corr_broken("C01:readToMemoryOpts-outcome", one(case, cfg), {"outcome": ob["outcome"], "msg": ob.get("msg")}, m["outcome"])
        elif m["outcome"] == "ok" and digest(R.canon_geff(m["geff"])) != ob["digest"]:
            ck.corr_broken("C01:readToMemoryOpts-result", one(case, cfg), {"digest": ob["digest"], "spec": ob["spec"]}, R.canon_geff(m["geff"]))


def replay(c):
    obs = rc_run(c)
    ok = obs["write"] == "ok" and obs["plain"] == "ok" and not obs.get("plain_spec") and not obs["store_modified"]
    rows = []
    for cfg, ob in zip(c["configs"], obs["reads"]):
        exp = expected_outcome(c, cfg)
        good = (ob["outcome"] == "ok" and not ob["spec"] and ob["md_ok"]) if exp == "ok" else True
        ok = ok and good
        rows.append({"cfg": cfg, "expected_outcome": exp, "outcome": ob["outcome"], "msg": ob.get("msg"), "spec_violations": ob.get("spec"),
                     "metadata_same": ob.get("md_ok")})
    print(json.dumps({"write": obs["write"], "plain_read": obs["plain"], "plain_spec": obs.get("plain_spec"), "store_modified": obs["store_modified"],
                      "reads": rows}, ensure_ascii=False, default=str))
    print("REPLAY: property holds on this input" if ok else "REPLAY: property FAILS on this input")
    return 0 if ok else 1
