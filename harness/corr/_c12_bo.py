"""C12, stream `reader_byteorder`: graph validation THROUGH THE READER x the byte order of each stored id array.

A geff holds `nodes/ids` and `edges/ids` as two zarr arrays and each records its own byte order (zarr format 2: the
dtype string `<i8` / `>i8` of `.zarray`; zarr format 3: `endian` of the `bytes` codec).  `validate_structure` accepts
two id arrays of the same integer type with different byte orders, so such a store is a conformant geff (geff's own
writer never produces one, other writers do).  The property quantifies over all id / edge arrays "for every integer
dtype over its full range": the verdict of graph validation requested on read, the validator that fails and the
offenders it names must be those of the STORED VALUES, whatever the two byte orders.

Dimensions explored (all crossed with the graph generators of C12.py):
  dtype          the 8 integer dtypes (1-byte types have no byte order: control);
  node_bo,edge_bo  '<' / '>' independently for the two id arrays;
  zarr_format    2 (byte order in the dtype: the reader hands out non-native arrays) and 3 (byte order in the codec:
                 zarr hands out native arrays);
  directed       metadata.directed;
  entry point    read_to_memory(structure_validation=True AND False, data_validation=graph) on every store; geff.read(...,
                 backend="networkx") and GeffReader(validate=...).build() + validate_data with structure validation on or
                 off, alternating over the cases (a replay runs all six).
Every outcome is compared with an independent oracle on Python ints (verdict, failing validator, the offenders parsed
from the message), and the Lean model of GeffModel/ByteOrder.lean (op `read_bytes`) is fed the RAW chunk bytes and the
byte order RECORDED in the store and must reproduce the ids written and the outcome of the real reader.
"""
from __future__ import annotations

import itertools
import json
import re

import numpy as np

KIND = "reader_byteorder"
INT_DTYPES = ["int8", "int16", "int32", "int64", "uint8", "uint16", "uint32", "uint64"]
PREFIX = {"unique": "Some node ids are not unique:", "nodes_for_edges": "Some edges are missing nodes:",
          "self": "Self edges found in data:", "repeated": "Repeated edges found in data:"}
ENTRY_POINTS = ["read_to_memory:sv=1", "read_to_memory:sv=0", "geff.read:sv=1", "geff.read:sv=0",
                "GeffReader.build+validate_data:sv=1", "GeffReader.build+validate_data:sv=0"]
KNOWN_ISIN = "C12:bigendian-uint64-isin-typeerror"


def entry_points(c):
    """read_to_memory with structure validation on AND off for every case; geff.read and GeffReader.build +
    validate_data with structure validation on or off, alternating with a hash of the case (a replayed case names
    its entry point and runs all six)"""
    if c.get("entry_point") is not None:
        return list(ENTRY_POINTS)
    h = (len(c["ids"]) + 3 * len(c["edges"]) + sum(c["ids"]) + sum(x for e in c["edges"] for x in e)
         + (c["node_bo"] == ">") + 2 * (c["edge_bo"] == ">") + c["zarr_format"]) % 2
    return ENTRY_POINTS[:2] + [ENTRY_POINTS[2 + h], ENTRY_POINTS[5 - h]]


def swapped_one(dt):
    """the value whose bytes are those of 1 in the other byte order (2 for the 1-byte types)"""
    w = np.dtype(dt).itemsize
    return 2 if w == 1 else 1 << (8 * (w - 1))


def alphabet(dt):
    return [0, 1, swapped_one(dt)]


# ----------------------------------------------------------------------------- oracle (Python ints only)
def expected(c):
    """None when graph validation must pass, else (validator, flat list of the offenders in the order numpy prints them)"""
    ids, edges = c["ids"], [tuple(e) for e in c["edges"]]
    cnt = {}
    for x in ids:
        cnt[x] = cnt.get(x, 0) + 1
    dup = sorted(x for x, k in cnt.items() if k > 1)
    if dup:
        return "unique", dup
    idset = set(ids)
    dangling = [e for e in edges if e[0] not in idset or e[1] not in idset]
    if dangling:
        return "nodes_for_edges", [x for e in dangling for x in e]
    selfs = sorted({u for u, v in edges if u == v})
    if selfs:
        return "self", selfs
    rows = edges if c["directed"] else [(min(e), max(e)) for e in edges]
    rc = {}
    for e in rows:
        rc[e] = rc.get(e, 0) + 1
    rep = sorted(e for e, k in rc.items() if k > 1)
    if rep:
        return "repeated", [x for e in rep for x in e]
    return None


def parse_message(msg):
    """(validator, offenders as a flat list of ints) from the full text of the ValueError"""
    for name, p in PREFIX.items():
        if msg.startswith(p):
            return name, [int(x) for x in re.findall(r"-?\d+", msg[len(p):])]
    return None, None


# ----------------------------------------------------------------------------- implementation
def _full_outcome(fn):
    try:
        fn()
        return {"o": "ok"}
    except ValueError as ex:
        return {"o": "ValueError", "msg": str(ex.args[0]) if ex.args else ""}
    except Exception as ex:  # noqa: BLE001
        return {"o": type(ex).__name__, "msg": str(ex)[:200]}


def build_store(c, meta):
    """a geff written by geff's raw writer whose two id arrays are then stored again, uncompressed and in one chunk,
    with the requested byte order each"""
    import zarr
    from geff.core_io import write_arrays
    from zarr.codecs import BytesCodec

    dt = np.dtype(c["dtype"])
    ids = np.asarray(c["ids"], dtype=dt)
    edges = np.asarray(c["edges"], dtype=dt).reshape(-1, 2)
    st = zarr.storage.MemoryStore()
    write_arrays(st, ids, {}, edges, {}, meta, zarr_format=c["zarr_format"], structure_validation=False)
    root = zarr.open_group(st, mode="a")
    for grp, arr, bo in (("nodes", ids, c["node_bo"]), ("edges", edges, c["edge_bo"])):
        del root[grp]["ids"]
        chunks = tuple(max(1, n) for n in arr.shape)
        kw = {"shape": arr.shape, "chunks": chunks, "compressors": None, "filters": None, "config": {"write_empty_chunks": True}}
        if c["zarr_format"] == 2:
            a = root[grp].create_array("ids", dtype=dt.newbyteorder(bo), **kw)
        else:
            a = root[grp].create_array("ids", dtype=dt, serializer=BytesCodec(endian="big" if bo == ">" else "little"), **kw)
        a[...] = arr
    return st


def raw_items(st, c):
    """what the store holds: per id array the recorded byte order and the raw items (lists of byte values)"""
    from zarr.core.buffer import default_buffer_prototype
    from zarr.core.sync import sync

    def get(key):
        b = sync(st.get(key, prototype=default_buffer_prototype()))
        return None if b is None else bytes(b.to_bytes())
    w = np.dtype(c["dtype"]).itemsize
    out = {}
    for grp, chunk2, chunk3, n in (("nodes", "0", "c/0", len(c["ids"])), ("edges", "0.0", "c/0/0", 2 * len(c["edges"]))):
        if c["zarr_format"] == 2:
            md = json.loads(get(f"{grp}/ids/.zarray"))
            rec = {"<": "little", ">": "big", "|": "little"}[md["dtype"][0]]
            raw = get(f"{grp}/ids/{chunk2}")
        else:
            md = json.loads(get(f"{grp}/ids/zarr.json"))
            cod = [x for x in md["codecs"] if x["name"] == "bytes"][0]
            rec = (cod.get("configuration") or {}).get("endian", "little")
            raw = get(f"{grp}/ids/{chunk3}")
        raw = (raw or b"")[: n * w]       # a chunk of an empty array holds one padding row
        out[grp] = {"endian": rec, "items": [list(raw[i:i + w]) for i in range(0, len(raw), w)]}
    return out


def impl(c, _meta):
    import geff
    from geff.core_io._base_read import GeffReader, read_to_memory
    from geff.validate.data import ValidationConfig, validate_data

    G = ValidationConfig(graph=True)
    try:
        st = build_store(c, _meta(directed=c["directed"]))
        out = {"raw": raw_items(st, c)}
    except Exception as ex:  # noqa: BLE001   (building the store is not what is under test)
        return {"store_failed": type(ex).__name__ + ": " + str(ex)[:200]}

    def via_reader(sv):
        r = GeffReader(st, validate=sv)
        r.read_node_props()
        r.read_edge_props()
        g = r.build()
        out.setdefault("handed_out", {"node_dtype": g["node_ids"].dtype.str, "edge_dtype": g["edge_ids"].dtype.str,
                                      "ids": [int(x) for x in g["node_ids"]],
                                      "edges": [[int(a), int(b)] for a, b in g["edge_ids"]]})
        validate_data(g, G)
    eps = {}
    for ep in entry_points(c):
        how, k = ep.split(":")
        sv = k == "sv=1"
        if how == "read_to_memory":
            eps[ep] = _full_outcome(lambda: read_to_memory(st, structure_validation=sv, data_validation=G))
        elif how == "geff.read":
            eps[ep] = _full_outcome(lambda: geff.read(st, structure_validation=sv, data_validation=G, backend="networkx"))
        else:
            eps[ep] = _full_outcome(lambda: via_reader(sv))
    out["entry_points"] = eps
    return out


def req(c, im):
    raw = im["raw"]
    return {"op": "read_bytes", "signed": np.dtype(c["dtype"]).kind == "i", "directed": c["directed"],
            "node_endian": raw["nodes"]["endian"], "edge_endian": raw["edges"]["endian"],
            "node_items": raw["nodes"]["items"], "edge_items": raw["edges"]["items"]}


# ----------------------------------------------------------------------------- judge
def judge(ck, c, im, mo):
    w = np.dtype(c["dtype"]).itemsize
    mixed = "same-order" if c["node_bo"] == c["edge_bo"] or w == 1 else "mixed-order"
    want = expected(c)
    if "store_failed" in im:
        ck.case(c, f"{KIND}:store-not-built", nontrivial=False)
        h = ck.extra.setdefault("reader_byteorder_store_not_built", {})
        h[im["store_failed"][:80]] = h.get(im["store_failed"][:80], 0) + 1
        return
    ck.case(c, f"{KIND}:v{c['zarr_format']}:nodes{c['node_bo']}edges{c['edge_bo']}:{mixed}:{'valid' if want is None else want[0]}",
            nontrivial=bool(c["ids"]) or bool(c["edges"]))
    big = max([abs(x) for x in c["ids"]] + [abs(x) for e in c["edges"] for x in e] + [0]) >= 2 ** 63
    for ep, r in im["entry_points"].items():
        rc = {**c, "entry_point": ep}
        how = f"{ep} on a zarr v{c['zarr_format']} geff, {c['dtype']} ids stored as nodes '{c['node_bo']}' / edges '{c['edge_bo']}'"
        if r["o"] == "TypeError" and c["dtype"] == "uint64" and big and ">" in (c["node_bo"], c["edge_bo"]):
            ck.fail(KNOWN_ISIN, f"np.isin TypeError on non-native uint64 ids >= 2^63 ({how})", rc, r, want)
            continue
        if r["o"] not in ("ok", "ValueError"):
            ck.fail("C12:reader-byteorder-exception", f"{how}: raised {r['o']}: {r.get('msg', '')}", rc, r, want)
            continue
        if r["o"] == "ok":
            if want is not None:
                ck.fail("C12:reader-byteorder-accepts-invalid",
                        f"{how}: graph validation passes although the stored graph is invalid ({want[0]}: {want[1]})", rc, r, want)
            continue
        name, off = parse_message(r["msg"])
        if want is None:
            ck.fail("C12:reader-byteorder-rejects-valid", f"{how}: the stored graph is valid, yet: {r['msg']!r}", rc, r, None)
        elif name != want[0]:
            ck.fail("C12:reader-byteorder-wrong-validator", f"{how}: error of {name}, the first violated condition is {want[0]}", rc, r, want)
        elif off != want[1]:
            ck.fail("C12:reader-byteorder-wrong-offenders",
                    f"{how}: {name} names the offenders {off}, the offending stored ids / edges are {want[1]}", rc, r, want)
    if mo is not None:
        if "err" in mo:
            ck.corr_broken("C12:driver/read_bytes", c, im.get("raw"), mo)
            return
        m_ids = [int(x) for x in mo["ids"]]
        m_edges = [[int(a), int(b)] for a, b in mo["edges"]]
        if m_ids != c["ids"] or m_edges != [list(e) for e in c["edges"]]:
            # the decoding model does not describe what zarr stored for these values
            ck.corr_broken("C12:ByteOrder.decode(raw store bytes) != values written", c, im["raw"], {"ids": m_ids, "edges": m_edges})
            return
        for ep, r in im["entry_points"].items():
            if r["o"] == "TypeError" and c["dtype"] == "uint64" and big:
                continue
            a = {"o": r["o"], **({"msg": r["msg"].split("\n")[0]} if r["o"] == "ValueError" else {})}
            if a != mo["stage"]:
                ck.corr_broken(f"C12:readGraphStage ({ep})", c, a, mo["stage"])
                break
        h = ck.extra.setdefault("reader_byteorder_view_reading_differs", {"differs": 0, "same": 0})
        h["differs" if mo["stage_view"] != mo["stage"] else "same"] += 1


# ----------------------------------------------------------------------------- generators
def _combos():
    """(zarr_format, node_bo, edge_bo): every pair of byte orders for both formats"""
    return [(f, a, b) for f in (2, 3) for a in "<>" for b in "<>"]


V2 = [(2, a, b) for a in "<>" for b in "<>"]
V3 = [(3, a, b) for a in "<>" for b in "<>"]
MIXED_V2 = [(2, "<", ">"), (2, ">", "<")]


def combos_for(mode, k):
    """which (zarr_format, node_bo, edge_bo) the k-th graph of an enumeration is stored under"""
    if mode == "all":                 # every pair of byte orders for both formats
        return _combos()
    if mode == "v2-all":              # the four pairs of zarr format 2 + one rotating pair of format 3
        return V2 + [V3[k % 4]]
    if mode == "rot2":                # one rotating mixed pair of format 2 + one rotating other combination
        others = [x for x in _combos() if x not in MIXED_V2]
        return [MIXED_V2[k % 2], others[k % len(others)]]
    if mode == "rot1":                # one rotating combination (period 8, coprime with the alphabet's 3 and 9)
        return [_combos()[k % 8]]
    raise ValueError(mode)


def exhaustive(nmax_ids, nmax_edges, mode, keep=lambda ni, ne: True):
    """ALL id lists / edge lists over {0, 1, byteswapped 1} (the third letter is what 1 reads as under the other byte
    order, so that a re-labelled array collides with real ids); dtype and directedness round-robin; each graph stored
    under the (format, byte order pair) combinations of `mode` (see combos_for)"""
    k = 0
    for ni in range(nmax_ids + 1):
        for ne in range(nmax_edges + 1):
            if not keep(ni, ne):
                continue
            for ids_ix in itertools.product(range(3), repeat=ni):
                for e_ix in itertools.product(range(9), repeat=ne):
                    dt = INT_DTYPES[k % len(INT_DTYPES)]
                    directed = (k // len(INT_DTYPES)) % 2 == 0
                    a = alphabet(dt)
                    combos = combos_for(mode, k // (2 * len(INT_DTYPES)))
                    k += 1
                    for fmt, nb, eb in combos:
                        yield {"kind": KIND, "dtype": dt, "ids": [a[i] for i in ids_ix],
                               "edges": [[a[j // 3], a[j % 3]] for j in e_ix], "node_bo": nb, "edge_bo": eb,
                               "zarr_format": fmt, "directed": directed}


def fixed():
    """hand-picked: the shapes of the dimension (valid path with a non-palindromic value; an absent node whose
    byteswapped image is a node; self edge; repeated edge, directed and undirected; the dtype limits) for every dtype x
    every (format, byte order pair) - the 1-byte dtypes, which have no byte order, under two combinations as control;
    both directednesses where an edge is repeated, alternating otherwise"""
    k = 0
    for dt in INT_DTYPES:
        s = swapped_one(dt)
        hi = int(np.iinfo(dt).max)
        lo = int(np.iinfo(dt).min)
        graphs = [([0, 1, 2, 100], [[0, 1], [1, 2], [2, 100]], False), ([0, s], [[0, 1]], False), ([0, 1, 2], [[0, 1], [2, 7]], False),
                  ([0, 1, 2], [[0, 1], [2, 2]], False), ([0, 1, 2], [[1, 2], [0, 1], [1, 2]], True), ([0, 1, 2], [[1, 2], [2, 1]], True),
                  ([hi, 1, lo], [[hi, 1], [1, lo]], False), ([1, 1, s], [[1, s]], False), ([hi - 1, 3], [[3, hi - 1], [hi - 1, 3]], True)]
        for ids, edges, both in graphs:
            for fmt, nb, eb in (_combos() if np.dtype(dt).itemsize > 1 else [(2, "<", ">"), (3, ">", "<")]):
                k += 1
                for directed in ((True, False) if both else (k % 2 == 0,)):
                    yield {"kind": KIND, "dtype": dt, "ids": ids, "edges": edges, "node_bo": nb, "edge_bo": eb,
                           "zarr_format": fmt, "directed": directed}


def random_cases(rng, n, graph_random):
    """the random graph generator of C12.py (mostly valid, single defects, values at the dtype limits) x random
    (format, byte orders, directedness), biased to mixed orders in zarr format 2"""
    for _ in range(n):
        g = graph_random(rng)
        r = rng.random()
        if r < 0.5:
            fmt, (nb, eb) = 2, rng.choice([("<", ">"), (">", "<")])
        else:
            fmt, nb, eb = rng.choice(_combos())
        yield {"kind": KIND, "dtype": g["dtype"], "ids": g["ids"], "edges": g["edges"], "node_bo": nb, "edge_bo": eb,
               "zarr_format": fmt, "directed": rng.random() < 0.5}


def cases(rng, quick, graph_random):
    yield from fixed()
    if quick:
        yield from exhaustive(2, 1, "v2-all")                                             # <=2 ids x <=1 edge
        yield from exhaustive(3, 1, "rot1", keep=lambda ni, ne: ni == 3)                  # 3 ids x <=1 edge
        yield from exhaustive(2, 2, "rot1", keep=lambda ni, ne: ni == 2 and ne == 2)      # 2 ids x 2 edges
    else:
        yield from exhaustive(3, 1, "all")
        yield from exhaustive(2, 2, "v2-all", keep=lambda ni, ne: ne == 2)
    yield from random_cases(rng, 300 if quick else 6000, graph_random)
