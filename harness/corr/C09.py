"""C09 — partial reads equal the same restriction of the full read.

Implementation: geff.core_io._base_read.GeffReader (read_node_props / read_edge_props / build).
Model: Geff.PRead (lean/GeffModel/PartialRead.lean) through Drivers/C09.lean; the theorem
GeffProps.C09.C09_build_eq_restrict proves  build = restrict (full read)  for every store, call
sequence and mask.  Three verdicts per case:
  * S-oracle (pure Python, no numpy, independent of the model): restriction of the
    IMPLEMENTATION's own full read, compared with the implementation's partial read  -> ck.fail
  * the Lean specification `restrict` evaluated on the implementation's full read (op "restrict")
    must agree with the Python oracle                                              -> corr_broken
  * the Lean model of the reader on the raw store contents (read with zarr, not with GeffReader)
    must agree with the implementation                                             -> corr_broken
Stores are written by an independent zarr writer (so var-length layouts the geff writer never
produces are covered too) and, for a part of the cases, by geff's write_arrays.
"""
from __future__ import annotations

import itertools
import json
import struct

import numpy as np

from harness import common

PROP = "C09"


# ----------------------------------------------------------------- scalars <-> tokens
def tok(x):
    if isinstance(x, (bool, np.bool_)):
        return bool(x)
    if isinstance(x, (int, np.integer)):
        x = int(x)
        return x if abs(x) < 2**53 else f"i:{x}"
    if isinstance(x, (float, np.floating)):
        return "f:" + struct.pack(">d", float(x)).hex()
    if isinstance(x, (str, np.str_)):
        return "s:" + str(x)
    if isinstance(x, (bytes, np.bytes_)):
        return "s:" + x.decode("latin1")
    raise TypeError(f"no token for {type(x)}")


def dtype_name(dt):
    dt = np.dtype(dt)
    return "str" if np.issubdtype(dt, np.str_) else dt.name


def toks(arr):
    a = np.asarray(arr)
    if a.dtype.kind == "f":
        return [tok(float(x)) for x in a.astype(np.float64).ravel()]
    return [tok(x) for x in a.ravel().tolist()]


def rows_of(arr):
    arr = np.asarray(arr)
    n = arr.shape[0]
    w = int(np.prod(arr.shape[1:], dtype=np.int64))
    flat = toks(arr)
    return [flat[i * w:(i + 1) * w] for i in range(n)]


# ----------------------------------------------------------------- graph specs -> numpy
def np_prop(p, n):
    """JSON property spec -> dict(values=ndarray|object array, missing=ndarray|None)"""
    if p["kind"] == "fixed":
        v = np.array(p["values"], dtype=p["dtype"]).reshape([n] + p["trail"])
    else:
        v = np.empty(n, dtype=object)
        for i, e in enumerate(p["values"]):
            v[i] = np.array(e["flat"], dtype=p["dtype"]).reshape(e["shape"])
    m = None if p.get("missing") is None else np.array(p["missing"], dtype=bool)
    return {"values": v, "missing": m}


def vlen_layout(p, n):
    """independent encoder of a var-length property: (values table, data) — layout variants:
    'canon' = contiguous in order; 'rev' = data stored in reverse element order; 'gap' = one junk
    scalar between elements; 'pad' = data padded with junk so that len(data) == n when possible"""
    layout = p.get("layout", "canon")
    elems = [np.array(e["flat"], dtype=p["dtype"]).reshape(e["shape"]) for e in p["values"]]
    nd = len(p["values"][0]["shape"]) if elems else p.get("ndim", 1)
    order = list(range(n))
    if layout == "rev":
        order.reverse()
    junk = np.array([77], dtype=p["dtype"])
    chunks, offs, off = [], {}, 0
    for i in order:
        if layout == "gap":
            chunks.append(junk)
            off += 1
        offs[i] = off
        chunks.append(elems[i].ravel())
        off += elems[i].size
    if layout == "pad":
        while off < n:
            chunks.append(junk)
            off += 1
    table = np.array([[offs[i], *elems[i].shape] for i in range(n)], dtype=np.uint64).reshape(n, nd + 1)
    data = np.concatenate(chunks) if chunks else np.array([], dtype=p["dtype"])
    return table, data.astype(p["dtype"])


def write_store(case):
    """-> zarr MemoryStore holding the geff described by case['graph']"""
    import zarr
    from geff_spec import GeffMetadata, PropMetadata

    g = case["graph"]
    fmt = case.get("fmt", 2)
    ids = np.array(g["ids"], dtype=g.get("id_dtype", "int64"))
    edges = np.array(g["edges"], dtype=ids.dtype).reshape(-1, 2)
    store = zarr.storage.MemoryStore()
    if case.get("storepath"):
        # a geff nested under a path inside a larger store
        zarr.open_group(store, mode="w", zarr_format=fmt)
        store = zarr.storage.StorePath(store, "outer/inner.geff")
    if case.get("writer") == "geff":
        from geff.core_io import write_arrays

        md = GeffMetadata(directed=True, node_props_metadata={}, edge_props_metadata={}, extra={"k": 1})
        write_arrays(store, ids, {p["name"]: np_prop(p, len(ids)) for p in g["nprops"]}, edges,
                     {p["name"]: np_prop(p, len(edges)) for p in g["eprops"]}, md, zarr_format=fmt)
        return store
    root = zarr.open_group(store, mode="w", zarr_format=fmt)
    root["nodes/ids"] = ids
    root["edges/ids"] = edges
    metas = {"nodes": {}, "edges": {}}
    for grp, props, n in (("nodes", g["nprops"], len(ids)), ("edges", g["eprops"], len(edges))):
        pg = root.require_group(f"{grp}/props")
        for p in props:
            q = pg.create_group(p["name"])
            if p["kind"] == "fixed":
                q["values"] = np_prop(p, n)["values"]
            else:
                table, data = vlen_layout(p, n)
                q["values"] = table
                q["data"] = data
            if p.get("missing") is not None:
                q["missing"] = np.array(p["missing"], dtype=bool)
            metas[grp][p["name"]] = PropMetadata(identifier=p["name"], dtype=p["dtype"], varlength=p["kind"] == "vlen",
                                                 unit=p.get("unit"), description=p.get("description"))
    md = GeffMetadata(directed=True, node_props_metadata=metas["nodes"], edge_props_metadata=metas["edges"],
                      extra={"k": 1})
    root.attrs["geff"] = md.model_dump(mode="json")
    return store


# ----------------------------------------------------------------- raw store contents (for the model)
def pm_json(name, pm):
    return {"name": name, "dtype": dtype_name(pm["dtype"]), "varlength": bool(pm.get("varlength", False)),
            "rest": json.dumps([pm.get("identifier"), pm.get("unit"), pm.get("name"), pm.get("description")])}


def raw_store(store):
    import zarr

    root = zarr.open_group(store, mode="r")
    meta = dict(root.attrs["geff"])
    out = {"ids": [int(x) for x in root["nodes/ids"][...]],
           "edges": [[int(a), int(b)] for a, b in np.asarray(root["edges/ids"][...]).reshape(-1, 2)]}
    for grp, key in (("nodes", "nprops"), ("edges", "eprops")):
        props = []
        if "props" in root[grp]:
            pg = zarr.open_group(store, path=f"{grp}/props", mode="r")
            for name in [*pg.group_keys()]:
                q = pg[name]
                v = np.asarray(q["values"][...])
                props.append({"name": name, "trail": list(v.shape[1:]), "rows": rows_of(v),
                              "missing": [bool(x) for x in q["missing"][...]] if "missing" in q else None,
                              "data": toks(q["data"][...]) if "data" in q else None})
        out[key] = props
    out["nmeta"] = [pm_json(k, v) for k, v in meta["node_props_metadata"].items()]
    out["emeta"] = [pm_json(k, v) for k, v in meta["edge_props_metadata"].items()]
    out["rest"] = json.dumps({k: v for k, v in meta.items() if k not in ("node_props_metadata", "edge_props_metadata")},
                             sort_keys=True)
    return out


# ----------------------------------------------------------------- implementation observation
def canon_prop(name, p):
    v = p["values"]
    if v.dtype == object:
        vals = {"object": [{"dtype": dtype_name(e.dtype), "shape": list(e.shape), "flat": toks(e)} for e in v]}
    else:
        vals = {"dense": {"dtype": dtype_name(v.dtype), "trail": list(v.shape[1:]), "rows": rows_of(v)}}
    m = p["missing"]
    return {"name": name, "values": vals, "missing": None if m is None else [bool(x) for x in m]}


def canon_inmem(o):
    md = o["metadata"].model_dump(mode="json")
    return {"node_ids": [int(x) for x in o["node_ids"]],
            "edge_ids": [[int(a), int(b)] for a, b in np.asarray(o["edge_ids"]).reshape(-1, 2)],
            "node_props": [canon_prop(k, v) for k, v in o["node_props"].items()],
            "edge_props": [canon_prop(k, v) for k, v in o["edge_props"].items()],
            "nmeta": [pm_json(k, v) for k, v in md["node_props_metadata"].items()],
            "emeta": [pm_json(k, v) for k, v in md["edge_props_metadata"].items()],
            "rest": json.dumps({k: v for k, v in md.items() if k not in ("node_props_metadata", "edge_props_metadata")},
                               sort_keys=True)}


def res(f):
    try:
        return {"ok": f()}
    except Exception as ex:  # noqa: BLE001
        return {"err": type(ex).__name__, "mro": [c.__name__ for c in type(ex).__mro__], "msg": str(ex)[:160]}


def mask_arr(m):
    return None if m is None else np.array(m, dtype=bool)


FLAVOURS = ["list", "tuple", "set", "frozenset", "dictkeys", "gen", "iter", "filter", "map", "oneshot", "dup"]


class OneShot:
    """an iterator that can be consumed exactly once (a second pass yields nothing)"""

    def __init__(self, items):
        self._it = iter(list(items))

    def __iter__(self):
        return self

    def __next__(self):
        return next(self._it)


def flavoured(names, flav):
    """-> (the selection as an Iterable[str] of the given flavour, the names in the order it yields them)"""
    if names is None:
        return None, None
    names = list(names)
    if flav in (None, "list"):
        return names, names
    if flav == "tuple":
        return tuple(names), names
    if flav in ("set", "frozenset"):
        obj = (set if flav == "set" else frozenset)(names)
        return obj, list(obj)
    if flav == "dictkeys":
        return dict.fromkeys(names).keys(), list(dict.fromkeys(names))
    if flav == "gen":
        return (x for x in names), names
    if flav == "iter":
        return iter(names), names
    if flav == "filter":
        return filter(lambda x: True, names), names
    if flav == "map":
        return map(str, names), names
    if flav == "oneshot":
        return OneShot(names), names
    if flav == "dup":
        return names + names, names + names
    raise ValueError(flav)


def do_call(r, c):
    """one read_*_props call on reader r -> (exception class or None, names in the order they were given)"""
    arg, used = flavoured(c["names"], c.get("flav"))
    try:
        (r.read_node_props if c["k"] == "n" else r.read_edge_props)(arg)
        return None, used
    except Exception as ex:  # noqa: BLE001
        return type(ex).__name__, used


def graph_keys(backend, g):
    """(union of node attribute names, union of edge attribute names) of a backend graph"""
    if backend == "networkx":
        return sorted({k for _, d in g.nodes(data=True) for k in d}), sorted({k for _, _, d in g.edges(data=True) for k in d})
    return sorted({k for d in g.nodes() for k in d}), sorted({k for d in g.edges() for k in d})


def impl_history(case, store, out):
    """several builds on ONE reader, interleaved with read_*_props calls"""
    from geff import GeffReader

    r = GeffReader(store)
    calls, hist, keep = [], [], []
    for op in case["ops"]:
        if op["k"] in ("n", "e"):
            err, used = do_call(r, op)
            calls.append({"k": op["k"], "names": used, "err": err})
        else:
            q = {"nm": op["nm"], "em": op["em"]}
            try:
                o = r.build(mask_arr(q["nm"]), mask_arr(q["em"]))
                keep.append(o)
                ans = {"ok": canon_inmem(o)}
            except Exception as ex:  # noqa: BLE001
                keep.append(None)
                ans = {"err": type(ex).__name__, "mro": [c.__name__ for c in type(ex).__mro__], "msg": str(ex)[:160]}
            hist.append({"q": q, "calls": [dict(c) for c in calls], "nsel": list(r.node_props), "esel": list(r.edge_props), "ans": ans})
    # results of earlier builds must not be modified by later reads / builds
    for h, o in zip(hist, keep):
        h["stable"] = o is None or canon_inmem(o) == h["ans"]["ok"]
    out["hist"] = hist
    return out


def impl_group(case):
    """one store + one call sequence + many (node mask, edge mask) queries on ONE reader"""
    from geff import GeffReader

    try:
        store = write_store(case)
    except Exception as ex:  # noqa: BLE001
        return {"write_err": f"{type(ex).__name__}: {ex}"[:300]}
    out = {"raw": raw_store(store)}
    out["full"] = res(lambda: canon_inmem(_full(store)))
    try:
        r = GeffReader(store)
    except Exception as ex:  # noqa: BLE001
        out["init_err"] = type(ex).__name__
        return out
    if "ops" in case:
        try:
            return impl_history(case, store, out)
        except Exception as ex:  # noqa: BLE001
            out["init_err"] = type(ex).__name__
            return out
    errs, used = [], []
    for c in case["calls"]:
        err, u = do_call(r, c)
        errs.append(err)
        used.append({"k": c["k"], "names": u})
    out["errs"] = errs
    out["used"] = used
    out["nsel"], out["esel"] = list(r.node_props), list(r.edge_props)
    out["answers"] = [res(lambda q=q: canon_inmem(r.build(mask_arr(q["nm"]), mask_arr(q["em"])))) for q in case["queries"]]
    if case.get("rtm"):     # read_to_memory(node_props=…, edge_props=…) = the un-masked build of the same selection
        from geff.core_io._base_read import read_to_memory

        fl = case.get("rtm_flav", [None, None])
        out["rtm"] = res(lambda: canon_inmem(read_to_memory(store, True, flavoured(case["rtm"][0], fl[0])[0],
                                                            flavoured(case["rtm"][1], fl[1])[0])))
    if case.get("backends"):  # geff.read(store, node_props=…, edge_props=…, backend=…) with the same selection
        import geff

        fl = case.get("rtm_flav", [None, None])
        out["backends"] = {}
        for be in case["backends"]:
            def rd(be=be):
                g, md = geff.read(store, node_props=flavoured(case["rtm"][0], fl[0])[0],
                                  edge_props=flavoured(case["rtm"][1], fl[1])[0], backend=be)
                nk, ek = graph_keys(be, g)
                return {"meta_n": sorted(md.node_props_metadata), "meta_e": sorted(md.edge_props_metadata), "node_keys": nk, "edge_keys": ek}
            out["backends"][be] = res(rd)
    if case.get("fresh"):   # the same queries on a fresh reader each: build must not depend on earlier builds
        fr = []
        for q in case["queries"]:
            r2 = GeffReader(store)
            for c in case["calls"]:
                do_call(r2, c)
            fr.append(res(lambda q=q, r2=r2: canon_inmem(r2.build(mask_arr(q["nm"]), mask_arr(q["em"])))))
        out["fresh"] = fr
    return out


def _full(store):
    from geff import GeffReader

    r = GeffReader(store)
    r.read_node_props()
    r.read_edge_props()
    return r.build()


# ----------------------------------------------------------------- S-oracle: restriction in plain Python
def sel(xs, mask):
    return [x for x, b in zip(xs, mask, strict=True) if b]


def py_restrict(full, nsel, esel, nm, em):
    n, e = len(full["node_ids"]), len(full["edge_ids"])
    nmask = [True] * n if nm is None else nm
    kept = sel(full["node_ids"], nmask)
    ks = set(kept)
    emask = [True] * e if em is None else em
    ek = [b and u in ks and v in ks for b, (u, v) in zip(emask, full["edge_ids"], strict=True)]

    def props(names, fullprops, mask):
        out = []
        byname = {p["name"]: p for p in fullprops}
        for name in dict.fromkeys(names):
            p = byname[name]
            v = p["values"]
            if "dense" in v:
                vals = {"dense": {**v["dense"], "rows": sel(v["dense"]["rows"], mask)}}
            else:
                vals = {"object": sel(v["object"], mask)}
            out.append({"name": name, "values": vals, "missing": None if p["missing"] is None else sel(p["missing"], mask)})
        return out

    return {"node_ids": kept, "edge_ids": sel(full["edge_ids"], ek),
            "node_props": props(nsel, full["node_props"], nmask), "edge_props": props(esel, full["edge_props"], ek),
            "nmeta": [m for m in full["nmeta"] if m["name"] in nsel], "emeta": [m for m in full["emeta"] if m["name"] in esel],
            "rest": full["rest"]}


def norm_ids(r):
    """ids beyond 2^53 come back from the driver as decimal strings"""
    def fix(g):
        g["node_ids"] = [int(x) for x in g["node_ids"]]
        g["edge_ids"] = [[int(a), int(b)] for a, b in g["edge_ids"]]
    if isinstance(r, dict) and "ok" in r:
        fix(r["ok"])
    elif isinstance(r, dict) and "node_ids" in r:
        fix(r)
    return r


def as_dicts(g):
    """dict order of props/metadata is not part of the property: compare as mappings"""
    return {**g, "node_props": {p["name"]: p for p in g["node_props"]}, "edge_props": {p["name"]: p for p in g["edge_props"]},
            "nmeta": {p["name"]: p for p in g["nmeta"]}, "emeta": {p["name"]: p for p in g["emeta"]}}


def diff_class(case, got, want):
    """name of the first component in which two InMem observations differ"""
    g, w = as_dicts(got), as_dicts(want)
    if g["node_ids"] != w["node_ids"]:
        return "node-ids"
    if g["edge_ids"] != w["edge_ids"]:
        return "edge-ids"
    for k in ("node_props", "edge_props"):
        if set(g[k]) != set(w[k]):
            return "prop-set"
        for name in g[k]:
            if g[k][name]["values"] != w[k][name]["values"]:
                vl = "object" in w[k][name]["values"]
                return "varlength-rows" if vl else "prop-rows"
            if g[k][name]["missing"] != w[k][name]["missing"]:
                return "missing-rows"
    if g["nmeta"] != w["nmeta"] or g["emeta"] != w["emeta"]:
        return "metadata-props"
    if g["rest"] != w["rest"]:
        return "metadata-rest"
    return None


# ----------------------------------------------------------------- generators
def mk_vals(rng, dtype, count, lo=0):
    if dtype == "str":
        return [rng.choice(["", "a", "bc", "déf", "x y"]) + str(lo + i) for i in range(count)]
    if dtype == "bool":
        return [rng.random() < 0.5 for _ in range(count)]
    if dtype.startswith("float"):
        return [rng.choice([0.0, -0.0, 1.5, -2.25, 1e300, 3.0, 0.1]) + (lo + i) for i in range(count)]
    if dtype.startswith("uint"):
        return [(lo + i * 7 + rng.randint(0, 5)) % 250 for i in range(count)]
    return [lo + i * 3 - rng.randint(0, 9) for i in range(count)]


def mk_prop(rng, name, n, kind, dtype, trail=(), missing=False, layout="canon", rank=1):
    p = {"name": name, "kind": kind, "dtype": dtype}
    if kind == "fixed":
        w = int(np.prod(trail, dtype=np.int64))
        p["trail"] = list(trail)
        p["values"] = mk_vals(rng, dtype, n * w)
    else:
        elems = []
        for i in range(n):
            shape = [rng.choice([0, 1, 2, 3]) for _ in range(rank)]
            elems.append({"shape": shape, "flat": mk_vals(rng, dtype, int(np.prod(shape, dtype=np.int64)), lo=10 * i)})
        p["values"] = elems
        p["layout"] = layout
        p["ndim"] = rank
    p["missing"] = [rng.random() < 0.4 for _ in range(n)] if missing else None
    if rng.random() < 0.3:
        p["unit"] = "um"
    return p


def four_props(rng, pre, n, layout="canon"):
    """the 4-property family of the design: fixed 1-D, 2-D, var-length, missing-bearing"""
    return [mk_prop(rng, pre + "f", n, "fixed", "float64"),
            mk_prop(rng, pre + "m", n, "fixed", "int32", trail=(2,)),
            mk_prop(rng, pre + "v", n, "vlen", "int64", layout=layout, missing=rng.random() < 0.5),
            mk_prop(rng, pre + "s", n, "fixed", "str", missing=True)]


def mk_graph(rng, n, e, ids=None, nprops=None, eprops=None, layout="canon"):
    ids = ids if ids is not None else rng.sample(range(0, 40), n)
    edges = [[rng.choice(ids), rng.choice(ids)] for _ in range(e)] if n else []
    return {"ids": ids, "edges": edges, "id_dtype": rng.choice(["int64", "uint8", "int32", "uint64"]),
            "nprops": four_props(rng, "n", n, layout) if nprops is None else nprops,
            "eprops": four_props(rng, "e", len(edges), layout) if eprops is None else eprops}


def all_masks(n):
    return [None] + [list(bits) for bits in itertools.product([False, True], repeat=n)]


def subsets(names):
    return [list(c) for k in range(len(names) + 1) for c in itertools.combinations(names, k)]


def exhaustive_groups(ck):
    """N,E <= 4: all 2^N x 2^E masks (+None) x property subsets of the 4-property graph"""
    rng = ck.rng
    sizes = [(0, 0), (1, 0), (1, 1), (2, 1), (2, 3), (3, 0), (3, 2), (4, 4)] if ck.quick else \
        [(n, e) for n in range(5) for e in range(5) if n > 0 or e == 0]
    groups = []
    for gi, (n, e) in enumerate(sizes):
        g = mk_graph(rng, n, e, layout=["canon", "rev", "gap", "pad"][gi % 4])
        e = len(g["edges"])
        queries = [{"nm": a, "em": b} for a in all_masks(n) for b in all_masks(e)]
        nnames, enames = [p["name"] for p in g["nprops"]], [p["name"] for p in g["eprops"]]
        pairs = [(a, b) for a in subsets(nnames) for b in subsets(enames)]
        if ck.quick:
            # every node subset and every edge subset occurs, paired round-robin
            ns, es = subsets(nnames), subsets(enames)
            rng.shuffle(es)
            pairs = [(ns[i], es[i]) for i in range(16)] if (n, e) != (4, 4) else pairs[::37]
        elif (n, e) not in ((4, 4), (2, 3), (1, 1)):
            rng.shuffle(pairs)
            pairs = pairs[:24]
        for (a, b) in pairs:
            groups.append({"graph": g, "fmt": 2 + (len(groups) % 2), "writer": "direct",
                           "calls": [{"k": "n", "names": a}, {"k": "e", "names": b}], "queries": queries,
                           "rtm": [a, b], "stream": "exhaustive"})
    return groups


def call_orders(rng, nnames, enames):
    """a random GeffReader call sequence: repeated, interleaved, None (= all), re-reads"""
    calls = []
    for _ in range(rng.randint(0, 5)):
        k = rng.choice("ne")
        names = nnames if k == "n" else enames
        r = rng.random()
        if r < 0.2:
            calls.append({"k": k, "names": None})
        else:
            pick = [x for x in names if rng.random() < 0.5]
            rng.shuffle(pick)
            if rng.random() < 0.2 and pick:
                pick.append(pick[0])
            calls.append({"k": k, "names": pick, "flav": rng.choice(FLAVOURS) if rng.random() < 0.4 else None})
    return calls


def rand_mask(rng, n):
    r = rng.random()
    if r < 0.15:
        return None
    if r < 0.25:
        return [True] * n
    if r < 0.35:
        return [False] * n
    p = rng.random()
    return [rng.random() < p for _ in range(n)]


def random_group(rng, big=False):
    n = rng.choice([0, 1, 2, 3, 5, 8]) if not big else rng.randint(20, 60)
    e = rng.choice([0, 1, 2, 4, 9]) if not big else rng.randint(10, 80)
    ids = rng.sample(range(0, 250), n)
    layout = rng.choice(["canon", "canon", "rev", "gap", "pad"])

    def props(pre, cnt):
        out = []
        for k in range(rng.randint(0, 4)):
            kind = rng.choice(["fixed", "fixed", "vlen"])
            if kind == "fixed":
                out.append(mk_prop(rng, f"{pre}{k}", cnt, "fixed", rng.choice(["float64", "float32", "int64", "uint8", "bool", "str", "int16"]),
                                   trail=rng.choice([(), (), (2,), (2, 3), (0,), (1,)]), missing=rng.random() < 0.4))
            else:
                out.append(mk_prop(rng, f"{pre}{k}", cnt, "vlen", rng.choice(["int64", "float64", "uint8", "float32"]),
                                   missing=rng.random() < 0.4, layout=layout, rank=rng.choice([1, 1, 2, 0])))
        return out
    g = mk_graph(rng, n, e, ids=ids, nprops=[], eprops=[])
    shared = rng.random() < 0.3        # node and edge properties with the same names
    g["nprops"], g["eprops"] = props("p" if shared else "n", n), props("p" if shared else "e", len(g["edges"]))
    writer = "geff" if (rng.random() < 0.35 and layout == "canon" and n > 0 and len(g["edges"]) > 0) else "direct"
    nn, en = [p["name"] for p in g["nprops"]], [p["name"] for p in g["eprops"]]
    return {"graph": g, "fmt": rng.choice([2, 3]), "writer": writer, "calls": call_orders(rng, nn, en),
            "queries": [{"nm": rand_mask(rng, n), "em": rand_mask(rng, len(g["edges"]))} for _ in range(6)],
            "fresh": rng.random() < 0.3, "storepath": rng.random() < 0.15, "stream": "random-big" if big else "random"}


def sparse_group(rng):
    """larger graphs (N 20..80) with sparse / huge / unsorted ids, linear tracks with divisions or random edges, and
    masks that keep most nodes but drop interior nodes of degree >= 2 (numpy's isin switches to its sort-based
    path for such id sets; an edge (kept, dropped) must not survive)"""
    n = rng.randint(20, 80)
    scheme = rng.choice(["thousand", "bits48", "int64-top", "uint64-top", "mixed-sign", "dense-offset"])
    dt = "int64"
    if scheme == "thousand":
        ids = [1000 * k + 7 for k in range(n)]
    elif scheme == "bits48":
        ids = sorted({rng.randint(2**40, 2**48) for _ in range(n)})
    elif scheme == "int64-top":
        ids = [2**63 - 1 - k * rng.randint(1, 10**6) - k for k in range(n)]
        ids = sorted(set(ids))
    elif scheme == "uint64-top":
        dt = "uint64"
        ids = sorted({2**64 - 1 - k * 977 * rng.randint(1, 10**9) for k in range(n)})
    elif scheme == "mixed-sign":
        ids = sorted({rng.randint(-2**62, 2**62) for _ in range(n)})
    else:
        ids = [10**12 + 3 * k for k in range(n)]
    n = len(ids)
    if rng.random() < 0.6:
        rng.shuffle(ids)
    edges = []
    if rng.random() < 0.6:
        # linear tracks: chains over consecutive positions, occasionally a division
        start = 0
        while start < n - 1:
            ln = rng.randint(3, 15)
            chain = list(range(start, min(n, start + ln)))
            edges += [[ids[a], ids[b]] for a, b in zip(chain, chain[1:])]
            if len(chain) > 4 and rng.random() < 0.5:
                edges.append([ids[chain[1]], ids[chain[-1]]])
            start += ln
    else:
        for _ in range(rng.randint(n, 3 * n)):
            a, b = rng.sample(range(n), 2)
            edges.append([ids[a], ids[b]])
    deg = {}
    for u, v in edges:
        deg[u] = deg.get(u, 0) + 1
        deg[v] = deg.get(v, 0) + 1
    interior = [i for i, x in enumerate(ids) if deg.get(x, 0) >= 2]
    e = len(edges)
    g = {"ids": ids, "edges": edges, "id_dtype": dt,
         "nprops": [mk_prop(rng, "t", n, "fixed", "int64")],
         "eprops": [mk_prop(rng, "w", e, "fixed", "float64"), mk_prop(rng, "v", e, "vlen", "int64", missing=rng.random() < 0.5)]}
    queries = []
    for _ in range(8):
        nm = [True] * n
        for i in rng.sample(interior, min(len(interior), rng.choice([1, 1, 2, 3, 5]))) if interior else []:
            nm[i] = False
        if rng.random() < 0.3:
            for i in rng.sample(range(n), rng.randint(0, n // 6)):
                nm[i] = False
        queries.append({"nm": nm, "em": rng.choice([None, None, [rng.random() < 0.8 for _ in range(e)]])})
    return {"graph": g, "fmt": rng.choice([2, 3]), "writer": "direct",
            "calls": [{"k": "n", "names": None}, {"k": "e", "names": None}], "queries": queries, "stream": "sparse-ids"}


def shared_name_groups(rng):
    """node and edge properties that SHARE names (same and different dtype / var-length), every combination of a
    node selection with an edge selection: the two metadata dicts must be pruned independently"""
    n, e = 3, 3
    ids = [11, 5, 8]
    edges = [[11, 5], [5, 8], [8, 11]]
    nprops = [mk_prop(rng, "a", n, "fixed", "float64"), mk_prop(rng, "b", n, "vlen", "int64"),
              mk_prop(rng, "c", n, "fixed", "int32", trail=(2,), missing=True)]
    eprops = [mk_prop(rng, "a", e, "fixed", "float64"), mk_prop(rng, "b", e, "fixed", "str", missing=True),
              mk_prop(rng, "d", e, "vlen", "float64")]
    nprops[0]["unit"], eprops[0]["unit"] = "um", "s"
    nprops[0]["description"], eprops[1]["description"] = "node a", "edge b"
    g = {"ids": ids, "edges": edges, "id_dtype": "int64", "nprops": nprops, "eprops": eprops}
    queries = [{"nm": None, "em": None}, {"nm": [True, False, True], "em": None}, {"nm": None, "em": [False, True, True]},
               {"nm": [True, True, False], "em": [True, True, False]}]
    groups = []
    for a in subsets(["a", "b", "c"]):
        for b in subsets(["a", "b", "d"]):
            calls = [{"k": "n", "names": a}, {"k": "e", "names": b}]
            if len(groups) % 3 == 1:
                calls.reverse()
            # every selection (the EMPTY one included) also through geff.read of each backend: the adapter layer
            # (_backend_protocol.Backend.read) hands the selection on and must not read [] as "everything"
            groups.append({"graph": g, "fmt": 2 + len(groups) % 2, "writer": "direct", "calls": calls, "queries": queries,
                           "rtm": [a, b], "backends": ["networkx", "rustworkx"], "stream": "shared-names"})
    # None (= all properties) on either side, next to [], one name and all names
    for a, b in [(None, None), (None, []), ([], None), (None, ["a"]), (["c"], None), (None, ["a", "b", "d"]), (["a", "b", "c"], None)]:
        groups.append({"graph": g, "fmt": 2 + len(groups) % 2, "writer": "direct",
                       "calls": [{"k": "n", "names": a}, {"k": "e", "names": b}], "queries": queries,
                       "rtm": [a, b], "backends": ["networkx", "rustworkx"], "stream": "selection-none"})
    return groups


def flavour_groups(rng):
    """the property selections in every Iterable[str] flavour, through read_*_props, read_to_memory and geff.read"""
    groups = []
    for v in range(2):
        g = mk_graph(rng, 3, 3)
        nn, en = [p["name"] for p in g["nprops"]], [p["name"] for p in g["eprops"]]
        e = len(g["edges"])
        for f in FLAVOURS:
            a, b = rng.sample(nn, 2 + v), rng.sample(en, 1 + v)
            groups.append({"graph": g, "fmt": 2 + v, "writer": "direct",
                           "calls": [{"k": "n", "names": a, "flav": f}, {"k": "e", "names": b, "flav": f}],
                           "queries": [{"nm": None, "em": None}, {"nm": [True, False, True], "em": None},
                                       {"nm": None, "em": [rng.random() < 0.5 for _ in range(e)]}],
                           "rtm": [a, b], "rtm_flav": [f, f], "backends": ["networkx", "rustworkx"], "stream": "flavour-" + f})
    return groups


def history_group(rng):
    """several builds on ONE reader interleaved with read_node_props / read_edge_props (properties added between
    builds, another mask per build, repeated identical builds)"""
    n, e = rng.choice([1, 2, 3, 5]), rng.choice([0, 1, 3, 4])
    g = mk_graph(rng, n, e)
    e = len(g["edges"])
    nn, en = [p["name"] for p in g["nprops"]], [p["name"] for p in g["eprops"]]

    def read(k):
        names = nn if k == "n" else en
        r = rng.random()
        if r < 0.15:
            return {"k": k, "names": None}
        return {"k": k, "names": [x for x in names if rng.random() < 0.5], "flav": rng.choice(FLAVOURS) if rng.random() < 0.3 else None}

    def build(prev=None):
        if prev is not None and rng.random() < 0.25:
            return dict(prev)
        return {"k": "b", "nm": rand_mask(rng, n), "em": rand_mask(rng, e)}
    ops, last = [], None
    for _ in range(rng.randint(0, 2)):
        ops.append(read(rng.choice("ne")))
    for _ in range(rng.randint(2, 4)):
        last = build(last)
        ops.append(last)
        for _ in range(rng.choice([0, 1, 1, 2])):
            ops.append(read(rng.choice("nee")))
    last = build(last)
    ops.append(last)
    return {"graph": g, "fmt": rng.choice([2, 3]), "writer": "direct", "calls": [], "queries": [], "ops": ops, "stream": "history"}


def malformed_group(rng):
    """outside the property's domain (correspondence only): unknown property names, masks of the
    wrong length, dangling stored edges"""
    gp = random_group(rng)
    g = gp["graph"]
    n, e = len(g["ids"]), len(g["edges"])
    kind = rng.choice(["unknown-name", "mask-length", "dangling"])
    if kind == "unknown-name":
        gp["calls"].insert(rng.randint(0, len(gp["calls"])), {"k": rng.choice("ne"), "names": ["nf", "zz", "ef"]})
    elif kind == "mask-length":
        gp["queries"] = [{"nm": [True] * (n + d), "em": None} for d in (-1, 1) if n + d >= 0] + \
                        [{"nm": rand_mask(rng, n), "em": [rng.random() < 0.5] * (e + d)} for d in (-1, 1, 2) if e + d >= 0] + \
                        [{"nm": None, "em": [True]}]
    elif n:
        g["edges"] = g["edges"] + [[g["ids"][0], 251], [252, 253]]
        for p in g["eprops"]:
            extra = mk_prop(rng, p["name"], 2, p["kind"], p["dtype"], tuple(p.get("trail", ())), p["missing"] is not None,
                            p.get("layout", "canon"), p.get("ndim", 1))
            p["values"] = p["values"] + extra["values"]
            if p["missing"] is not None:
                p["missing"] = p["missing"] + extra["missing"]
        gp["queries"] = [{"nm": rand_mask(rng, n), "em": rand_mask(rng, e + 2)} for _ in range(6)]
        gp["id_dtype"] = "int64"
        g["id_dtype"] = "int64"
    gp["writer"] = "direct"
    gp["stream"] = "malformed-" + kind
    return gp


def corpus():
    d = common.VERIF / "harness" / "corpus" / PROP
    for f in sorted(d.glob("*.json")):
        c = json.loads(f.read_text())
        c.setdefault("stream", "corpus")
        yield c


# ----------------------------------------------------------------- judging one group
def in_domain(case, raw, q):
    n, e = len(raw["ids"]), len(raw["edges"])
    return (q["nm"] is None or len(q["nm"]) == n) and (q["em"] is None or len(q["em"]) == e)


def edges_closed(raw):
    s = set(raw["ids"])
    return all(u in s and v in s for u, v in raw["edges"])


def fail_key(case, q, ans, full_ok):
    """class of a raised exception inside the property's domain"""
    g = case["graph"]
    n, e = len(g["ids"]), len(g["edges"])
    masked = q["nm"] is not None or q["em"] is not None
    if masked and (n == 0 or e == 0) and ans["err"] == "IndexError":
        return "C09:empty-selection-raises"
    if masked and any(p["kind"] == "vlen" for p in g["nprops"] + g["eprops"]) and ans["err"] == "VindexInvalidSelectionError":
        return "C09:masked-varlength-raises"
    return "C09:exception"


def judge_history(ck, case, im, mo, full, small, closed):
    """every build of a history on ONE reader = restrict of the full read for the properties registered so far"""
    raw = im["raw"]
    for bi, h in enumerate(im["hist"]):
        q, ans = h["q"], h["ans"]
        one = {**small, "queries": [], "failing_build": bi}
        dom = in_domain(case, raw, q) and (closed or q["nm"] is not None)
        ck.case({"ops": case["ops"], "build": bi, "graph_ids": raw["ids"]}, case["stream"] + (":build%d" % min(bi, 3)) + ("" if dom else ":out-of-domain"),
                bool(raw["ids"]))
        if dom:
            want = py_restrict(full, h["nsel"], h["esel"], q["nm"], q["em"])
            if "err" in ans:
                ck.fail(fail_key(case, q, ans, True), f"build #{bi} of a history raised {ans['err']} ({ans.get('msg', '')}) but the full read works",
                        one, ans, "restriction of the full read")
            else:
                d = diff_class(case, ans["ok"], want)
                if d:
                    ck.fail("C09:history-" + d, f"build #{bi} on a re-used reader differs from the restriction of the full read in {d}", one,
                            ans["ok"], want)
            if not h["stable"]:
                ck.fail("C09:history-result-modified", f"the result of build #{bi} was modified by later calls on the reader", one, None, None)
        m = None if mo is None else mo.get(bi)
        if m is not None:
            a = m["answers"][0]
            same = ("ok" in a and "ok" in ans and a["ok"] == ans["ok"]) or \
                   ("err" in a and "err" in ans and (a["err"] == ans["err"] or a["err"] in ans.get("mro", [])))
            if not same:
                ck.corr_broken("C09:history-build", one, {k: v for k, v in ans.items() if k != "mro"}, a)


def judge(ck, case, im, mo, lean_spec):
    """im = implementation observations, mo = model answer (or None), lean_spec = Lean `restrict` on
    the implementation's full read (or None)"""
    small = {k: case.get(k) for k in ("graph", "fmt", "writer", "calls", "storepath", "rtm", "rtm_flav", "backends", "ops")
             if k in ("graph", "fmt", "writer", "calls") or case.get(k) is not None}
    small.setdefault("calls", [])
    if "write_err" in im:
        ck.broken.append({"what": "corr C09:store-writer", "detail": {"case": small, "err": im["write_err"]}})
        return
    raw = im["raw"]
    full = im["full"]
    if "init_err" in im or "err" in full:
        # the generated stores are valid geffs: the full read must work
        ck.case({**small, "q": None}, "full-read-raises", True)
        ck.fail("C09:full-read-raises-storepath" if case.get("storepath") else "C09:full-read-raises", f"GeffReader full read raised {im.get('init_err') or full['err']} on a valid store",
                {**small, "queries": []}, im.get("init_err") or full, "ok")
        return
    full = full["ok"]
    closed = edges_closed(raw)
    if "hist" in im:
        judge_history(ck, case, im, mo, full, small, closed)
        return
    nsel, esel = im["nsel"], im["esel"]
    if case.get("rtm"):     # None = every stored property
        case = {**case, "rtm": [[p["name"] for p in full["node_props"]] if case["rtm"][0] is None else case["rtm"][0],
                                [p["name"] for p in full["edge_props"]] if case["rtm"][1] is None else case["rtm"][1]]}
    for be, ob in (im.get("backends") or {}).items():
        def present(names, fullprops, count):
            by = {p["name"]: p for p in fullprops}
            return sorted(nm for nm in set(names) if count and (by[nm]["missing"] is None or not all(by[nm]["missing"])))
        want = {"meta_n": sorted(set(case["rtm"][0])), "meta_e": sorted(set(case["rtm"][1])),
                "node_keys": present(case["rtm"][0], full["node_props"], len(full["node_ids"])),
                "edge_keys": present(case["rtm"][1], full["edge_props"], len(full["edge_ids"]))}
        ck.case({"backend": be, "rtm": case["rtm"], "flav": case.get("rtm_flav"), "graph_ids": raw["ids"]},
                case["stream"] + ":geff.read-" + be, bool(raw["ids"]))
        if "err" in ob:
            ck.fail("C09:exception", f"geff.read(backend={be}) with a property selection raised {ob['err']} ({ob.get('msg', '')})",
                    {**small, "queries": []}, ob, want)
        elif ob["ok"] != want:
            ck.fail("C09:backend-read-props", f"geff.read(backend={be}, node_props={case['rtm'][0]}, edge_props={case['rtm'][1]}) as "
                    f"{case.get('rtm_flav')}: loaded properties / metadata differ from the selection", {**small, "queries": []}, ob["ok"], want)
    if "rtm" in im:
        want = py_restrict(full, case["rtm"][0], case["rtm"][1], None, None)
        ck.case({"rtm": case["rtm"], "graph_ids": raw["ids"], "fmt": case.get("fmt")}, case["stream"] + ":read_to_memory", bool(raw["ids"]))
        if "err" in im["rtm"]:
            ck.fail("C09:exception", f"read_to_memory(node_props, edge_props) raised {im['rtm']['err']} but the full read works",
                    {**small, "queries": [{"nm": None, "em": None}]}, im["rtm"], "restriction of the full read")
        else:
            d = diff_class(case, im["rtm"]["ok"], want)
            if d:
                ck.fail("C09:" + d, f"read_to_memory with a property selection differs from the restriction of the full read in {d}",
                        {**small, "queries": [{"nm": None, "em": None}]}, im["rtm"]["ok"], want)
    for qi, q in enumerate(case["queries"]):
        ans = im["answers"][qi]
        one = {**small, "queries": [q]}
        dom = in_domain(case, raw, q) and (closed or q["nm"] is not None)
        kind = "out-of-domain" if not dom else (("nm" if q["nm"] is not None else "") + ("em" if q["em"] is not None else "") or "nomask")
        tag = case["stream"] + ":" + kind
        nontrivial = bool(raw["ids"]) and (q["nm"] is not None or q["em"] is not None or bool(nsel) or bool(esel))
        ck.case({"n": len(raw["ids"]), "e": len(raw["edges"]), "nsel": nsel, "esel": esel, **q,
                 "graph_ids": raw["ids"], "calls": case["calls"], "fmt": case.get("fmt")}, tag, nontrivial)
        if dom:
            want = py_restrict(full, nsel, esel, q["nm"], q["em"])
            if "err" in ans:
                ck.fail(fail_key(case, q, ans, True), f"build raised {ans['err']} ({ans.get('msg', '')}) but the full read works",
                        one, ans, "restriction of the full read")
            else:
                d = diff_class(case, ans["ok"], want)
                if d:
                    ck.fail("C09:" + d, f"partial read differs from the restriction of the full read in {d}", one,
                            ans["ok"], want)
                ns = set(ans["ok"]["node_ids"])
                if any(u not in ns or v not in ns for u, v in ans["ok"]["edge_ids"]):
                    ck.fail("C09:dangling-edge", "a returned edge refers to a node that was not returned", one,
                            ans["ok"]["edge_ids"], sorted(ns))
                if {p["name"] for p in ans["ok"]["node_props"]} != {m["name"] for m in ans["ok"]["nmeta"]} or \
                        {p["name"] for p in ans["ok"]["edge_props"]} != {m["name"] for m in ans["ok"]["emeta"]}:
                    ck.fail("C09:metadata-props", "metadata does not list exactly the loaded properties", one,
                            [ans["ok"]["nmeta"], ans["ok"]["emeta"]], [nsel, esel])
            if lean_spec is not None and as_dicts(lean_spec[qi]) != as_dicts(want):
                ck.corr_broken("C09:lean-spec-vs-python-oracle", one, lean_spec[qi], want)
            if "fresh" in im:
                fr = im["fresh"][qi]
                if ("ok" in fr) != ("ok" in ans) or ("ok" in fr and fr["ok"] != ans["ok"]):
                    ck.fail("C09:build-depends-on-history", "the same build on a fresh reader gives another result", one, ans, fr)
        if mo is not None:
            m = mo["answers"][qi]
            same = ("ok" in m and "ok" in ans and m["ok"] == ans["ok"]) or \
                   ("err" in m and "err" in ans and (m["err"] == ans["err"] or m["err"] in ans.get("mro", [])))
            if not same:
                ck.corr_broken("C09:build", one, {k: v for k, v in ans.items() if k != "mro"}, m)
            if dom and mo["wf"] and "ok" in mo["full"] and m != mo["spec"][qi]:
                # the theorem says this cannot happen
                ck.corr_broken("C09:model-build-vs-model-restrict", one, m, mo["spec"][qi])
    if mo is not None:
        if mo["nsel"] != nsel or mo["esel"] != esel or [e if e is None else True for e in mo["errs"]] != \
                [e if e is None else True for e in im["errs"]]:
            ck.corr_broken("C09:read_props", small, [nsel, esel, im["errs"]], [mo["nsel"], mo["esel"], mo["errs"]])
        if mo["full"] != {"ok": full}:
            ck.corr_broken("C09:full-read", small, full, mo["full"])


def run_groups(ck, groups, drv):
    ims = common.pmap(impl_group, groups, chunksize=4)
    model = spec = None
    if drv is not None:
        reqs, where = [], []
        for gi, (c, im) in enumerate(zip(groups, ims)):
            if "hist" in im:
                for bi, h in enumerate(im["hist"]):
                    reqs.append({"op": "build", "store": im["raw"], "calls": [{"k": x["k"], "names": x["names"]} for x in h["calls"]],
                                 "queries": [h["q"]]})
                    where.append((gi, ("h", bi)))
                continue
            if "raw" in im:
                reqs.append({"op": "build", "store": im["raw"], "calls": im.get("used", c["calls"]), "queries": c.get("queries", [])})
                where.append((gi, "m"))
                if "ok" in im.get("full", {}) and "nsel" in im:
                    n, e = len(im["raw"]["ids"]), len(im["raw"]["edges"])
                    qs = [q if in_domain(c, im["raw"], q) else {"nm": None, "em": None} for q in c["queries"]]
                    reqs.append({"op": "restrict", "full": im["full"]["ok"], "nsel": im["nsel"], "esel": im["esel"], "queries": qs})
                    where.append((gi, "s"))
        answers = drv.ask(reqs)
        if answers is None:
            ck.broken.append({"what": "driver Drivers/C09.lean", "detail": drv.broken})
        else:
            model, spec = {}, {}
            for (gi, kind), a in zip(where, answers):
                for r in [a.get("full")] + list(a.get("answers", [])) + list(a.get("spec", [])):
                    norm_ids(r)
                if "err" in a and len(a) == 1:
                    ck.corr_broken("C09:driver", {k: groups[gi][k] for k in ("graph", "calls")}, None, a)
                    continue
                if isinstance(kind, tuple):
                    model.setdefault(gi, {})[kind[1]] = a
                else:
                    (model if kind == "m" else spec)[gi] = a if kind == "m" else a["spec"]
    for gi, (c, im) in enumerate(zip(groups, ims)):
        try:
            judge(ck, c, im, None if model is None else model.get(gi), None if spec is None else spec.get(gi))
        except Exception as ex:  # noqa: BLE001  (an exception of the oracle is a broken check, never a crash or a silent pass)
            import traceback

            ck.corr_broken("C09:oracle-exception", {k: c.get(k) for k in ("graph", "calls", "fmt", "writer")},
                           {k: v for k, v in im.items() if k not in ("raw", "full", "answers", "fresh")},
                           f"{type(ex).__name__}: {ex}\n{traceback.format_exc()[-800:]}")


def run(ck: common.Check):
    ck.prove(["GeffProps.C09", "GeffProps.C09Links", "GeffProps.C09Gen"])
    ck.rule = ("a case = (store, GeffReader call sequence, node mask, edge mask); cases = corpus + for N,E<=4 a "
               "4-property graph per size (fixed 1-D, 2-D, var-length in 4 data layouts, missing-bearing string) x all "
               "2^N+1 node masks x all 2^E+1 edge masks x property subsets + seeded random stores (N<=60, both zarr "
               "formats, direct zarr writer and geff writer, 0-4 properties of 7 dtypes/6 trailing shapes, var-length rank "
               "0-2) x random call orders x random masks + a malformed stream (unknown names, wrong mask lengths, "
               "dangling stored edges: correspondence only) + all 8x8 selections of a graph whose node and edge properties "
               "share names + graphs of 20-80 nodes with sparse / 48-bit / near-dtype-limit / unsorted ids (tracks with divisions, "
               "random edges) under masks dropping interior nodes of degree >= 2; non-trivial = non-empty graph with a mask or a loaded "
               "property; distinct = distinct (ids, call sequence, masks)")
    groups = list(corpus())
    groups += exhaustive_groups(ck)
    nrand = 250 if ck.quick else 6000
    for i in range(nrand):
        groups.append(random_group(ck.rng, big=(i % 12 == 0)))
    for i in range(60 if ck.quick else 1200):
        groups.append(malformed_group(ck.rng))
    groups += shared_name_groups(ck.rng)
    groups += flavour_groups(ck.rng)
    for i in range(150 if ck.quick else 3000):
        groups.append(history_group(ck.rng))
    for i in range(80 if ck.quick else 1500):
        groups.append(sparse_group(ck.rng))
    ck.extra["groups"] = len(groups)
    ck.extra["exhaustive"] = not ck.quick
    ck.extra["exhaustive_space"] = ("N,E<=4: all masks x property subsets of the 4-property graph (thorough: every (N,E); all 256 "
                                    "subset pairs for (4,4),(2,3),(1,1), 24 sampled pairs elsewhere; quick: 8 sizes, subsets paired "
                                    "round-robin) + all 8x8 selections of a graph whose node and edge properties share names")
    drv = ck.driver()
    run_groups(ck, groups, drv)
    ck.assumptions += [
        "zarr array reads (oindex / full) and numpy isin/where/boolean indexing are modelled, exercised here, not verified",
        "the element-wise dtype cast of the reader is a parameter of the model (theorems hold for every cast); the "
        "driver instantiates it with the identity: generated stores have metadata dtype = stored dtype",
        "stores are structurally valid geffs (what validate_structure accepts): one values/missing row per node/edge",
        "C09_build_eq_restrict for node_mask=None needs the stored edges to join stored nodes (a stored *graph*); "
        "with a node mask no such hypothesis is needed",
    ]


class _Rec:
    """collects the verdicts of `judge` during a replay"""

    def __init__(self):
        self.f, self.broken, self.histogram = [], [], {}

    def fail(self, key, what, case=None, observed=None, expected=None):
        self.f.append((key, what, observed, expected))

    def case(self, *a, **k):
        pass

    def corr_broken(self, *a, **k):
        pass


def replay(rp):
    case = dict(rp.get("case", rp))   # a replay file, or a bare corpus case
    case.setdefault("stream", "replay")
    case.setdefault("calls", [])
    case.setdefault("queries", [])
    im = impl_group(case)
    r = _Rec()
    judge(r, case, im, None, None)
    print(json.dumps({"loaded": [im.get("nsel"), im.get("esel")], "call_errors": im.get("errs"),
                      "builds": [("err: " + a["err"]) if "err" in a else "ok" for a in im.get("answers", [])] +
                                [("err: " + h["ans"]["err"]) if "err" in h["ans"] else "ok" for h in im.get("hist", [])]}, default=str)[:1500])
    for key, what, obs, exp in r.f:
        print(f"  [{key}] {what}")
        if obs is not None or exp is not None:
            def show(x):
                return as_dicts(x) if isinstance(x, dict) and "node_props" in x else x
            print("    " + json.dumps({"observed": show(obs), "expected": show(exp)}, default=str)[:2500])
    print("REPLAY: property holds on this input" if not r.f else "REPLAY: property FAILS on this input")
    return 1 if r.f else 0
