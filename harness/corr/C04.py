"""C04 — structural validation accepts exactly the spec-conformant stores.

Implementation: geff.validate_structure(store), GeffReader(store, validate=True), `geff validate`
(typer CliRunner in-process and `python -m geff._cli` in a subprocess).
Model: Geff.Structure.validateStructure via Drivers/C04.lean; GeffProps.C04.C04_sound_complete /
C04_error_class prove model = ok <-> Conformant and the error class for *every* abstract target,
so the model's outcome is a proved decider of the specification.
Oracle: `oracle()` below evaluates docs/specification.md directly on the abstract target, in plain
Python, independently of the Lean model (third verdict; the one `ck.fail` relies on).

Abstract target (JSON):
  {"fmt": 2|3, "store": "memory"|"path", "exists": bool, "strenc": "fixed"|"vlen",
   "root": NODE|null, "attrs": {…raw attributes of the root group…}}
  NODE = {"a": [dtypeName, [dims…]]} | {"g": [[name, NODE], …]}
Every target is built with the raw zarr API (never with geff's writers).  `strenc` chooses how the
abstract dtype `str` is stored: fixed-width unicode or the variable-length UTF-8 string dtype that
the specification prescribes (numpy StringDType; zarr v3 `string`, v2 vlen-utf8).

Readings of the specification fixed here (and in GeffProps/C04.lean):
  * the `props` group of nodes/edges is optional; when absent the metadata must list no property;
  * a member called `missing`/`data` that is not an array is non-conformant;
  * variable-length property: `values` is a 2-D uint64 array (what geff writes and reads back),
    `data` a 1-D array of the stated dtype;
  * an axis names a node property listed in the metadata, with 1-D values and no `missing` member.
"""
from __future__ import annotations

import copy
import json
import re
import subprocess
import sys
import tempfile
from pathlib import Path

import numpy as np

from harness import common

PROP = "C04"
INTS = ["int8", "int16", "int32", "int64", "uint8", "uint16", "uint32", "uint64"]
ALL_DTYPES = ["bool", *INTS, "float16", "float32", "float64", "str", "bytes", "other"]
VALID_STATED = ["bool", *INTS, "float32", "float64", "bytes", "str"]
ALIASES = {"int": "int64", "uint": "uint64", "float": "float64", "<U7": "str", "<i4": "int32"}


# ============================================================ abstract trees
def A(dtype, shape):
    return {"a": [dtype, [int(x) for x in shape]]}


def G(*members):
    return {"g": [[k, v] for k, v in members]}


def is_group(n):
    return n is not None and "g" in n


def is_array(n):
    return n is not None and "a" in n


def child(node, name):
    if not is_group(node):
        return None
    for k, v in node["g"]:
        if k == name:
            return v
    return None


def get_path(node, path):
    for p in path:
        node = child(node, p)
        if node is None:
            return None
    return node


def set_path(root, path, new):
    """replace/insert (new is a NODE) or delete (new is None) the node at `path`; returns new root"""
    if not path:
        return new
    root = copy.deepcopy(root)
    node = root
    for p in path[:-1]:
        node = child(node, p)
    mem = node["g"]
    for i, (k, _) in enumerate(mem):
        if k == path[-1]:
            if new is None:
                del mem[i]
            else:
                mem[i] = [k, new]
            return root
    if new is not None:
        mem.append([path[-1], new])
    return root


def all_paths(node, prefix=()):
    out = [prefix]
    if is_group(node):
        for k, v in node["g"]:
            out += all_paths(v, prefix + (k,))
    return out


# ============================================================ independent metadata reading
class Bad(Exception):
    pass


def _opt_str(d, k):
    if k in d and d[k] is not None and not isinstance(d[k], str):
        raise Bad(k)


def _stated_dtype(v):
    if not isinstance(v, str) or not v:
        raise Bad("dtype")
    v = ALIASES.get(v, v)
    if v not in VALID_STATED:
        raise Bad("dtype")
    return v


def _props_md(v, what):
    if not isinstance(v, dict):
        raise Bad(what)
    out = []
    for key, e in v.items():
        if not isinstance(e, dict):
            raise Bad(what)
        ident = e.get("identifier")
        if not isinstance(ident, str) or not ident or ident != key:
            raise Bad("identifier")
        if "dtype" not in e:
            raise Bad("dtype")
        dt = _stated_dtype(e["dtype"])
        vl = e.get("varlength", False)
        if not isinstance(vl, bool):
            raise Bad("varlength")
        for k in ("unit", "name", "description"):
            _opt_str(e, k)
        out.append([key, dt, vl])
    return out


def _num(x):
    return isinstance(x, (int, float)) and not isinstance(x, bool)


def _axes(v):
    if v is None:
        return None
    if not isinstance(v, list):
        raise Bad("axes")
    names = []
    for ax in v:
        if not isinstance(ax, dict) or not isinstance(ax.get("name"), str):
            raise Bad("axis")
        if ax.get("type") is not None and ax["type"] not in ("space", "time", "channel"):
            raise Bad("axis type")
        for k in ("unit", "scaled_unit"):
            _opt_str(ax, k)
        mn, mx = ax.get("min"), ax.get("max")
        for x in (mn, mx, ax.get("scale"), ax.get("offset")):
            if x is not None and not _num(x):
                raise Bad("axis number")
        if (mn is None) != (mx is None) or (mn is not None and mn > mx):
            raise Bad("axis min/max")
        if ax.get("scaled_unit") and ax.get("scale") is None:
            raise Bad("scaled_unit")
        names.append(ax["name"])
    if len(set(names)) != len(names):
        raise Bad("duplicate axes")
    return names


def meta_parse(attrs):
    """What reading the `geff` attribute yields, from the documentation of the metadata
    (docs/specification.md + field descriptions) — not from pydantic.  Cross-checked against
    GeffMetadata.model_validate on every case (`C04:metadata-oracle`)."""
    if not isinstance(attrs, dict) or "geff" not in attrs:
        return {"k": "noKey"}
    g = attrs["geff"]
    if not isinstance(g, dict):
        return {"k": "notMapping"}
    try:
        if "geff_version" in g:
            v = g["geff_version"]
            if not isinstance(v, str) or not re.match(r"^\d+\.\d+(\.\d+)?(\.dev\d+)?(\+[a-zA-Z0-9]+)?", v):
                raise Bad("version")
        if not isinstance(g.get("directed"), bool):
            raise Bad("directed")
        if "node_props_metadata" not in g or "edge_props_metadata" not in g:
            raise Bad("props metadata")
        node = _props_md(g["node_props_metadata"], "node")
        edge = _props_md(g["edge_props_metadata"], "edge")
        axes = _axes(g.get("axes"))
        for k in ("sphere", "ellipsoid"):
            _opt_str(g, k)
        tnp = g.get("track_node_props")
        if tnp is not None:
            if not isinstance(tnp, dict) or any(k not in ("lineage", "tracklet") or not isinstance(v, str)
                                                for k, v in tnp.items()):
                raise Bad("track_node_props")
        ro = g.get("related_objects")
        if ro is not None:
            if not isinstance(ro, list):
                raise Bad("related_objects")
            for o in ro:
                if not isinstance(o, dict) or not isinstance(o.get("type"), str) or not isinstance(o.get("path"), str):
                    raise Bad("related object")
                _opt_str(o, "label_prop")
                if o["type"] != "labels" and o.get("label_prop") is not None:
                    raise Bad("label_prop")
        dh = g.get("display_hints")
        if dh is not None:
            if not isinstance(dh, dict):
                raise Bad("display_hints")
            for k in ("display_horizontal", "display_vertical"):
                if not isinstance(dh.get(k), str):
                    raise Bad(k)
            for k in ("display_depth", "display_time"):
                _opt_str(dh, k)
            if axes is not None:
                for k in ("display_horizontal", "display_vertical", "display_depth", "display_time"):
                    if dh.get(k) is not None and dh[k] not in axes:
                        raise Bad(k)
        if "extra" in g and not isinstance(g["extra"], dict):
            raise Bad("extra")
    except Bad:
        return {"k": "invalid"}
    return {"k": "ok", "node": node, "edge": edge, "axes": axes}


def impl_meta_parse(attrs):
    """the same through pydantic (the implementation's own reading)"""
    from geff_spec import GeffMetadata

    if "geff" not in attrs:
        return {"k": "noKey"}
    if not isinstance(attrs["geff"], dict):
        return {"k": "notMapping"}
    try:
        m = GeffMetadata.model_validate(attrs["geff"])
    except ValueError:
        return {"k": "invalid"}
    return {"k": "ok",
            "node": [[k, v.dtype, v.varlength] for k, v in m.node_props_metadata.items()],
            "edge": [[k, v.dtype, v.varlength] for k, v in m.edge_props_metadata.items()],
            "axes": None if m.axes is None else [a.name for a in m.axes]}


# ============================================================ oracle (specification, independent)
def _props_why(parent, n, md, side):
    """first violated clause for the optional `props` group of `parent` (None = conformant)"""
    props = child(parent, "props")
    if props is None:
        return None if len(md) == 0 else f"{side}-props-listed-but-no-props-group"
    if not is_group(props):
        return f"{side}-props-not-a-group"
    names = [k for k, _ in props["g"]]
    listed = {k for k, _, _ in md}
    if set(names) - listed:
        return f"{side}-property-not-in-metadata"
    if listed - set(names):
        return f"{side}-property-listed-but-absent"
    for name, dt, varlen in md:
        pg = child(props, name)
        if not is_group(pg):
            return "property-not-a-group"
        values, missing, data = child(pg, "values"), child(pg, "missing"), child(pg, "data")
        if not is_array(values):
            return "values-not-an-array"
        vdt, vsh = values["a"]
        if len(vsh) < 1:
            return "values-0d"
        if vsh[0] != n:
            return "values-length"
        if varlen:
            if not is_array(data):
                return "varlength-without-data-array"
            if vdt != "uint64":
                return "varlength-values-dtype"
            if len(vsh) != 2:
                return "varlength-values-rank"
            if data["a"][0] != dt:
                return "varlength-data-dtype"
            if len(data["a"][1]) != 1:
                return "varlength-data-rank"
        else:
            if vdt != dt:
                return "values-dtype"
            if data is not None:
                return "data-member-on-fixed-property" if is_array(data) else "data-member-not-an-array"
        if missing is not None:
            if not is_array(missing):
                return "missing-member-not-an-array"
            if missing["a"][0] != "bool":
                return "missing-dtype"
            if len(missing["a"][1]) != 1:
                return "missing-rank"
            if missing["a"][1] != [n]:
                return "missing-length"
    return None


def oracle2(t):
    """(outcome, first violated clause) as the property prescribes; outcome is
    'ok' | 'ValueError' | 'FileNotFoundError'."""
    if t["store"] in ("path", "pathobj", "nested") and not t["exists"]:
        return "FileNotFoundError", "path-does-not-exist"
    if t["store"] == "local" and not t["exists"]:
        return "ValueError", "store-object-without-group"   # a store object, not a path: nothing to open
    root = t["root"]
    if not is_group(root):
        return "ValueError", "no-group-at-root"
    if t.get("corrupt_doc"):
        return "ValueError", "corrupt-zarr-document"   # not a readable zarr hierarchy
    m = meta_parse(t["attrs"])
    if m["k"] != "ok":
        return "ValueError", "metadata-" + m["k"]
    nodes, edges = child(root, "nodes"), child(root, "edges")
    if not is_group(nodes) or not is_group(edges):
        return "ValueError", "nodes-or-edges-group"
    nid, eid = child(nodes, "ids"), child(edges, "ids")
    if not is_array(nid) or not is_array(eid):
        return "ValueError", "ids-not-an-array"
    if nid["a"][0] not in INTS:
        return "ValueError", "node-ids-dtype"
    if len(nid["a"][1]) != 1:
        return "ValueError", "node-ids-rank"
    if len(eid["a"][1]) != 2 or eid["a"][1][1] != 2:
        return "ValueError", "edge-ids-shape"
    if eid["a"][0] != nid["a"][0]:
        return "ValueError", "id-dtypes-differ" if eid["a"][0] in INTS else "edge-ids-dtype"
    why = _props_why(nodes, nid["a"][1][0], m["node"], "node") or _props_why(edges, eid["a"][1][0], m["edge"], "edge")
    if why:
        return "ValueError", why
    for ax in m["axes"] or []:
        if ax not in [k for k, _, _ in m["node"]]:
            return "ValueError", "axis-not-a-node-property"
        pg = get_path(nodes, ["props", ax])
        v = child(pg, "values")
        if not is_array(v) or len(v["a"][1]) != 1:
            return "ValueError", "axis-not-1d"
        if child(pg, "missing") is not None:
            return "ValueError", "axis-with-missing"
    return "ok", None


def oracle(t):
    return oracle2(t)[0]


def features(t):
    """optional features a conformant target uses (names the class of a false rejection)"""
    f = []
    root = t["root"]
    if t["store"] == "storepath":
        f.append("storepath")
    if is_group(root):
        if child(child(root, "nodes"), "props") is None:
            f.append("no-node-props-group")
        if t.get("strenc") == "vlen" and '"str"' in json.dumps(root):
            f.append("vlen-string")
    return "+".join(f) or "plain"


# ============================================================ concretisation (raw zarr API)
def np_dtype(name, strenc):
    if name == "str":
        return np.dtypes.StringDType() if strenc == "vlen" else np.dtype("<U3")
    if name == "bytes":
        return np.dtype("S3")
    if name == "other":
        return np.dtype("complex64")
    return np.dtype(name)


def _fill(grp, node, fmt, strenc, data, be=None, prefix=""):
    """`be`: None | "all" | list of array paths stored with NON-NATIVE (big-endian) byte order; only
    zarr format 2 keeps the byte order in the dtype (format 3 normalises it into a codec)"""
    for name, ch in node["g"]:
        path = f"{prefix}{name}"
        if "a" in ch:
            dt, sh = ch["a"]
            npdt = np_dtype(dt, strenc)
            if fmt == 2 and be is not None and (be == "all" or path in be) and npdt.kind in "iufcU" and npdt.itemsize > 1:
                npdt = npdt.newbyteorder(">")
            arr = grp.create_array(name, shape=tuple(sh), dtype=npdt, chunks=tuple(max(1, x) for x in sh) or "auto")
            if data and all(x > 0 for x in sh):
                if dt == "str":
                    arr[...] = np.full(tuple(sh), "ab", dtype=npdt)
                elif dt == "bytes":
                    arr[...] = np.full(tuple(sh), b"ab", dtype=npdt)
                elif dt == "bool":
                    arr[...] = np.zeros(tuple(sh), dtype=bool)
                else:
                    arr[...] = (np.arange(int(np.prod(sh)), dtype="int64").reshape(tuple(sh)) % 5).astype(npdt)
        else:
            _fill(grp.create_group(name), ch, fmt, strenc, data, be, path + "/")


def build(t, tmpdir=None, data=False):
    """Materialise the abstract target; returns what is handed to geff.
    store kinds: memory (MemoryStore), path (str), pathobj (pathlib.Path), local (LocalStore),
    nested (str path of a group inside a larger zarr hierarchy), storepath (StorePath into a
    MemoryStore that holds the geff below `inner/`)."""
    import zarr
    from zarr.storage import LocalStore, MemoryStore, StorePath

    fmt, strenc, kind = t["fmt"], t.get("strenc", "vlen"), t["store"]
    on_disk = kind in ("path", "pathobj", "local", "nested")
    p = None
    if on_disk:
        p = Path(tmpdir) / "g.zarr"
        if kind == "nested":
            p = Path(tmpdir) / "outer.zarr" / "tracks.geff"

    def handle(mem=None):
        if kind == "path" or kind == "nested":
            return str(p)
        if kind == "pathobj":
            return p
        if kind == "local":
            return LocalStore(p)
        if kind == "storepath":
            return StorePath(mem, "inner")
        return mem

    if on_disk and not t["exists"]:
        if t.get("spelling"):   # a location that does not exist, spelled as given (possibly relative to the cwd)
            return Path(t["spelling"]) if kind == "pathobj" else str(t["spelling"])
        return handle()
    mem = None if on_disk else MemoryStore()
    root = t["root"]
    if kind == "nested":
        outer = zarr.open_group(p.parent, mode="w", zarr_format=fmt)
        outer.attrs["outer"] = True
        outer.create_array("raw", shape=(2, 2), dtype="uint8")
    if kind == "storepath":
        zarr.open_group(mem, mode="w", zarr_format=fmt).create_array("raw", shape=(2,), dtype="uint8")
    if root is None:
        if on_disk:
            p.mkdir()
        return handle(mem)
    dest = p if on_disk else (StorePath(mem, "inner") if kind == "storepath" else mem)
    if "a" in root:
        dt, sh = root["a"]
        zarr.create_array(dest, shape=tuple(sh), dtype=np_dtype(dt, strenc), zarr_format=fmt)
    else:
        g = zarr.open_group(dest, mode="w", zarr_format=fmt)
        if t["attrs"]:
            g.attrs.update(t["attrs"])
        be = t.get("be")
        if t.get("be_node_ids"):
            be = ["nodes/ids"]
        _fill(g, root, fmt, strenc, data, be)
    if t.get("corrupt_doc") and mem is not None and kind == "memory":
        from zarr.core.buffer.cpu import Buffer

        path, payload = t["corrupt_doc"]
        key = (path + "/" if path else "") + ("zarr.json" if fmt == 3 else (".zarray" if is_array(get_path(root, path.split("/") if path else [])) else ".zgroup"))
        if key not in mem._store_dict:
            raise KeyError(key)
        mem._store_dict[key] = Buffer.from_bytes(payload.encode())
    return handle(mem)


# ============================================================ implementation observation
def exc_class(e):
    """canonical outcome class of an exception"""
    if isinstance(e, FileNotFoundError) and not isinstance(e, ValueError):
        return "FileNotFoundError"
    if isinstance(e, ValueError) and not isinstance(e, FileNotFoundError):
        return "ValueError"
    if isinstance(e, ValueError):
        return "ValueError+FileNotFoundError"   # zarr's NodeNotFoundError family
    return type(e).__name__


def run_quiet(f, *a):
    import warnings

    with warnings.catch_warnings():
        warnings.simplefilter("ignore")
        try:
            f(*a)
            return "ok"
        except Exception as e:  # noqa: BLE001
            return exc_class(e)


def _observe(t, target, out):
    import geff
    from geff import GeffReader

    out["vs"] = run_quiet(geff.validate_structure, target)
    if t.get("reader", True) or out["vs"] == "ok":
        import warnings

        with warnings.catch_warnings():
            warnings.simplefilter("ignore")
            try:
                r = GeffReader(target, validate=True)
                out["reader"] = "ok"
                out["reader_names"] = [sorted(r.node_prop_names), sorted(r.edge_prop_names)]
            except Exception as e:  # noqa: BLE001
                out["reader"] = exc_class(e)
        out["reader_nv"] = run_quiet(lambda s: GeffReader(s, validate=False), target)
    if t["store"] in ("path", "nested"):
        from typer.testing import CliRunner

        from geff._cli import app

        r = CliRunner().invoke(app, ["validate", target])
        out["cli"] = "ok" if r.exit_code == 0 else ("exit%d:" % r.exit_code) + (
            exc_class(r.exception) if r.exception is not None else "?")
        if t.get("subprocess"):
            p = subprocess.run([sys.executable, "-m", "geff._cli", "validate", target], capture_output=True, text=True)
            # the exit status is what the property speaks about; the exception class behind it is observed
            # in-process (CliRunner) — text scraped from a traceback on stderr is not reliable
            out["cli_sub"] = "ok" if p.returncode == 0 else f"exit{p.returncode}"


def impl_obs(t):
    out = {}
    try:
        if t["store"] in ("path", "pathobj", "local", "nested"):
            with tempfile.TemporaryDirectory(prefix="c04_") as td:
                try:
                    target = build(t, td)
                except Exception as e:  # noqa: BLE001  the abstract target cannot be materialised
                    return {"build": f"{type(e).__name__}: {str(e)[:200]}"}
                _observe(t, target, out)
        else:
            try:
                target = build(t)
            except Exception as e:  # noqa: BLE001
                return {"build": f"{type(e).__name__}: {str(e)[:200]}"}
            _observe(t, target, out)
    finally:
        pass
    out["meta"] = impl_meta_parse(t["attrs"]) if isinstance(t.get("attrs"), dict) else None
    return out


# ============================================================ bases
def prop_group(n, dtype, kind):
    """kind: plain | masked | 2d | varlen | varlen-masked"""
    if kind.startswith("varlen"):
        mem = [("values", A("uint64", [n, 2])), ("data", A(dtype, [2 * n + 1]))]
    elif kind == "2d":
        mem = [("values", A(dtype, [n, 2]))]
    elif kind == "3d":
        mem = [("values", A(dtype, [n, 2, 2]))]
    else:
        mem = [("values", A(dtype, [n]))]
    if kind.endswith("masked"):
        mem.append(("missing", A("bool", [n])))
    return G(*mem)


def md_entry(name, dtype, kind, **kw):
    e = {"identifier": name, "dtype": dtype, "varlength": kind.startswith("varlen")}
    e.update(kw)
    return e


def make_base(n, e, node_props, edge_props, axes, id_dtype="int64", node_group=True, edge_group=True, extra_meta=None):
    """node_props / edge_props: [(name, dtype, kind)]; axes: None | [names]"""
    nodes = [("ids", A(id_dtype, [n]))]
    if node_group:
        nodes.append(("props", G(*[(nm, prop_group(n, dt, k)) for nm, dt, k in node_props])))
    edges = [("ids", A(id_dtype, [e, 2]))]
    if edge_group:
        edges.append(("props", G(*[(nm, prop_group(e, dt, k)) for nm, dt, k in edge_props])))
    root = G(("nodes", G(*nodes)), ("edges", G(*edges)))
    geff = {"geff_version": "1.0.0", "directed": True,
            "node_props_metadata": {nm: md_entry(nm, dt, k) for nm, dt, k in node_props},
            "edge_props_metadata": {nm: md_entry(nm, dt, k) for nm, dt, k in edge_props}}
    if axes is not None:
        geff["axes"] = [{"name": a} for a in axes]
    if extra_meta:
        geff.update(extra_meta)
    return root, {"geff": geff}


def bases():
    """name -> (root, attrs): conformant stores covering with/without props, missing, var-length,
    axes, empty and non-empty"""
    out = {}
    out["minimal"] = make_base(0, 0, [], [], None, node_group=False, edge_group=False)
    out["typical"] = make_base(
        3, 2,
        [("t", "float64", "plain"), ("x", "float32", "plain"), ("score", "int32", "masked"),
         ("vec", "float32", "2d"), ("label", "str", "plain"), ("poly", "float32", "varlen-masked"),
         ("flag", "bool", "plain"), ("raw", "bytes", "plain"), ("cov", "float64", "3d")],
        [("w", "float64", "plain"), ("c", "uint8", "masked"), ("path", "int16", "varlen")],
        ["t", "x"],
        extra_meta={"sphere": "score", "track_node_props": {"lineage": "score"},
                    "display_hints": {"display_horizontal": "x", "display_vertical": "t"},
                    "related_objects": [{"type": "labels", "path": "../seg", "label_prop": "score"}],
                    "extra": {"anything": [1, 2, {"a": None}]}})
    out["empty-graph"] = make_base(0, 0, [("t", "float64", "plain"), ("poly", "int64", "varlen")],
                                   [("w", "float32", "plain")], ["t"], id_dtype="uint64")
    out["no-axes"] = make_base(2, 1, [("a", "int16", "plain"), ("name", "str", "masked")], [], None,
                               id_dtype="uint8", edge_group=False)
    out["empty-axes"] = make_base(1, 0, [], [], [], id_dtype="int32", node_group=False, edge_group=False)
    out["empty-groups"] = make_base(2, 2, [], [], None, id_dtype="uint16")
    return out


def target(root, attrs, fmt=2, store="memory", exists=True, strenc="vlen", **kw):
    return {"fmt": fmt, "store": store, "exists": exists, "strenc": strenc, "root": root, "attrs": attrs, **kw}


# ============================================================ the single-fault catalogue
def tree_faults(root):
    """every single structural fault of a tree: [(label, new_root)]"""
    out = []
    for path in all_paths(root):
        if not path:
            continue
        node = get_path(root, path)
        p = "/".join(path)
        out.append((f"delete:{p}", set_path(root, path, None)))
        if is_group(node):
            out.append((f"group->array:{p}", set_path(root, path, A("int64", [3]))))
            out.append((f"add-array:{p}/extra", set_path(root, path + ("extra",), A("float32", [3]))))
            out.append((f"add-group:{p}/extra", set_path(root, path + ("extra",), G())))
            # a property group: add the optional members it lacks, well and ill formed
            if child(node, "values") is not None and is_array(child(node, "values")):
                sh = child(node, "values")["a"][1]
                n = sh[0] if sh else 0
                if child(node, "missing") is None:
                    for lab, nd in (("ok", A("bool", [n])), ("long", A("bool", [n + 1])), ("uint8", A("uint8", [n])),
                                    ("2d", A("bool", [n, 1])), ("0d", A("bool", [])), ("group", G())):
                        out.append((f"add-missing-{lab}:{p}", set_path(root, path + ("missing",), nd)))
                if child(node, "data") is None:
                    for lab, nd in (("array", A(child(node, "values")["a"][0], [4])), ("group", G())):
                        out.append((f"add-data-{lab}:{p}", set_path(root, path + ("data",), nd)))
        else:
            dt, sh = node["a"]
            out.append((f"array->group:{p}", set_path(root, path, G())))
            for d in ALL_DTYPES:
                if d != dt:
                    out.append((f"dtype-{d}:{p}", set_path(root, path, A(d, sh))))
            shapes = {"rank+1(1)": sh + [1], "rank+1(2)": sh + [2], "0d": []}
            if sh:
                shapes["rank-1"] = sh[:-1]
                shapes["len+1"] = [sh[0] + 1] + sh[1:]
                if sh[0] > 0:
                    shapes["len-1"] = [sh[0] - 1] + sh[1:]
                if len(sh) >= 2:
                    shapes["last+1"] = sh[:-1] + [sh[-1] + 1]
                    shapes["last-1"] = sh[:-1] + [sh[-1] - 1]
                    shapes["front+1"] = [1] + sh
            for lab, s in shapes.items():
                if s != sh:
                    out.append((f"shape-{lab}:{p}", set_path(root, path, A(dt, s))))
    return out


def meta_faults(root, attrs):
    """every single fault of the metadata document: [(label, new_attrs)]"""
    out = []
    g = attrs["geff"]

    def put(label, newg):
        out.append((label, {**attrs, "geff": newg}))

    out.append(("no-geff-key", {k: v for k, v in attrs.items() if k != "geff"}))
    out.append(("other-attrs-only", {"something": 1}))
    for lab, v in (("list", [1, 2]), ("string", "geff"), ("number", 5), ("null", None), ("empty-mapping", {})):
        out.append((f"geff-is-{lab}", {**attrs, "geff": v}))
    for k in list(g):
        put(f"drop:{k}", {kk: vv for kk, vv in g.items() if kk != k})
    wrong = {
        "geff_version": [5, "abc", None, "v1.0", "", "0.1", "1.2.3.dev4+gabc12"],
        "directed": ["maybe", None, [True], {}, False],
        "node_props_metadata": [[], None, "x", 5],
        "edge_props_metadata": [[], None, "x", 5],
        "axes": ["t", {"name": "t"}, ["t"], [{"name": 5}], [{}], [None], None, []],
        "sphere": [5, ["x"], None, "nonexistent"],
        "ellipsoid": [5, None, "nonexistent"],
        "track_node_props": [5, {"foo": "t"}, {"lineage": 5}, {"tracklet": "t"}, None, {}],
        "related_objects": [5, [5], [{"type": "image"}], [{"type": "image", "path": "x", "label_prop": "t"}],
                            [{"type": "image", "path": "../raw"}], None],
        "display_hints": [5, {"display_horizontal": "x"}, {"display_horizontal": "nope", "display_vertical": "t"}, None],
        "extra": [5, [1], {}, {"deep": {"er": [1]}}],
        "unknown_field": [1, {"a": 2}],
    }
    for k, vals in wrong.items():
        for i, v in enumerate(vals):
            if g.get(k, "__absent__") != v:
                put(f"set:{k}#{i}", {**g, k: v})
    # property entries
    for which in ("node_props_metadata", "edge_props_metadata"):
        md = g[which]
        other = "edge_props_metadata" if which.startswith("node") else "node_props_metadata"

        def putmd(label, newmd, which=which):
            put(f"{which[:4]}:{label}", {**g, which: newmd})

        putmd("extra-entry", {**md, "ghost": md_entry("ghost", "float32", "plain")})
        for key in (".", "..", "/", "values", "../ids", "../../nodes/ids", " "):
            putmd(f"path-like-extra-entry:{key}", {**md, key: md_entry(key, "int64", "plain")})
        putmd("extra-varlen-entry", {**md, "ghost": md_entry("ghost", "float32", "varlen")})
        for name, e in md.items():
            putmd(f"drop-entry:{name}", {k: v for k, v in md.items() if k != name})
            put(f"{which[:4]}:move-entry:{name}", {**g, which: {k: v for k, v in md.items() if k != name},
                                                   other: {**g[other], name: e}})
            for d in VALID_STATED + ["float16", "complex64", "object", "nonsense", 5, None, "", *ALIASES]:
                if d != e["dtype"]:
                    putmd(f"dtype-{d}:{name}", {**md, name: {**e, "dtype": d}})
            putmd(f"flip-varlength:{name}", {**md, name: {**e, "varlength": not e["varlength"]}})
            putmd(f"varlength-bad:{name}", {**md, name: {**e, "varlength": [1]}})
            putmd(f"varlength-default:{name}", {**md, name: {k: v for k, v in e.items() if k != "varlength"}})
            putmd(f"identifier-differs:{name}", {**md, name: {**e, "identifier": name + "_"}})
            putmd(f"identifier-empty:{name}", {**md, name: {**e, "identifier": ""}})
            putmd(f"identifier-number:{name}", {**md, name: {**e, "identifier": 5}})
            putmd(f"drop-identifier:{name}", {**md, name: {k: v for k, v in e.items() if k != "identifier"}})
            putmd(f"drop-dtype:{name}", {**md, name: {k: v for k, v in e.items() if k != "dtype"}})
            putmd(f"entry-not-mapping:{name}", {**md, name: "float32"})
            putmd(f"renamed-key:{name}", {**{k: v for k, v in md.items() if k != name}, name + "2": {**e, "identifier": name + "2"}})
            putmd(f"optional-fields:{name}", {**md, name: {**e, "unit": "second", "name": "nice", "description": None}})
            putmd(f"unit-number:{name}", {**md, name: {**e, "unit": 5}})
            # an EXTRA entry whose key is not a member name but a path / a decorated name that zarr would resolve
            # to an existing node below `props` (identifier = key, so the metadata itself is valid): there is no
            # property group of exactly that name -> non-conformant
            for key in (name + "/", "/" + name, name + "/values", name + "/missing", name + "/data", "./" + name,
                        name + "//values", "../props/" + name, "../../" + which[:4] + "s/props/" + name, " " + name,
                        name + " ", "." + name, name + ".", name + "/.", name + "/../" + name):
                putmd(f"path-like-extra-entry:{key}", {**md, key: {**e, "identifier": key}})
    # axes naming each node property / something else
    node_names = list(g["node_props_metadata"])
    for nm in node_names + ["ghost", "", "nodes", "values"]:
        put(f"axes=[{nm}]", {**g, "axes": [{"name": nm}]})
    if node_names:
        a = node_names[0]
        put("axes-duplicate", {**g, "axes": [{"name": a}, {"name": a}]})
        put(f"axes-nested-path:{a}/values", {**g, "axes": [{"name": a + "/values"}]})
        put(f"axes-trailing-slash:{a}/", {**g, "axes": [{"name": a + "/"}]})
        for lab, ax in (("typed", {"name": a, "type": "time", "unit": "second", "min": 0, "max": 2.5}),
                        ("bad-type", {"name": a, "type": "bogus"}), ("min-only", {"name": a, "min": 0}),
                        ("min>max", {"name": a, "min": 2, "max": 1}), ("odd-unit", {"name": a, "type": "space", "unit": "parsnip"}),
                        ("scaled", {"name": a, "scale": 0.5, "scaled_unit": "micrometer", "offset": 1}),
                        ("scaled-unit-only", {"name": a, "scaled_unit": "micrometer"}),
                        ("min-list", {"name": a, "min": [0], "max": [1]})):
            put(f"axis-{lab}", {**g, "axes": [ax]})
    return out


def handmade():
    """composite cases the single-fault catalogue cannot reach"""
    out = []
    # an axis naming a nested path that exists in the store: props/a/{values, b/{values}}, axis "a/b"
    root, attrs = make_base(2, 0, [("a", "float64", "plain")], [], None)
    nested = set_path(root, ("nodes", "props", "a", "b"), G(("values", A("float64", [2]))))
    out.append(("axis-names-nested-group", nested, {"geff": {**attrs["geff"], "axes": [{"name": "a/b"}]}}))
    out.append(("nested-group-in-property-no-axis", nested, attrs))
    # a property listed for the nodes although stored under the edges
    root, attrs = make_base(2, 2, [], [("w", "float32", "plain")], None)
    g = attrs["geff"]
    out.append(("prop-stored-under-edges-listed-under-nodes", root,
                {"geff": {**g, "node_props_metadata": g["edge_props_metadata"], "edge_props_metadata": {}}}))
    # nodes/props missing while the metadata lists node properties and an axis
    root, attrs = make_base(2, 0, [("t", "float64", "plain")], [], ["t"])
    out.append(("node-props-group-missing-with-axes", set_path(root, ("nodes", "props"), None), attrs))
    # id dtype pairs
    for a in INTS:
        for b in INTS:
            if a != b:
                r = G(("nodes", G(("ids", A(a, [2])))), ("edges", G(("ids", A(b, [1, 2])))))
                out.append((f"ids-{a}-vs-{b}", r, make_base(0, 0, [], [], None)[1]))
    # every valid stated dtype stored with every dtype
    for stated in VALID_STATED:
        for actual in ALL_DTYPES:
            root, attrs = make_base(2, 1, [("p", stated, "plain")], [("q", stated, "varlen")], None)
            root = set_path(root, ("nodes", "props", "p", "values"), A(actual, [2]))
            root = set_path(root, ("edges", "props", "q", "data"), A(actual, [3]))
            out.append((f"stated-{stated}-stored-{actual}", root, attrs))
    return out


def root_faults():
    out = []
    root, attrs = bases()["minimal"]
    for fmt in (2, 3):
        out.append(("missing-path", target(root, attrs, fmt, "path", exists=False, subprocess=True)))
        out.append(("empty-directory", target(None, {}, fmt, "path", subprocess=True)))
        out.append(("empty-memory-store", target(None, {}, fmt, "memory")))
        out.append(("array-at-root-path", target(A("int64", [3]), {}, fmt, "path")))
        out.append(("array-at-root-memory", target(A("int64", [3]), {}, fmt, "memory")))
        out.append(("plain-group-no-geff", target(G(("a", A("int64", [3]))), {}, fmt, "path", subprocess=True)))
        out.append(("valid-on-path", target(*bases()["typical"], fmt, "path", subprocess=True)))
        out.append(("valid-minimal-on-path", target(root, attrs, fmt, "path", subprocess=True)))
    return out


def catalogue(quick=False):
    """[(label, target)] — bases x single faults, in every format / string encoding (the quick
    tier leaves out fixed-width unicode in zarr format 3).  Every fault runs in both tiers; every
    `on_disk`-th one is materialised as a directory store and also goes through `geff validate`
    (measured: 0.5 s CPU per such case — zarr's LocalStore through its event loop, three validations —
    against 0.01 s on a MemoryStore; 80 % of the quick tier's implementation time at every 11th), so
    the quick tier takes every 33rd and the thorough tier every 11th; every kind of StoreLike argument
    is in `store_variants` in both tiers"""
    cases = []
    on_disk = 33 if quick else 11
    variants = [(2, "vlen"), (3, "vlen"), (2, "fixed")] + ([] if quick else [(3, "fixed")])
    k = 0
    for bname, (root, attrs) in bases().items():
        has_str = "\"str\"" in json.dumps(root)
        for fmt, strenc in variants:
            if strenc == "fixed" and not has_str:
                continue
            cases.append((f"{bname}|base", target(root, attrs, fmt, "memory", strenc=strenc)))
            for lab, r in tree_faults(root):
                k += 1
                cases.append((f"{bname}|{lab}", target(r, attrs, fmt, "path" if k % on_disk == 0 else "memory", strenc=strenc)))
            if strenc == "fixed":
                continue   # the metadata faults do not depend on the string encoding
            for lab, a in meta_faults(root, attrs):
                k += 1
                cases.append((f"{bname}|meta|{lab}", target(root, a, fmt, "path" if k % on_disk == 0 else "memory", strenc=strenc)))
    for lab, root, attrs in handmade():
        for fmt, strenc in variants[:2] + ([variants[2]] if "str" in lab else []):
            cases.append((f"handmade|{lab}", target(root, attrs, fmt, strenc=strenc)))
    for lab, t in root_faults():
        cases.append((f"root|{lab}", t))
    return cases


def fault_pairs(rng, count):
    """sampled pairs of independent single faults (tree x tree, tree x metadata)"""
    out = []
    bs = bases()
    pools = {}
    for bname, (root, attrs) in bs.items():
        pools[bname] = (tree_faults(root), meta_faults(root, attrs))
    names = list(bs)
    while len(out) < count:
        bname = rng.choice(names)
        root, attrs = bs[bname]
        tf, mf = pools[bname]
        l1, r1 = rng.choice(tf)
        fmt = rng.choice((2, 3))
        strenc = rng.choice(("vlen", "fixed"))
        if rng.random() < 0.5:
            l2, a2 = rng.choice(mf)
            out.append((f"pair|{bname}|{l1}+meta|{l2}", target(r1, a2, fmt, strenc=strenc)))
        else:
            # second tree fault applied on top of the first (regenerated on the faulted tree)
            tf2 = tree_faults(r1)
            if not tf2:
                continue
            l2, r2 = rng.choice(tf2)
            out.append((f"pair|{bname}|{l1}+{l2}", target(r2, attrs, fmt, strenc=strenc)))
    return out


def store_variants():
    """the bases and a spread of faults through every kind of StoreLike argument, a geff nested in
    a larger hierarchy, big-endian node ids, unusual property names"""
    out = []
    bs = bases()
    picks = ["base", "delete:nodes", "delete:edges/ids", "shape-0d:nodes/ids", "dtype-float64:nodes/ids",
             "meta|no-geff-key", "meta|set:directed#0", "group->array:nodes/props", "dtype-uint8:edges/ids"]
    k = 0
    for bname in ("minimal", "typical", "no-axes"):
        root, attrs = bs[bname]
        pool = dict([("base", (root, attrs))] + [(lab, (r, attrs)) for lab, r in tree_faults(root)]
                    + [("meta|" + lab, (root, a)) for lab, a in meta_faults(root, attrs)])
        for lab in picks:
            if lab not in pool:
                continue
            r, a = pool[lab]
            for kind in ("pathobj", "local", "nested", "storepath", "path"):
                for fmt in (2, 3):
                    k += 1
                    out.append((f"variant-{kind}|{bname}|{lab}", target(r, a, fmt, kind, subprocess=(kind == "nested" and k % 4 == 0))))
    root, attrs = bs["minimal"]
    for kind in ("pathobj", "local", "nested"):
        for fmt in (2, 3):
            out.append((f"variant-{kind}|missing-path", target(root, attrs, fmt, kind, exists=False)))
            out.append((f"variant-{kind}|nothing-there", target(None, {}, fmt, kind)))
    out.append(("variant-storepath|nothing-there", target(None, {}, 3, "storepath")))
    # a location that does not exist is FileNotFoundError however it is spelled: relative, with a colon in
    # the first component (not one of the remote schemes), with spaces / non-ASCII, a drive-letter look-alike
    for kind in ("path", "pathobj"):
        for sp in ("verif-absent:1/none.zarr", "verif-absent/a:b.zarr", "s3:verif-absent/none.zarr", "gs:verif-absent",
                   "file:verif-absent.zarr", "C:verif-absent.zarr", "./verif absent/ü.zarr", "verif-absent.geff",
                   "~verif-absent/none.zarr", "verif-absent/../verif-absent-2.zarr"):
            out.append((f"variant-{kind}|missing-path|{sp}", target(root, attrs, 2, kind, exists=False, spelling=sp)))
    # big-endian node ids against little-endian edge ids (same dtype class -> conformant)
    for bname in ("typical", "empty-graph", "empty-groups"):
        root, attrs = bs[bname]
        out.append((f"variant-big-endian-node-ids|{bname}", target(root, attrs, 2, be_node_ids=True)))
    # property names that are legal zarr member names but unusual
    for nm in ("new prop", "π", "values", "missing", "ids", "props", "a.b", "x-1", "UPPER", "0"):
        for fmt in (2, 3):
            root, attrs = make_base(2, 1, [(nm, "float32", "masked")], [(nm, "int8", "plain")], [] if nm == "missing" else None)
            out.append((f"variant-name|{nm}", target(root, attrs, fmt)))
            root2, attrs2 = make_base(2, 1, [(nm, "float64", "plain")], [], [nm])
            out.append((f"variant-axis-name|{nm}", target(root2, attrs2, fmt)))
    return out


def corrupt_documents():
    """exploration outside the abstract store: the zarr metadata document of one node of a
    conformant store is replaced by something that is not such a document"""
    out = []
    root, attrs = bases()["typical"]
    for fmt in (2, 3):
        for path in ("", "nodes", "nodes/ids", "nodes/props", "nodes/props/t", "nodes/props/t/values", "edges/props/c/missing"):
            for lab, payload in (("garbage", "{not json"), ("empty-object", "{}"), ("list", "[1, 2]"), ("null", "null"),
                                 ("number", "5"), ("empty", "")):
                out.append((f"corrupt-doc|{path or 'root'}|{lab}", target(root, attrs, fmt, corrupt_doc=[path, payload], reader=False)))
    return out


def array_paths(root):
    return ["/".join(p) for p in all_paths(root) if p and is_array(get_path(root, p))]


def paired_id_faults():
    """the same-dtype requirement correlates nodes/ids and edges/ids: every single fault of one id array
    paired with the matching fault of the other (same dtype for the whole dtype alphabet, same rank change)"""
    out = []
    bs = bases()
    for bname in ("typical", "minimal", "empty-graph", "no-axes"):
        root, attrs = bs[bname]
        nid, eid = get_path(root, ["nodes", "ids"])["a"], get_path(root, ["edges", "ids"])["a"]
        for d in ALL_DTYPES:
            r = set_path(set_path(root, ("nodes", "ids"), A(d, nid[1])), ("edges", "ids"), A(d, eid[1]))
            for fmt in (2, 3):
                out.append((f"paired-ids|{bname}|both-dtype-{d}", target(r, attrs, fmt, strenc=("fixed" if fmt == 2 else "vlen"))))
        shapes = {"rank+1": (nid[1] + [1], eid[1] + [1]), "rank+1(2)": (nid[1] + [2], eid[1] + [2]), "0d": ([], []),
                  "swapped-ranks": (eid[1], nid[1]), "len+1": ([nid[1][0] + 1], [eid[1][0] + 1, 2]),
                  "rank-1": ([], [eid[1][0]]), "both-2d": ([nid[1][0], 2], eid[1]), "both-1d": (nid[1], [eid[1][0]])}
        for lab, (ns, es) in shapes.items():
            for d in (nid[0], "bool", "float64"):
                r = set_path(set_path(root, ("nodes", "ids"), A(d, ns)), ("edges", "ids"), A(d, es))
                out.append((f"paired-ids|{bname}|both-shape-{lab}-{d}", target(r, attrs, 2 + len(lab) % 2)))
        for lab, fn in (("delete", lambda r, p: set_path(r, p, None)), ("array->group", lambda r, p: set_path(r, p, G()))):
            r = fn(fn(root, ("nodes", "ids")), ("edges", "ids"))
            out.append((f"paired-ids|{bname}|both-{lab}", target(r, attrs, 2)))
    return out


def paired_prop_length_faults():
    """the three length requirements of a masked property (values vs ids, missing vs ids, hence values vs
    missing) are correlated: `values` and `missing` of one property changed TOGETHER to the same wrong
    first extent (and, for var-length properties, the offset table with its mask) — every single check
    that compares the two with each other instead of with the id count still passes (seeded C04-16)"""
    out = []
    for bname, (root, attrs) in bases().items():
        for side in ("nodes", "edges"):
            ids = get_path(root, [side, "ids"])
            props = get_path(root, [side, "props"])
            if not (is_array(ids) and is_group(props)):
                continue
            n = ids["a"][1][0] if ids["a"][1] else 0
            for name, grp in props["g"]:
                v, m = child(grp, "values"), child(grp, "missing")
                if not (is_array(v) and is_array(m)) or not v["a"][1] or not m["a"][1]:
                    continue
                for lab, k in (("len-1", n - 1), ("len+1", n + 1), ("len-2", n - 2), ("zero", 0), ("double", 2 * n)):
                    if k < 0 or k == n:
                        continue
                    r = set_path(root, (side, "props", name, "values"), A(v["a"][0], [k] + v["a"][1][1:]))
                    r = set_path(r, (side, "props", name, "missing"), A(m["a"][0], [k] + m["a"][1][1:]))
                    for fmt in (2, 3):
                        out.append((f"paired-prop-len|{bname}|{side}|{name}|both-{lab}",
                                    target(r, attrs, fmt, strenc=("fixed" if fmt == 2 else "vlen"))))
    return out


def byte_order_variants():
    """zarr format 2 keeps the byte order in the dtype: the same (conformant or faulty) store with
    non-native byte order for all arrays, for the properties only, for the ids only and for every
    single array; conformance does not depend on it"""
    out = []
    bs = bases()
    for bname, (root, attrs) in bs.items():
        paths = array_paths(root)
        if not paths:
            continue
        props = [p for p in paths if "/props/" in p]
        for strenc in ("vlen", "fixed"):
            out.append((f"byte-order|{bname}|all-big-endian", target(root, attrs, 2, strenc=strenc, be="all")))
        if props:
            out.append((f"byte-order|{bname}|props-big-endian", target(root, attrs, 2, be=props)))
        out.append((f"byte-order|{bname}|ids-big-endian", target(root, attrs, 2, be=["nodes/ids", "edges/ids"])))
        out.append((f"byte-order|{bname}|edge-ids-big-endian", target(root, attrs, 2, be=["edges/ids"])))
        if bname in ("typical", "empty-graph"):
            for p in paths:
                out.append((f"byte-order|{bname}|only:{p}", target(root, attrs, 2, be=[p])))
        # byte order on top of faults: the verdict is that of the fault
        tf = tree_faults(root)
        for k, (lab, r) in enumerate(tf):
            if k % 17 == 0:
                out.append((f"byte-order|{bname}|all-big-endian+{lab}", target(r, attrs, 2, be="all")))
    # every stated dtype stored big-endian, fixed and variable-length
    for stated in VALID_STATED:
        root, attrs = make_base(2, 1, [("p", stated, "masked"), ("m", stated, "2d")], [("q", stated, "varlen-masked")], None)
        out.append((f"byte-order|stated-{stated}|all-big-endian", target(root, attrs, 2, strenc="fixed", be="all")))
    return out


def random_conformant(rng):
    """random conformant store (all conformant variants: dtypes, ranks, masks, var-length, axes)"""
    n, e = rng.choice((0, 1, 2, 5)), rng.choice((0, 1, 3))
    kinds = ["plain", "masked", "2d", "3d", "varlen", "varlen-masked"]
    nprops = [(f"p{i}", rng.choice(VALID_STATED), rng.choice(kinds)) for i in range(rng.randint(0, 4))]
    eprops = [(f"q{i}", rng.choice(VALID_STATED), rng.choice(kinds)) for i in range(rng.randint(0, 3))]
    axes_pool = [nm for nm, _, k in nprops if k == "plain"]
    axes = None if rng.random() < 0.3 else rng.sample(axes_pool, rng.randint(0, len(axes_pool)))
    root, attrs = make_base(n, e, nprops, eprops, axes, id_dtype=rng.choice(INTS),
                            node_group=bool(nprops) or rng.random() < 0.5,
                            edge_group=bool(eprops) or rng.random() < 0.5)
    fmt = rng.choice((2, 3))
    be = None
    if fmt == 2 and rng.random() < 0.5:
        paths = array_paths(root)
        be = "all" if rng.random() < 0.4 else rng.sample(paths, rng.randint(1, len(paths)))
    return target(root, attrs, fmt, strenc=rng.choice(("vlen", "fixed")), **({"be": be} if be else {}))


# ============================================================ model request
def model_req(t):
    if t["store"] in ("path", "pathobj", "nested") and not t["exists"]:
        return {"target": None}
    if t["store"] == "local" and not t["exists"]:
        return {"target": {"root": None, "meta": {"k": "noKey"}}}
    return {"target": {"root": t["root"], "meta": meta_parse(t["attrs"])}}


# ============================================================ classification
EP_NAME = {"vs": "validate_structure", "reader": "GeffReader(validate=True)"}


def classify(label, t, im, want, why=None):
    """[(key, what)] for every way the implementation's observation falsifies the specification.
    Keys name the entry point, the kind of failure and the violated clause / the feature used."""
    out = []
    if "build" in im:
        return out
    short = label.split("|", 1)[-1] if "|" in label else label
    for ep in ("vs", "reader"):
        if ep not in im:
            continue
        got = im[ep]
        name = EP_NAME[ep]
        if got == want:
            continue
        if want == "ok":
            key = f"C04:{ep}:rejects-conformant:{features(t)}"
            what = f"{name} raised {got} on a conformant store ({short})"
        elif got == "ok":
            key = f"C04:{ep}:accepts-nonconformant:{why}"
            what = f"{name} accepted a non-conformant store: {why} ({short})"
        elif got in ("ValueError", "FileNotFoundError", "ValueError+FileNotFoundError"):
            key = f"C04:{ep}:wrong-error-class:{why}"
            what = f"{name} raised {got}, the property prescribes {want}: {why} ({short})"
        else:
            key = f"C04:{ep}:unrelated-exception:{got}:{why}"
            what = f"{name} raised {got} instead of {want}: {why} ({short})"
        out.append((key, what))
    for ep in ("cli", "cli_sub"):
        if ep not in im:
            continue
        got = im[ep]
        if (got == "ok") != (want == "ok"):
            out.append((f"C04:cli:exit-status:{why or features(t)}",
                        f"`geff validate` gave {got}, validation outcome should be {want} ({short})"))
        elif want != "ok" and ep == "cli" and not got.endswith(":" + want):
            out.append((f"C04:cli:wrong-error-class:{why}", f"`geff validate` failed with {got}, expected {want} ({short})"))
    return out


# ============================================================ the check
def corpus():
    d = common.VERIF / "harness" / "corpus" / PROP
    for f in sorted(d.glob("*.json")):
        j = json.loads(f.read_text())
        yield ("corpus|" + j.get("label", f.stem), j["target"])


def run(ck: common.Check):
    ck.prove(["GeffProps.C04", "GeffProps.C04Gen"])
    ck.rule = ("cases = corpus + 6 conformant bases x the mechanically generated single-fault catalogue "
               "(every node: delete, group<->array, every other dtype, rank+-1/0-d/length+-1, added members; "
               "every metadata field: drop/wrong type/bad value, per property entry: drop/extra/path-like extra keys (p/, /p, p/values, ./p, ../props/p, blanks, dots)/move/every dtype/"
               "varlength/identifier, axes naming every property) x zarr format 2/3 x string encoding, hand-made "
               "composites (id dtype pairs, stated x stored dtype matrix, nested axis path), root faults, sampled "
               "fault pairs, random conformant stores; non-trivial = anything but an untouched base; distinct = "
               "distinct canonical JSON of the abstract target")
    cases = list(corpus())
    cat = catalogue(ck.quick)
    cases += cat
    sv = store_variants()
    cases += sv
    ck.extra["store_variants"] = len(sv)
    pf = paired_id_faults()
    bo = byte_order_variants()
    pl = paired_prop_length_faults()
    cases += pf + bo + pl
    ck.extra["paired_prop_length_faults"] = len(pl)
    ck.extra["paired_id_faults"] = len(pf)
    ck.extra["byte_order_variants"] = len(bo)
    cd = corrupt_documents()
    cases += cd
    ck.extra["corrupt_zarr_documents(exploration, no model)"] = len(cd)
    ck.extra["single_fault_catalogue"] = len(cat)
    npairs = 350 if ck.quick else 16000
    cases += fault_pairs(ck.rng, npairs)
    nconf = 120 if ck.quick else 3000
    cases += [("random-conformant", random_conformant(ck.rng)) for _ in range(nconf)]
    ck.extra["fault_pairs"] = npairs
    ck.extra["random_conformant"] = nconf
    if ck.quick:
        # GeffReader(validate=True) repeats the validation: in the quick tier it is observed on every
        # accepted store and on every third rejected one (thorough: always)
        for i, (_, t) in enumerate(cases):
            if i % 3:
                t["reader"] = False

    impl = common.pmap(impl_obs, [t for _, t in cases], chunksize=32)
    drv = ck.driver()
    model = drv.ask([model_req(t) for _, t in cases])
    if model is None:
        ck.broken.append({"what": "driver Drivers/C04.lean", "detail": drv.broken})
    n_meta_checked = 0
    for idx, ((label, t), im) in enumerate(zip(cases, impl)):
        want, why = oracle2(t)
        kind = label.split("|")[0]
        ck.case(t, f"{kind}:{want}", nontrivial=not label.endswith("|base"))
        if "build" in im:
            ck.corr_broken("C04:cannot-materialise", {"label": label, "target": t}, im["build"], None)
            continue
        for key, what in classify(label, t, im, want, why):
            ck.fail(key, what, {"label": label, "target": t}, im, want)
        # the metadata reading assumed by oracle and model = pydantic's
        if im.get("meta") is not None:
            n_meta_checked += 1
            mine = meta_parse(t["attrs"])
            if mine != im["meta"]:
                ck.corr_broken("C04:metadata-oracle", {"label": label, "attrs": t["attrs"]}, im["meta"], mine)
        if model is not None and not t.get("corrupt_doc"):
            mo = model[idx]
            if "err" in mo:
                ck.corr_broken("C04:driver", {"label": label, "target": t}, im, mo)
                continue
            if mo["out"] != im["vs"]:
                ck.corr_broken("C04:validateStructure", {"label": label, "target": t}, im["vs"], mo["out"])
            if mo["out"] != want:
                ck.corr_broken("C04:model-vs-python-oracle", {"label": label, "target": t}, want, mo["out"])
            # GeffReader.__init__ (theorem C04_reader_outcome)
            if "reader" in im:
                if mo["reader"] != im["reader"]:
                    ck.corr_broken("C04:readerInit", {"label": label, "target": t}, im["reader"], mo["reader"])
                elif im["reader"] == "ok" and im["reader_names"] != [mo["node"], mo["edge"]]:
                    ck.corr_broken("C04:readerInit-names", {"label": label, "target": t}, im["reader_names"], [mo["node"], mo["edge"]])
                nv_m, nv_i = mo["reader_nv"], im["reader_nv"]
                if (nv_m == "ok") != (nv_i == "ok") or (nv_m in ("ValueError", "FileNotFoundError") and nv_m != nv_i):
                    ck.corr_broken("C04:readerInit(validate=False)", {"label": label, "target": t}, nv_i, nv_m)
    ck.extra["metadata_readings_cross_checked"] = n_meta_checked
    from harness.corr import _c04_hist   # histories validate; foreign edit; validate … on one path / store object
    _c04_hist.run_stream(ck, drv)
    ck.extra["explanation"] = ("proof: C04_sound_complete / C04_error_class / C04_no_other_exception / C04_reader_outcome hold for "
                               "every abstract target; the model is tied to the code by the single-fault catalogue correspondence; "
                               "corrupt zarr metadata documents are explored without a model (known finding)")
    ck.assumptions += [
        "zarr-python: Group.get/keys/array_keys/__contains__, open_group(mode='r') and the dtype/shape reported for "
        "an array are modelled (tree of groups/arrays with dtype class and shape), not verified",
        "metadata validity (pydantic) is a component of the store description (MetaRead); the harness's own reading "
        "of the documented metadata rules is cross-checked against GeffMetadata.model_validate on every case",
        "corrupt zarr metadata documents (unparsable zarr.json/.zarray) are outside the abstract store",
        "numpy dtype classes: unicode of any width and StringDType are `str`; byte strings `bytes`; complex/"
        "datetime/structured are `other`",
    ]


def replay(rp):
    if "case" not in rp:   # a replay of a broken proof obligation / correspondence: nothing to run on the code
        print(json.dumps(rp.get("no_longer_checks", rp), default=str)[:3000])
        print("REPLAY: no failing input was found; the named obligation / correspondence no longer checks")
        return 1
    c = rp["case"]
    if "history" in c:
        from harness.corr import _c04_hist
        return _c04_hist.replay_case(c)
    t = c["target"]
    im = impl_obs(t)
    want, why = oracle2(t)
    print(json.dumps({"label": c.get("label"), "impl": im, "specified": want, "clause": why}, default=str))
    bad = classify(c.get("label", ""), t, im, want, why)
    for key, what in bad:
        print(f"  [{key}] {what}")
    print("REPLAY: property holds on this input" if not bad else "REPLAY: property FAILS on this input")
    return 0 if not bad else 1
