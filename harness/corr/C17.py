"""C17 — table export lists every node and edge with aligned property columns.

Implementation: geff.convert.geff_to_dataframes / geff_to_csv (+ pandas.read_csv) and the
`geff convert-to-csv` command, on stores written with write_arrays (MemoryStore, and on disk for
the CSV / CLI part).
Model: Geff.Dataframe.geffToDataframes through Drivers/C17.lean, fed with the generated in-memory
geff in the property order `read_to_memory` yields.
Specification oracle (Python, independent of the model, straight from the property text): one row
per node/edge with id / source,target in stored order; a property whose trailing shape has no
dimension != 1 gives the column `name`, exactly one dimension k != 1 gives `name_0..name_{k-1}`
(for k == 1 both `name` and `name_0` are accepted), more give no column and a warning; cells equal
the stored values, NaN where flagged missing.  CSV text (pandas) and overwrite semantics: direct
differential tests (partial).
"""
from __future__ import annotations

import io
import json
import re
import struct
import tempfile
import warnings
from pathlib import Path

import numpy as np

from harness import common

PROP = "C17"
WARN = re.compile(r"^(node|edge) (.*) \((\d+)D\) will not be exported to csv with more than 2 dimensions$", re.S)
INT_DTYPES = ["int8", "int16", "int32", "int64", "uint8", "uint16", "uint32", "uint64"]
DTYPES = ["bool", *INT_DTYPES, "float32", "float64", "str"]
NA_TOKENS = {"", "#N/A", "#N/A N/A", "#NA", "-1.#IND", "-1.#QNAN", "-NaN", "-nan", "1.#IND", "1.#QNAN", "<NA>", "N/A",
             "NA", "NULL", "NaN", "None", "n/a", "nan", "null"}


def f2hex(x) -> str:
    return struct.pack("<d", float(x)).hex()


# ----------------------------------------------------------------- case <-> numpy
def tok(dt: str, v) -> str | None:
    """canonical token of one stored value (None for a float NaN: indistinguishable from missing)"""
    if dt == "bool":
        return f"b:{int(bool(v))}"
    if dt == "str":
        return f"s:{v}"
    if dt.startswith(("int", "uint")):
        return f"i:{int(v)}"
    if v != v:
        return None
    return f"f:{f2hex(v)}"


def np_values(p, n):
    shape = (n, *p["trail"])
    dt = p["dtype"]
    flat = p["flat"]
    if dt == "str":
        a = np.array(flat, dtype=str) if flat else np.zeros((0,), dtype="<U1")
    elif dt.startswith("float"):
        a = np.array([float.fromhex(x) if isinstance(x, str) else x for x in flat], dtype=dt)
    else:
        a = np.array([int(x) for x in flat], dtype=dt) if dt != "bool" else np.array(flat, dtype=bool)
    return a.reshape(shape)


def build_store(case, store, zarr_format):
    from geff import GeffMetadata
    from geff.core_io import write_arrays

    n, e = len(case["node_ids"]), len(case["edges"])
    idt = case["id_dtype"]
    node_ids = np.array([int(x) for x in case["node_ids"]], dtype=idt)
    edge_ids = np.array([[int(a), int(b)] for a, b in case["edges"]], dtype=idt).reshape(-1, 2)

    def props(ps, cnt):
        return {p["name"]: {"values": np_values(p, cnt),
                            "missing": None if p["missing"] is None else np.array(p["missing"], dtype=bool)}
                for p in ps}

    write_arrays(store, node_ids, props(case["node_props"], n), edge_ids, props(case["edge_props"], e),
                 GeffMetadata(directed=True, node_props_metadata={}, edge_props_metadata={}), zarr_format=zarr_format)
    if case.get("vlen_str"):
        # geff's writer stores fixed-width <U arrays; the specification prescribes variable-length UTF8
        # strings (zarr v3 `string`, v2 vlen-utf8): re-create the string `values` arrays that way with the
        # raw zarr API (the reader then goes through its StringDType branch)
        import zarr

        root = zarr.open_group(store, mode="a")
        for group, ps, cnt in (("nodes", case["node_props"], n), ("edges", case["edge_props"], e)):
            for p in ps:
                if p["dtype"] == "str":
                    path = f"{group}/props/{p['name']}/values"
                    values = np_values(p, cnt).astype(np.dtypes.StringDType())
                    del root[path]
                    arr = root.create_array(path, shape=values.shape, dtype=values.dtype)
                    arr[...] = values


def rows_of(p, n):
    """values[r].ravel() as tokens (model input and oracle)"""
    k = int(np.prod(p["trail"])) if p["trail"] else 1
    dt = p["dtype"]
    flat = p["flat"]
    if dt.startswith("float"):
        flat = [float(np.array(float.fromhex(x), dtype=dt)) for x in flat]
    return [[tok(dt, v) for v in flat[r * k:(r + 1) * k]] for r in range(n)]


# ----------------------------------------------------------------- observation
def canon_cell(x, dt):
    """canonical token of a table cell, read with the source dtype of its column; a cell that does not
    fit that dtype at all (a value leaked from somewhere else) becomes a `?:` token, never an exception"""
    try:
        return _canon_cell(x, dt)
    except (ValueError, TypeError, OverflowError):
        return f"?:{type(x).__name__}:{x!r}"[:80]


def _canon_cell(x, dt):
    import pandas as pd

    if x is None or (not isinstance(x, str) and pd.isna(x)):
        return None
    if dt == "bool":
        return f"b:{int(bool(x))}"
    if dt == "str":
        return f"s:{x}"
    if dt.startswith(("int", "uint")):
        if isinstance(x, (float, np.floating)):
            return f"i:{int(x)}" if float(x) == int(x) else f"f:{f2hex(x)}"
        return f"i:{int(x)}"
    if dt == "float32":
        x = np.float32(x)
    return f"f:{f2hex(x)}"


def col_dtype(case, kind, col):
    """source dtype of a produced column name (by the naming rule) — for canonicalisation only; with
    a name collision the last source wins (the collision stream uses one dtype for all sources)"""
    src = {c: case["id_dtype"] for c in (["id"] if kind == "node" else ["source", "target"])}
    for p in case[f"{kind}_props"]:
        sq = [d for d in p["trail"] if d != 1]
        if len(sq) == 0:
            src[p["name"]] = p["dtype"]
            src.setdefault(p["name"] + "_0", p["dtype"])
        elif len(sq) == 1:
            for j in range(sq[0]):
                src[f"{p['name']}_{j}"] = p["dtype"]
    return src.get(col, "str")


def canon_df(df, case, kind):
    return [[str(c), [canon_cell(x, col_dtype(case, kind, str(c))) for x in df[c].tolist()]] for c in df.columns]


def impl_obs(case):
    import zarr

    from geff.convert import geff_to_dataframes
    from geff.core_io import read_to_memory

    obs: dict = {}
    store = zarr.storage.MemoryStore()
    try:
        build_store(case, store, case.get("zarr_format", 2))
    except Exception as ex:  # noqa: BLE001
        return {"unwritable": f"{type(ex).__name__}: {str(ex)[:160]}"}
    try:
        m = read_to_memory(store)
        obs["order"] = {"node": list(m["node_props"]), "edge": list(m["edge_props"])}
    except Exception as ex:  # noqa: BLE001
        return {"unreadable": f"{type(ex).__name__}: {str(ex)[:160]}"}
    with warnings.catch_warnings(record=True) as rec:
        warnings.simplefilter("always")
        try:
            ndf, edf = geff_to_dataframes(store)
        except Exception as ex:  # noqa: BLE001
            obs["exc"], obs["msg"] = type(ex).__name__, str(ex)[:200]
            return obs
    ws = {"node": [], "edge": [], "other": []}
    for w in rec:
        mm = WARN.match(str(w.message))
        if mm:
            ws[mm.group(1)].append([mm.group(2), int(mm.group(3))])
        elif "geff" in str(getattr(w, "filename", "")) and "_dataframe" in str(w.filename):
            ws["other"].append(str(w.message)[:100])
    obs["warn"] = ws
    obs["nodes"] = canon_df(ndf, case, "node")
    obs["edges"] = canon_df(edf, case, "edge")
    obs["nrows"] = [len(ndf), len(edf)]
    obs["dtypes"] = {"node": {str(c): str(t) for c, t in ndf.dtypes.items()}, "edge": {str(c): str(t) for c, t in edf.dtypes.items()}}
    if case.get("csv"):
        obs["csv"] = csv_obs(case, obs)
    return obs


def impl_seq(seqcase):
    """a SEQUENCE of exports in one process (same property names, other shapes / masks / dtypes per step)"""
    return {"steps": [impl_obs(c) for c in seqcase["seq"]]}


def observe(item):
    return impl_seq(item) if "seq" in item else impl_obs(item)


def _read_csv(path):
    import pandas as pd

    # round_trip: the exact float parser (the default fast parser is off by an ulp for long mantissas)
    return pd.read_csv(path, index_col=0, float_precision="round_trip")


def csv_obs(case, obs):
    """geff_to_csv / `geff convert-to-csv` on an on-disk store: CSV text parsed back, then SEQUENCES of
    exports onto the same output (existing files, overwrite).  The output is given as an absolute path,
    as `~/…` ($HOME pointed at the temporary directory) or relative to the working directory, as str or
    Path, with or without a suffix; files are observed at their real location."""
    import os

    r: dict = {}
    with tempfile.TemporaryDirectory(prefix="verif-c17-") as td:
        root = Path(td).resolve()
        old_home, old_cwd = os.environ.get("HOME"), os.getcwd()
        try:
            os.environ["HOME"] = str(root)
            os.chdir(root)
            return _csv_obs(case, root, r)
        finally:
            os.chdir(old_cwd)
            if old_home is None:
                os.environ.pop("HOME", None)
            else:
                os.environ["HOME"] = old_home


def _csv_obs(case, root, r):
    from geff.convert import geff_to_csv

    if True:
        spath = root / "g.zarr" / "tracks.geff"
        build_store(case, spath, case.get("zarr_format", 2))
        name = case.get("out_arg", "out.csv")
        form = case.get("out_form", "abs")
        if form == "tilde":
            (root / "tables").mkdir()
            arg, real = f"~/tables/{name}", root / "tables" / name
        elif form == "rel":
            (root / "sub").mkdir()
            arg, real = f"sub/{name}", root / "sub" / name
        else:
            arg, real = str(root / name), root / name
        outarg = Path(arg) if case.get("out_type", "path") == "path" else arg
        base = real.with_suffix("")
        npth, epth = Path(f"{base}-nodes.csv"), Path(f"{base}-edges.csv")
        via = case.get("via", "api")
        try:
            if via == "cli":
                from typer.testing import CliRunner

                from geff._cli import app

                res = CliRunner().invoke(app, ["convert-to-csv", str(spath), str(outarg)])
                if res.exception is not None and not isinstance(res.exception, SystemExit):
                    raise res.exception
                if res.exit_code != 0:
                    raise RuntimeError(f"cli exit {res.exit_code}")
            else:
                geff_to_csv(spath, outarg)
        except Exception as ex:  # noqa: BLE001
            r["exc"] = f"{type(ex).__name__}: {str(ex)[:160]}"
            return r
        r["files"] = [npth.exists(), epth.exists()]
        if not all(r["files"]):
            return r
        try:
            ndf, edf = _read_csv(npth), _read_csv(epth)
            r["nodes"] = canon_df(ndf, case, "node")
            r["edges"] = canon_df(edf, case, "edge")
            r["index"] = [list(map(int, ndf.index)) == list(range(len(ndf))), list(map(int, edf.index)) == list(range(len(edf)))]
        except Exception as ex:  # noqa: BLE001
            r["parse_exc"] = f"{type(ex).__name__}: {str(ex)[:160]}"
        # ---- an existing CSV is only replaced on request
        old_bytes = (npth.read_bytes(), epth.read_bytes())
        before = old_bytes
        spath2 = root / "g2.zarr" / "tracks.geff"
        mark = lambda cnt: {"name": "zzmark", "dtype": "int64", "trail": [], "flat": list(range(cnt)), "missing": None}  # noqa: E731
        other = {**case, "vlen_str": False, "node_props": [mark(len(case["node_ids"]))], "edge_props": [mark(len(case["edges"]))]}
        build_store(other, spath2, case.get("zarr_format", 2))
        fresh = root / "fresh.csv"
        scen = []

        def state(path, old, new):
            if not path.exists():
                return "absent"
            b = path.read_bytes()
            if b == new == old:
                return "same"          # old and new export coincide: cannot tell, matches both
            return "new" if b == new else ("old" if b == old else "other")
        raised = False
        try:
            geff_to_csv(spath2, fresh)
        except Exception:  # noqa: BLE001
            raised = True
        fn, fe = Path(f"{fresh.with_suffix('')}-nodes.csv"), Path(f"{fresh.with_suffix('')}-edges.csv")
        new_bytes = (fn.read_bytes() if fn.exists() else b"", fe.read_bytes() if fe.exists() else b"")
        scen.append({"exists": [False, False], "overwrite": False, "raised": raised,
                     "nodes": "new" if fn.exists() else "absent", "edges": "new" if fe.exists() else "absent"})
        ow: dict = {}
        for name, call in (("api", lambda: geff_to_csv(spath2, outarg)),
                           ("api-false", lambda: geff_to_csv(spath2, outarg, overwrite=False)),
                           ("cli", None)):
            try:
                if call is None:
                    from typer.testing import CliRunner

                    from geff._cli import app

                    res = CliRunner().invoke(app, ["convert-to-csv", str(spath2), str(outarg)])
                    ow[name] = "ok" if (res.exit_code == 0 and res.exception is None) else type(res.exception).__name__
                else:
                    call()
                    ow[name] = "ok"
            except Exception as ex:  # noqa: BLE001
                ow[name] = type(ex).__name__
            ow[name + "-unchanged"] = (npth.read_bytes(), epth.read_bytes()) == before
            scen.append({"exists": [True, True], "overwrite": False, "raised": ow[name] != "ok",
                         "nodes": state(npth, old_bytes[0], new_bytes[0]), "edges": state(epth, old_bytes[1], new_bytes[1])})
        # only the edge file exists: the node file may be created, the existing edge file must stay
        npth.unlink()
        try:
            geff_to_csv(spath2, outarg)
            ow["edges-only"] = "ok"
        except Exception as ex:  # noqa: BLE001
            ow["edges-only"] = type(ex).__name__
        ow["edges-only-unchanged"] = epth.read_bytes() == before[1]
        scen.append({"exists": [False, True], "overwrite": False, "raised": ow["edges-only"] != "ok",
                     "nodes": state(npth, old_bytes[0], new_bytes[0]), "edges": state(epth, old_bytes[1], new_bytes[1])})
        # only the node file exists
        if npth.exists():
            npth.write_bytes(old_bytes[0])
        epth.unlink()
        try:
            geff_to_csv(spath2, outarg)
            ow["nodes-only"] = "ok"
        except Exception as ex:  # noqa: BLE001
            ow["nodes-only"] = type(ex).__name__
        scen.append({"exists": [True, False], "overwrite": False, "raised": ow["nodes-only"] != "ok",
                     "nodes": state(npth, old_bytes[0], new_bytes[0]), "edges": state(epth, old_bytes[1], new_bytes[1])})
        epth.write_bytes(old_bytes[1])
        # on request: replaced by exactly the export of the new content
        try:
            geff_to_csv(spath2, outarg, overwrite=True)
            ow["replaced"] = (npth.read_bytes() == new_bytes[0] and epth.read_bytes() == new_bytes[1])
            scen.append({"exists": [True, True], "overwrite": True, "raised": False,
                         "nodes": state(npth, old_bytes[0], new_bytes[0]), "edges": state(epth, old_bytes[1], new_bytes[1])})
        except Exception as ex:  # noqa: BLE001
            ow["replaced"] = type(ex).__name__
            scen.append({"exists": [True, True], "overwrite": True, "raised": True,
                         "nodes": state(npth, old_bytes[0], new_bytes[0]), "edges": state(epth, old_bytes[1], new_bytes[1])})
        r["scenarios"] = scen
        r["overwrite"] = ow
        r["stray_files"] = sorted(str(q.relative_to(root)) for q in root.rglob("*.csv")
                                  if q not in (npth, epth, fn, fe))
    return r


# ----------------------------------------------------------------- specification oracle
def expected_table(case, kind):
    """{column name: [cells]} alternatives per property, ids, and the properties to be left out.
    Returns (id_cols, per_prop) with per_prop[name] = ("cols", [alt1, alt2..]) | ("dropped", ndim)"""
    n = len(case["node_ids"]) if kind == "node" else len(case["edges"])
    idt = case["id_dtype"]
    if kind == "node":
        ids = {"id": [tok(idt, int(x)) for x in case["node_ids"]]}
    else:
        ids = {"source": [tok(idt, int(a)) for a, _ in case["edges"]], "target": [tok(idt, int(b)) for _, b in case["edges"]]}
    per = {}
    for p in case[f"{kind}_props"]:
        rows = rows_of(p, n)
        miss = p["missing"] or [False] * n
        sq = [d for d in p["trail"] if d != 1]
        ones = len(p["trail"]) - len(sq)

        def colvals(j, rows=rows, miss=miss):
            return [None if miss[r] else rows[r][j] for r in range(n)]
        if len(sq) == 0:
            alts = [{p["name"]: colvals(0)}]
            if ones:                      # (N,1): the k = 1 reading name_0 is accepted too
                alts.append({p["name"] + "_0": colvals(0)})
            per[p["name"]] = ("cols", alts)
        elif len(sq) == 1:
            per[p["name"]] = ("cols", [{f"{p['name']}_{j}": colvals(j) for j in range(sq[0])}])
        else:
            per[p["name"]] = ("dropped", len(sq) + 1)
    return n, ids, per


def has_collision(case, kind):
    names = ["id"] if kind == "node" else ["source", "target"]
    for p in case[f"{kind}_props"]:
        sq = [d for d in p["trail"] if d != 1]
        if len(sq) == 0:
            names.append(p["name"])
        elif len(sq) == 1:
            names += [f"{p['name']}_{j}" for j in range(sq[0])]
    return len(set(names)) != len(names)


def judge_table(case, kind, table, warns, fail, where="dataframe"):
    """`table` = [[col,[cells]]…] as observed; spec verdict"""
    n, ids, per = expected_table(case, kind)
    cols = dict((c, v) for c, v in table)
    pre = "C17:" if where == "dataframe" else "C17:csv-"
    if has_collision(case, kind):
        names = [c for c, _ in table]
        fail("C17:column-name-collision",
             f"{kind} table: two sources map to one column name (columns {names}); one of them is not exported", names, None)
        return "collision"
    if len(table) and any(len(v) != n for _c, v in table):
        fail(pre + "rows", f"{kind} table has columns of length {[len(v) for _c, v in table]} for {n} {kind}s", None, n)
        return "rows"
    for c, v in ids.items():
        if cols.get(c) != v:
            fail(pre + "ids", f"{kind} table column {c!r} is {cols.get(c)} instead of the stored ids {v}", cols.get(c), v)
            return "ids"
    expected_names = set(ids)
    tag = "ok"
    for name, (what, alts) in per.items():
        if what == "dropped":
            if where == "dataframe" and [name, alts] not in warns:
                fail("C17:no-warning", f"{kind} property {name!r} ({alts}-D) left out without the warning", warns, [name, alts])
            continue
        match = next((a for a in alts if all(c in cols for c in a)), None)
        if match is None:
            fail(pre + "columns", f"{kind} property {name!r}: expected columns {[sorted(a) for a in alts]}, table has {sorted(cols)}",
                 sorted(cols), [sorted(a) for a in alts])
            return "columns"
        expected_names |= set(match)
        for c, want in match.items():
            got = cols[c]
            for r, (g, w) in enumerate(zip(got, want)):
                if g != w:
                    miss = (next(p for p in case[f"{kind}_props"] if p["name"] == name)["missing"] or [False] * n)[r]
                    if miss:
                        fail(pre + "missing-cell", f"{kind} column {c!r} row {r}: flagged missing but cell is {g}", g, None)
                    else:
                        fail(pre + "cell-value", f"{kind} column {c!r} row {r}: cell {g}, stored value {w}", g, w)
                    return "cells"
    extra = set(cols) - expected_names
    if extra:
        fail(pre + "extra-columns", f"{kind} table has unexpected columns {sorted(extra)}", sorted(cols), sorted(expected_names))
        return "extra"
    if where == "dataframe":
        stray = [w for w in warns if per.get(w[0], ("", None))[0] != "dropped"]
        if stray:
            fail("C17:stray-warning", f"{kind}: warning for exported property {stray}", stray, None)
    return tag


def judge(case, obs, fail):
    if "exc" in obs:
        n, e = len(case["node_ids"]), len(case["edges"])
        has_bool_missing = any(p["dtype"] == "bool" and p["missing"] and any(p["missing"])
                               for p in case["node_props"] + case["edge_props"])
        if obs["exc"] == "TypeError" and has_bool_missing:
            key = "C17:bool-missing-mask"
        elif obs["exc"] == "ValueError" and (n == 1 or e == 1):
            key = "C17:single-row-squeeze"
        else:
            key = "C17:exception"
        fail(key, f"geff_to_dataframes raised {obs['exc']}: {obs.get('msg')}", obs["exc"], "two tables")
        return "exception"
    tags = [judge_table(case, "node", obs["nodes"], obs["warn"]["node"], fail),
            judge_table(case, "edge", obs["edges"], obs["warn"]["edge"], fail)]
    if obs["nrows"] != [len(case["node_ids"]), len(case["edges"])]:
        fail("C17:rows", f"tables have {obs['nrows']} rows for {len(case['node_ids'])} nodes / {len(case['edges'])} edges",
             obs["nrows"], [len(case["node_ids"]), len(case["edges"])])
    if "csv" in obs and "collision" not in tags:
        cv = obs["csv"]
        if "exc" in cv or "parse_exc" in cv or not all(cv.get("files", [False])):
            fail("C17:csv-export", f"csv export failed: {cv}", cv, "two csv files")
        else:
            if case.get("csv_comparable", True):
                judge_table(case, "node", cv["nodes"], [], fail, where="csv")
                judge_table(case, "edge", cv["edges"], [], fail, where="csv")
            ow = cv.get("overwrite", {})
            for k in ("api", "api-false", "cli", "edges-only"):
                if ow.get(k) != "FileExistsError" or not ow.get(k + "-unchanged"):
                    fail("C17:csv-clobbered-without-overwrite", f"existing csv, no overwrite requested ({k}): outcome {ow.get(k)}, "
                         f"files unchanged = {ow.get(k + '-unchanged')}", ow, "FileExistsError, files unchanged")
            if cv.get("stray_files"):
                fail("C17:csv-wrong-location", f"csv files written outside the requested output: {cv['stray_files']}",
                     cv["stray_files"], [])
            if ow.get("replaced") is not True:
                fail("C17:csv-overwrite", f"overwrite=True did not replace the csv files by the new export: {ow.get('replaced')}", ow, True)
    return "+".join(sorted(set(tags)))


# ----------------------------------------------------------------- model request / comparison
def model_request(case, order):
    def props(kind, cnt):
        by = {p["name"]: p for p in case[f"{kind}_props"]}
        out = []
        for name in order[kind]:
            p = by[name]
            rows = [["nan" if t is None else t for t in row] for row in rows_of(p, cnt)]
            out.append({"name": name, "trail": p["trail"], "rows": rows, "missing": p["missing"]})
        return out
    idt = case["id_dtype"]
    return {"node_ids": [tok(idt, int(x)) for x in case["node_ids"]],
            "edges": [[tok(idt, int(a)), tok(idt, int(b))] for a, b in case["edges"]],
            "node_props": props("node", len(case["node_ids"])), "edge_props": props("edge", len(case["edges"]))}


def compare_model(obs, mo):
    if "exc" in mo:
        return None if obs.get("exc") == mo["exc"] else f"model raises {mo['exc']}, implementation {obs.get('exc', 'returns')}"
    if "exc" in obs:
        return f"implementation raises {obs['exc']}, model returns tables"
    m = mo["ok"]
    for kind, key, wkey in (("node", "nodes", "node_warn"), ("edge", "edges", "edge_warn")):
        mt = [[c, [None if x in (None, "nan") else x for x in cells]] for c, cells in m[key]]
        it = obs[key]
        if [c for c, _ in mt] != [c for c, _ in it]:
            # the k = 1 naming alternative is not a disagreement worth an alarm, anything else is
            return f"{kind} columns differ: model {[c for c, _ in mt]} vs {[c for c, _ in it]}"
        if mt != it:
            return f"{kind} cells differ"
        if sorted(map(tuple, m[wkey])) != sorted(map(tuple, obs["warn"][kind])):
            return f"{kind} warnings differ: model {m[wkey]} vs {obs['warn'][kind]}"
    return None


# ----------------------------------------------------------------- generators
ALPHA = ["a", "bc", "x y", "Zürich", "q,r", 'say "hi"', "l1\nl2", "ünï", "tab\there", "0x", "v_1", " lead", "trail ", "semi;colon"]


def gen_values(rng, dt, count, masked, csv_safe=True):
    if dt == "bool":
        return [rng.random() < 0.5 for _ in range(count)]
    if dt == "str":
        return [rng.choice(ALPHA) + rng.choice(["", "", "k", "é"]) for _ in range(count)]
    if dt.startswith(("int", "uint")):
        info = np.iinfo(dt)
        lo, hi = int(info.min), int(info.max)
        if masked:
            lo, hi = max(lo, -(2 ** 53) + 1), min(hi, 2 ** 53 - 1)
        pool = [lo, hi, 0, 1, hi - 1, lo + 1]
        return [rng.choice(pool) if rng.random() < 0.3 else rng.randint(lo, hi) for _ in range(count)]
    specials = [0.0, -0.0, 1.5, -2.25, 1e-300 if dt == "float64" else 1e-30, 3.4e38 if dt == "float32" else 1.7e308,
                float("inf"), float("-inf"), 0.1, 1 / 3]
    out = []
    for _ in range(count):
        v = rng.choice(specials) if rng.random() < 0.4 else rng.uniform(-1e3, 1e3)
        if rng.random() < 0.03:
            v = float("nan")
        out.append(float(np.array(v, dtype=dt)).hex())
    return out


def gen_missing(rng, n, mode=None):
    mode = mode or rng.choice(["none", "none", "allfalse", "some", "some", "alltrue"])
    if mode == "none":
        return None
    if mode == "allfalse":
        return [False] * n
    if mode == "alltrue":
        return [True] * n
    m = [rng.random() < 0.4 for _ in range(n)]
    if n and not any(m):
        m[rng.randrange(n)] = True
    return m


def gen_trail(rng):
    rank = rng.choice([1, 1, 1, 2, 2, 2, 3, 3, 4])
    dims = [rng.choice([1, 1, 2, 3, 4]) for _ in range(rank - 1)]
    if rng.random() < 0.04 and dims:
        dims[rng.randrange(len(dims))] = 0
    return dims


def gen_prop(rng, name, n, dt=None, trail=None, missing_mode=None):
    dt = dt or rng.choice(DTYPES)
    trail = gen_trail(rng) if trail is None else list(trail)
    missing = gen_missing(rng, n, missing_mode)
    cnt = n * (int(np.prod(trail)) if trail else 1)
    masked = bool(missing and any(missing))
    return {"name": name, "dtype": dt, "trail": trail, "flat": gen_values(rng, dt, cnt, masked), "missing": missing}


def gen_graph(rng, n=None, e=None):
    n = rng.choice([0, 1, 2, 5]) if n is None else n
    e = (rng.choice([0, 1, 2, 5]) if n else 0) if e is None else (e if n else 0)
    idt = rng.choice(["uint8", "uint16", "uint32", "uint64", "int64", "int32"])
    info = np.iinfo(idt)
    lo = 0
    ids = set()
    while len(ids) < n:
        ids.add(rng.choice([lo, int(info.max)]) if rng.random() < 0.2 else rng.randint(lo, int(info.max)))
    ids = list(ids)
    rng.shuffle(ids)
    edges = [[rng.choice(ids), rng.choice(ids)] for _ in range(e)]
    return {"node_ids": [str(x) for x in ids], "edges": [[str(a), str(b)] for a, b in edges], "id_dtype": idt}


NAMES = ["p", "q", "score", "pos", "a_b", "t", "x", "Ünï", "p0", "name with space", "col,comma"]


def random_case(rng, collide=False):
    c = gen_graph(rng)
    n, e = len(c["node_ids"]), len(c["edges"])
    for kind, cnt in (("node", n), ("edge", e)):
        k = rng.choice([0, 1, 2, 3]) if kind == "node" else rng.choice([0, 0, 1, 2])
        names = rng.sample(NAMES, k)
        c[f"{kind}_props"] = [gen_prop(rng, nm, cnt) for nm in names]
    c["zarr_format"] = rng.choice([2, 3])
    if any(p["dtype"] == "str" for p in c["node_props"] + c["edge_props"]) and rng.random() < 0.6:
        c["vlen_str"] = True
    if collide:
        kind = rng.choice(["node", "edge"])
        cnt = n if kind == "node" else e
        how = rng.choice(["id", "sub", "sub"])
        if how == "id":
            nm = "id" if kind == "node" else rng.choice(["source", "target"])
            c[f"{kind}_props"] = [p for p in c[f"{kind}_props"] if p["name"] != nm] + [
                gen_prop(rng, nm, cnt, dt=c["id_dtype"], trail=rng.choice([[], [1]]), missing_mode="none")]
        else:
            c[f"{kind}_props"] = [gen_prop(rng, "w", cnt, dt="int32", trail=[rng.choice([2, 3])], missing_mode="none"),
                                  gen_prop(rng, "w_1", cnt, dt="int32", trail=[], missing_mode="none")]
    return c


def sequence_case(rng):
    """2..4 stores exported one after the other in one process; property names repeat across the steps with
    different shapes, masks and dtypes, so that a column / mask / warning leaking from an earlier call would show"""
    steps = []
    for _ in range(rng.randint(2, 4)):
        c = random_case(rng)
        for kind in ("node", "edge"):
            for i, pr in enumerate(c[f"{kind}_props"]):
                pr["name"] = ["p", "q", "r"][i]
        steps.append(c)
    return {"seq": steps}


def exhaustive_cases(rng, thorough):
    """one property per store: every trailing shape over {1,2} up to rank 4 x N x missing x dtype"""
    trails = [[]]
    for rank in (1, 2, 3):
        new = [[]]
        for _ in range(rank):
            new = [t + [d] for t in new for d in (1, 2)]
        trails += new
    cases = []
    for n in (0, 1, 2, 5):
        for trail in trails:
            for mm in ("none", "allfalse", "some"):
                for dt in ("int64", "float64", "bool", "str"):
                    if not thorough and rng.random() < 0.5:
                        continue
                    onnode = rng.random() < 0.6
                    g = gen_graph(rng, n=n if onnode else max(n, 1), e=None if onnode else n)
                    cnt = len(g["node_ids"]) if onnode else len(g["edges"])
                    p = gen_prop(rng, "p", cnt, dt=dt, trail=trail, missing_mode=mm)
                    g["node_props"] = [p] if onnode else []
                    g["edge_props"] = [] if onnode else [p]
                    g["zarr_format"] = rng.choice([2, 3])
                    cases.append(g)
    return cases


def vlen_string_cases(rng, thorough):
    """string properties stored as variable-length UTF8 strings (zarr v3 `string` / v2 vlen-utf8, what the
    specification prescribes): N, E in {0,1,2,5} x rank 1..3 x both formats, on the node and on the edge axis —
    row-less tables included (empty graph; edge table of a graph without edges)"""
    cases = []
    for cnt in (0, 1, 2, 5):
        for trail in ([], [1], [3], [2, 2], [1, 3], [2, 1]):
            for fmt in (2, 3):
                for onnode in (True, False):
                    mms = ("none", "some") if thorough else (rng.choice(["none", "some", "allfalse"]),)
                    for mm in mms:
                        g = gen_graph(rng, n=cnt if onnode else rng.choice([1, 2, 5]), e=None if onnode else cnt)
                        k = len(g["node_ids"]) if onnode else len(g["edges"])
                        ps = [gen_prop(rng, "tags", k, dt="str", trail=trail, missing_mode=mm),
                              gen_prop(rng, "pos", k, dt="float32", trail=[3], missing_mode="none")]
                        other = [gen_prop(rng, "label", len(g["edges"]) if onnode else len(g["node_ids"]), dt="str",
                                          trail=rng.choice([[], [2], [2, 2]]), missing_mode="none")]
                        g["node_props"], g["edge_props"] = (ps, other) if onnode else (other, ps)
                        g["zarr_format"], g["vlen_str"] = fmt, True
                        cases.append(g)
    return cases


def csv_comparable(case):
    """pandas' CSV text round trip is only expected to reproduce values for columns that are not
    re-typed by the parser: strings that are no NA token / number / bool, no mixed-sign 64-bit columns"""
    for kind in ("node", "edge"):
        for p in case[f"{kind}_props"]:
            if p["dtype"] == "str":
                for s in p["flat"]:
                    if s in NA_TOKENS:
                        return False
            if p["dtype"] == "uint64" and any(int(v) >= 2 ** 63 for v in p["flat"]) and p["missing"] and any(p["missing"]):
                return False
    return True


def corpus():
    d = common.VERIF / "harness" / "corpus" / PROP
    for f in sorted(d.glob("*.json")):
        yield json.loads(f.read_text())


# ----------------------------------------------------------------- the check
def run(ck: common.Check):
    ck.prove(["GeffProps.C17", "GeffProps.C17Links", "GeffProps.C17Cli", "GeffProps.C17Gen"])
    ck.rule = ("cases = corpus + one-property stores for every trailing shape over {1,2} up to rank 4 x N in {0,1,2,5} x "
               "missing {none, all false, some} x {int64,float64,bool,str} (all in thorough, a seeded half in quick) + "
               "string properties re-created as variable-length UTF8 strings with the raw zarr API (N,E in {0,1,2,5} x rank 1-3 x "
               "v2/v3 x node/edge axis, row-less tables included) + seeded random stores (N,E in {0,1,2,5}, 0-3 node and 0-2 edge properties, rank 1-4 with dims in {0,1,2,3,4}, all "
               "integer widths/float32/float64/bool/str, masks none/all-false/some/all-true, zarr v2/v3, id dtypes) + a "
               "column-name-collision stream + sequences of 2..4 exports in one process (same property names, other shapes/masks/"
               "dtypes), every step compared with the model's answer for that store alone; a seeded subset goes through geff_to_csv/`geff convert-to-csv` on disk + "
               "pandas.read_csv + sequences of exports onto the same output (absolute, ~/… with $HOME redirected, relative; str/Path; "
               "with/without suffix; both / one file pre-existing; overwrite); non-trivial = at least one property on a non-empty axis; "
               "distinct = distinct canonical JSON of the case")
    thorough = not ck.quick
    cases = list(corpus())
    ck.extra["corpus_cases"] = len(cases)
    cases += exhaustive_cases(ck.rng, thorough)
    cases += vlen_string_cases(ck.rng, thorough)
    nrand, ncoll = (8000, 300) if thorough else (360, 36)
    for _ in range(nrand):
        cases.append(random_case(ck.rng))
    for _ in range(ncoll):
        cases.append(random_case(ck.rng, collide=True))
    ncsv = 0
    for i, c in enumerate(cases):
        if "csv" not in c and ck.rng.random() < (0.12 if thorough else 0.16):
            c["csv"] = True
            c["via"] = ck.rng.choice(["api", "api", "cli"])
            c["out_arg"] = ck.rng.choice(["out.csv", "out", "tables.tsv", "tracks.v2.csv"])
            c["out_form"] = ck.rng.choice(["abs", "tilde", "tilde", "rel"])
            c["out_type"] = ck.rng.choice(["path", "str"])
        if c.get("csv"):
            c["csv_comparable"] = csv_comparable(c)
            ncsv += 1

    seqs = [sequence_case(ck.rng) for _ in range(400 if thorough else 48)]
    all_obs = common.pmap(observe, cases + seqs, chunksize=8)
    obs_all, seq_obs = all_obs[:len(cases)], all_obs[len(cases):]
    drv = ck.driver()
    idx_model = [i for i, o in enumerate(obs_all) if "order" in o]
    model = drv.ask([model_request(cases[i], obs_all[i]["order"]) for i in idx_model])
    if model is None:
        ck.broken.append({"what": "driver Drivers/C17.lean", "detail": drv.broken})
    mo_by_idx = dict(zip(idx_model, model)) if model is not None else {}
    ncsv_cmp = 0
    for idx, (c, o) in enumerate(zip(cases, obs_all)):
        small = {k: c[k] for k in c}
        if "unwritable" in o or "unreadable" in o:
            ck.case(small, tag="skipped:" + ("unwritable" if "unwritable" in o else "unreadable"), nontrivial=False)
            ck.histogram["skip-reason:" + (o.get("unwritable") or o.get("unreadable"))[:60]] = 1
            continue

        def fail(key, what, observed=None, expected=None, _c=small):
            ck.fail(key, what, _c, observed, expected)
        tag = judge(c, o, fail)
        ncsv_cmp += bool(c.get("csv") and c.get("csv_comparable") and "csv" in o)
        nontriv = any(p["flat"] for p in c["node_props"] + c["edge_props"])
        ranks = sorted({len(p["trail"]) + 1 for p in c["node_props"] + c["edge_props"]})
        ck.case(small, tag=f"{tag}|N={len(c['node_ids'])},E={len(c['edges'])}|ranks={ranks}" + ("|csv" if c.get("csv") else ""),
                nontrivial=nontriv)
        if idx in mo_by_idx:
            mo = mo_by_idx[idx]
            if "err" in mo:
                ck.corr_broken("C17:driver", small, o.get("exc"), mo)
            else:
                # the harness' collision classification must be the negation of the theorems' NoCollision
                py_coll = [has_collision(c, "node"), has_collision(c, "edge")]
                if mo.get("collision") != py_coll:
                    ck.corr_broken("C17:noCollisionB", small, py_coll, mo.get("collision"))
                d = compare_model(o, mo)
                if d is not None:
                    ck.corr_broken("C17:geffToDataframes", small,
                                   {k: o.get(k) for k in ("exc", "msg", "nodes", "edges", "warn")}, {"diff": d, "model": mo})
    # ---- export sequences: every step must equal the export of its store alone
    # (GeffProps.C17.C17_history_independent: exportSeq = map geffToDataframes)
    seq_ok = [i for i, so in enumerate(seq_obs) if all("order" in o for o in so["steps"])]
    seq_model = drv.ask([{"op": "seq", "stores": [model_request(c, o["order"]) for c, o in zip(seqs[i]["seq"], seq_obs[i]["steps"])]}
                         for i in seq_ok]) if seq_ok else []
    if seq_model is None:
        ck.broken.append({"what": "driver Drivers/C17.lean (seq)", "detail": drv.broken})
    seq_model_by = dict(zip(seq_ok, seq_model or []))
    n_steps = 0
    for qi, (sq, so) in enumerate(zip(seqs, seq_obs)):
        tags = []
        for si, (step, o) in enumerate(zip(sq["seq"], so["steps"])):
            n_steps += 1
            if "unwritable" in o or "unreadable" in o:
                tags.append("skipped")
                continue

            def fail(key, what, observed=None, expected=None, _si=si, _sq=sq):
                k2 = key if (_si == 0 or key == "C17:column-name-collision") else "C17:history-dependent-output"
                ck.fail(k2, f"step {_si} of an export sequence [{key}]: {what}", _sq, observed, expected)
            tags.append(judge(step, o, fail))
            mo = seq_model_by.get(qi)
            if mo is not None:
                if "err" in mo or len(mo.get("steps", [])) != len(so["steps"]):
                    ck.corr_broken("C17:driver-seq", sq, None, mo)
                    break
                d = None if "err" in mo["steps"][si] else compare_model(o, mo["steps"][si])
                if d is not None:
                    if si > 0:
                        ck.fail("C17:history-dependent-output",
                                f"step {si} of an export sequence differs from the export of its store alone: {d}", sq,
                                {k: o.get(k) for k in ("exc", "msg", "nodes", "edges", "warn")}, mo["steps"][si])
                    else:
                        ck.corr_broken("C17:geffToDataframes(seq step 0)", sq, {k: o.get(k) for k in ("exc", "msg", "nodes", "edges", "warn")},
                                       {"diff": d, "model": mo["steps"][si]})
        ck.case(sq, tag=f"sequence|{len(sq['seq'])} steps|" + ",".join(sorted(set(tags))), nontrivial=True)
    ck.extra["export_sequences"] = len(seqs)
    ck.extra["export_sequence_steps"] = n_steps
    n_skipped = sum(1 for o in obs_all if "unwritable" in o or "unreadable" in o)
    ck.extra["skipped_unwritable_or_unreadable"] = n_skipped
    if n_skipped * 20 > len(obs_all):      # generation dominated by stores the writer/reader refuses
        ck.broken.append({"what": "corr C17:generation", "detail": f"{n_skipped} of {len(obs_all)} generated stores could not be "
                          "written/read back; first reasons: " + "; ".join(sorted({(o.get('unwritable') or o.get('unreadable'))[:80]
                          for o in obs_all if 'unwritable' in o or 'unreadable' in o})[:3])})
    # file-level model of geff_to_csv (which files are written / kept) on the observed scenarios
    scen_reqs, scen_obs = [], []
    for c, o in zip(cases, obs_all):
        for sc in (o.get("csv") or {}).get("scenarios", []):
            scen_reqs.append({"op": "csv", "exists": sc["exists"], "overwrite": sc["overwrite"]})
            scen_obs.append((c, sc))
    scen_model = drv.ask(scen_reqs) if scen_reqs else []
    if scen_model is None:
        ck.broken.append({"what": "driver Drivers/C17.lean (csv)", "detail": drv.broken})
    else:
        for (c, sc), mo in zip(scen_obs, scen_model):
            got = {k: sc[k] for k in ("raised", "nodes", "edges")}
            if "err" in mo or got["raised"] != mo["raised"] or any(
                    got[k] != mo[k] and not (got[k] == "same" and mo[k] in ("old", "new")) for k in ("nodes", "edges")):
                ck.corr_broken("C17:geffToCsv", {"scenario": sc, "case": c}, got, mo)
    ck.extra["partial"] = ("proof for the table construction (rows, column naming, cell alignment, masks, warnings, "
                           "totality) and for which CSV files are written/kept; pandas dtype upcasts and the CSV text "
                           "round trip are differential tests only")
    ck.extra.update({"csv_exports": ncsv, "csv_value_comparisons": ncsv_cmp, "csv_file_scenarios": len(scen_reqs)})
    ck.assumptions += [
        "pandas is exercised, not modelled: a masked integer column is float64 (values generated below 2^53 there), a "
        "masked bool column is object; a stored float NaN and a missing entry are both NaN cells",
        "CSV text round trip (pandas.to_csv / read_csv) is a differential test (partial): compared for columns whose text "
        "pandas re-parses to the same type (no NA tokens / padded strings / float32 / masked uint64 >= 2^63)",
        "zarr group listing order decides the column order; the model is fed the order read_to_memory yields",
        "variable-length properties are outside the quantifier (numeric and string dtypes)",
        "column-name collisions (a property called id/source/target, or `w` (N,k) next to `w_1`) lose a column: known finding",
    ]


def replay(rp):
    c = rp["case"]
    if "seq" in c:
        fails = []
        for si, (step, o) in enumerate(zip(c["seq"], impl_seq(c)["steps"])):
            if "unwritable" not in o and "unreadable" not in o:
                judge(step, o, lambda key, what, observed=None, expected=None, _si=si: fails.append({"step": _si, "key": key, "what": what}))
            print(json.dumps({"step": si, "obs": {k: o.get(k) for k in ("exc", "msg", "nodes", "edges", "warn")}}, default=str)[:3000])
        known = {k["key"] for k in common.load_known() if k["property"] == PROP and k["kind"] == "known"}
        bad = [f for f in fails if f["key"] not in known]
        print(json.dumps({"failures": fails}))
        print("REPLAY: property holds on this input" if not fails else
              ("REPLAY: property FAILS on this input" + ("" if bad else " (known finding)")))
        return 1 if fails else 0
    o = impl_obs(c)
    fails = []
    if "unwritable" not in o and "unreadable" not in o:
        judge(c, o, lambda key, what, observed=None, expected=None: fails.append({"key": key, "what": what}))
    print(json.dumps({"case": c, "obs": {k: o.get(k) for k in ("exc", "msg", "nodes", "edges", "warn", "unwritable", "unreadable")},
                      "csv": o.get("csv"), "failures": fails}, default=str)[:6000])
    known = {k["key"] for k in common.load_known() if k["property"] == PROP and k["kind"] == "known"}
    bad = [f for f in fails if f["key"] not in known]
    print("REPLAY: property holds on this input" if not fails else
          ("REPLAY: property FAILS on this input" + ("" if bad else " (known finding)")))
    return 1 if fails else 0
