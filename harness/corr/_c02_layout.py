"""C02 — the LAYOUT FREEDOM of a variable-length property (second direction: independent writer -> library reader).

docs/specification.md: a variable-length property "will have a `data` array in addition to the `values` and `missing`
arrays"; `data` "will contain a 1D flattened array of the actual values", and the "`values` array will contain the offset
and shape of the relevant section of data".  Nothing else is said about WHERE the sections lie.  A writer other than
geff's may therefore
  * append the elements to `data` in any order (insertion order while the rows are sorted by id, back to front, ...):
    the offsets are a permutation of the running sums, increasing or not;
  * leave unused cells: before the first section (first offset != 0), between sections, after the last one;
  * let rows share cells: equal elements stored once, an element stored as a sub-section of another one (overlap);
  * give a zero-sized element any offset inside `data`; give an element that is marked missing no section at all.
The graph such a store denotes is fixed by the rows alone: element i = data[offset_i : offset_i + prod(shape_i)]
reshaped to shape_i (`Geff.Spec.sectionOf`; theorems in GeffProps/C02Layout.lean).

This module generates that dimension for the direction-2 stream of C02.py (`C02.lay_out` executes a plan):
  `layout_cases`   BOUNDED-EXHAUSTIVE: every size vector over {0,1,2}^n (n = 1..3; some of n = 4) x EVERY permutation of
                   the append order x gap patterns (none / leading / between all / trailing / leading+trailing; thorough:
                   all 0-1 patterns for n <= 3); N-D elements (2-D and 3-D shapes with equal and different sizes, zero extents) x
                   every permutation; shared / nested / repeated elements x every permutation; masks; node and edge side;
                   zarr formats 2 and 3; several data dtypes
  `random_layout_cases`  seeded random graphs with 1-2 variable-length properties of rank 0..3 and a random plan each
Every case carries `masks`: besides read_to_memory (validation on / off) and geff.read (networkx, rustworkx), the store is
read through GeffReader(...).build() unmasked and with those node / edge masks (all-true, one element dropped, a single
element, the empty selection); the masked results are compared with the selected part of the denoted graph.
Element values are pairwise different wherever the class allows it, so that a reader that attributes a section to the
wrong row cannot go unnoticed.
"""
from __future__ import annotations

import itertools

import numpy as np

from harness.corr import C02 as M
from harness.corr import _rw_shared as R

DTYPES = ["int16", "float64", "uint8", "int64", "float32", "bool"]


def _elem(dt, shape, start):
    k = int(np.prod(shape, dtype=np.int64))
    if dt == "bool":
        a = np.array([(start + j) % 3 == 0 for j in range(k)], dtype=bool)
    elif dt.startswith("float"):
        a = np.array([start + j + 0.5 for j in range(k)], dtype=dt)
    else:
        a = np.array([start + j for j in range(k)], dtype=dt)
    return a.reshape(shape)


def _graph(side, elems, missing=None, beside=False, idt="uint16"):
    """`side` ("node" / "edge") carries the variable-length property `poly` with the given elements; node ids unique,
    NOT in increasing order (rows sorted differently from any id order)"""
    k = len(elems)
    n, e = (k, min(k - 1, 2)) if side == "node" else (max(k, 1) + 1, k)
    n = max(n, 1) if side == "edge" else n
    ids = [10 * (i + 1) for i in range(n)]
    if n >= 3:
        ids[0], ids[2] = ids[2], ids[0]
    edges = [[ids[i % n], ids[(i + 1) % n]] for i in range(e)] if n >= 2 else []
    e = len(edges)
    if side == "edge" and e != k:
        return None
    prop = R.enc_prop({"values": R.obj_array(list(elems)), "missing": None if missing is None else np.array(missing, dtype=bool)})
    props = [["poly", prop]]
    if beside:
        props.append(["t", {"values": {"dtype": "int32", "shape": [k], "flat": list(range(5, 5 + k))}, "missing": None}])
    return {"node_ids": {"dtype": idt, "shape": [n], "flat": ids}, "edge_ids": {"dtype": idt, "shape": [e, 2], "flat": [x for ed in edges for x in ed]},
            "node_props": props if side == "node" else [], "edge_props": props if side == "edge" else []}


def _masks(i, n, e, side):
    """two selections per case, rotating through: everything, all but one element, one element, nothing"""
    k = n if side == "node" else e

    def sel(kind, j):
        if kind == "all":
            return [True] * k
        if kind == "none":
            return [False] * k
        if kind == "drop":
            return [x != j % max(k, 1) for x in range(k)]
        return [x == j % max(k, 1) for x in range(k)]
    kinds = [("all", "drop"), ("only", "all"), ("drop", "none"), ("drop", "only")][i % 4]
    return [{side: sel(kd, i // 4 + t)} for t, kd in enumerate(kinds)]


def _case(rng, i, tag, side, elems, plan, fmt=None, missing=None, beside=False):
    g = _graph(side, elems, missing, beside)
    if g is None:
        return None
    enc = M.draw_encoding(rng, g)
    enc.update(fmt=fmt or 2 + i % 2, store="mem", strings="fixed", vlen_values_dtype="uint64", vlen_layout="free",
               vlen_plan={f"{side}s:poly": plan})
    return {"g": g, "enc": enc, "origin": f"layout:{tag}:{side}", "direction": 2,
            "masks": _masks(i, g["node_ids"]["shape"][0], g["edge_ids"]["shape"][0], side)}


def gap_patterns(n, mode, i):
    """(gaps per appended element, trailing) — "named": none / leading / before every element / trailing / leading+trailing;
    "rotate": none + one of the others in rotation; "all": every 0/1 pattern + the two with wider gaps"""
    named = [([0] * n, 0), ([1] + [0] * (n - 1), 0), ([1] * n, 0), ([0] * n, 2), ([2] + [0] * (n - 1), 1)]
    if mode == "all":
        return [(list(p[:n]), p[n]) for p in itertools.product([0, 1], repeat=n + 1)] + [named[3], named[4]]
    if mode == "named":
        return named
    return [named[0], named[1 + i % 4]]


def layout_cases(rng, quick):
    cases = []
    i = 0

    def add(tag, side, elems, plan, **kw):
        nonlocal i
        i += 1
        c = _case(rng, i, tag, side, elems, plan, **kw)
        if c is not None:
            cases.append(c)
    # ---- 1-D elements: every size vector x every append order x gap patterns
    vectors = [v for n in (1, 2, 3) for v in itertools.product([0, 1, 2], repeat=n)]
    vectors += [(1, 2, 1, 2), (2, 2, 2, 2), (0, 1, 0, 3)] if quick else list(itertools.product([1, 2], repeat=4)) + [(0, 1, 0, 3), (2, 0, 0, 1), (0, 0, 2, 0)]
    for vi, sizes in enumerate(vectors):
        n = len(sizes)
        dt = DTYPES[vi % 5]        # pairwise different values: not bool
        elems = [_elem(dt, (s,), 10 * (j + 1)) for j, s in enumerate(sizes)]
        for order in itertools.permutations(range(n)):
            for gaps, trail in gap_patterns(n, ("all" if n <= 3 else "rotate") if not quick else "named" if n == 1 else "rotate", i)[: 1 if quick and n == 4 else None]:
                packed = not any(gaps) and not trail
                side = "node" if (i + vi) % 3 else "edge"
                plan = {"order": list(order), "gaps": gaps, "trail": trail}
                # the sections tile `data` (no unused cell): both zarr formats
                for fmt in ((2, 3) if packed and ((n == 3 and 0 not in sizes) or not quick) else (None,)):
                    add(f"1d:n{n}:{'tiling' if packed else 'gaps'}:{'row-order' if list(order) == sorted(order) else 'permuted'}",
                        side, elems, plan, fmt=fmt)
    # ---- N-D elements (one rank per property): equal sizes with different shapes, different sizes, zero extents
    nd_lists = [[(1, 2), (2, 1), (2, 2)], [(2, 2), (2, 2), (2, 2)], [(0, 2), (2, 0), (1, 1)], [(2, 3), (1, 1), (3, 2)],
                [(2, 1, 1), (1, 1, 2), (1, 2, 1)], [(1, 2, 2), (2, 1, 2), (0, 1, 1)], [(1, 1), (2, 2)], [()] * 3, [(3, 1)]]
    for li, shapes in enumerate(nd_lists):
        n = len(shapes)
        dt = DTYPES[li % 5]
        elems = [_elem(dt, sh, 20 * (j + 1)) for j, sh in enumerate(shapes)]
        for order in itertools.permutations(range(n)):
            for gaps, trail in gap_patterns(n, "rotate" if quick else "all", i):
                for side in (("node", "edge")[(i + li) % 2:][:1] if quick else ("node", "edge")):
                    add(f"nd{len(shapes[0])}:n{n}:{'tiling' if not any(gaps) and not trail else 'gaps'}:"
                        f"{'row-order' if list(order) == sorted(order) else 'permuted'}", side, elems,
                        {"order": list(order), "gaps": gaps, "trail": trail})
    # ---- shared / overlapping sections: equal elements, elements contained in one another (the row points into the
    #      cells of an element appended earlier: depends on the order, so every order)
    share_lists = [("nested", "int16", [[1, 2, 3], [2, 3], [3], [1, 2, 3]]), ("equal", "float64", [[5.5, 6.5], [5.5, 6.5], [5.5, 6.5]]),
                   ("prefix", "uint8", [[4, 5], [4], [4, 5, 6]]), ("bools", "bool", [[True, False], [False], [True, False, True]]),
                   ("with-empty", "int64", [[9, 8], [], [8], [9, 8]])]
    for tag, dt, lists in share_lists:
        elems = [np.array(x, dtype=dt) for x in lists]
        n = len(elems)
        for order in itertools.permutations(range(n)):
            for gaps, trail in ([([0] * n, 0), ([1] + [0] * (n - 1), 1)] if not quick or n <= 3 else [([0] * n, 0)]):
                add(f"shared:{tag}:n{n}", "node" if i % 2 else "edge", elems, {"order": list(order), "gaps": gaps, "trail": trail, "share": True})
    elems2 = [np.array(x, dtype="int16").reshape(2, -1) for x in ([1, 2, 3, 4], [1, 2], [1, 2, 3, 4, 5, 6])]
    for order in itertools.permutations(range(3)):
        add("shared:nd2:n3", "node", elems2, {"order": list(order), "gaps": [0, 0, 0], "trail": 0, "share": True})
    # ---- masks: missing elements keep their section / get no section at all; a dense property beside
    for sizes in ([(2, 2, 2), (1, 2)] if quick else [(2, 2, 2), (1, 2, 3), (2, 0, 2), (1, 1), (1, 2)]):
        n = len(sizes)
        elems = [_elem("int32", (s,), 30 * (j + 1)) for j, s in enumerate(sizes)]
        for order in itertools.permutations(range(n)):
            for missing in [m for m in itertools.product([False, True], repeat=n) if any(m)][:: (2 if quick else 1)]:
                for unplaced in (False, True):
                    add(f"missing:{'unplaced' if unplaced else 'placed'}:n{n}", "node" if i % 2 else "edge", elems,
                        {"order": list(order), "gaps": [0] * n, "trail": 0, "missing_unplaced": unplaced}, missing=list(missing), beside=bool(i % 3 == 0))
    return cases


def random_layout_cases(rng, count):
    """seeded random: small graphs, 1-2 variable-length properties (rank 0..3, any non-string dtype, random masks) on either
    side, a random plan for each (`C02.draw_plan`), random encodings otherwise"""
    cases = []
    while len(cases) < count:
        n = rng.randint(1, 7)
        ids = rng.sample(range(0, 200), n)
        e = rng.randint(0, min(8, n * (n - 1)))
        seen, edges = set(), []
        for _ in range(e):
            u, v = rng.sample(ids, 2) if n >= 2 else (ids[0], ids[0])
            if n >= 2 and (u, v) not in seen and (v, u) not in seen:
                seen.add((u, v))
                edges.append([u, v])
        idt = rng.choice(["uint8", "int16", "uint32", "int64", "uint64"])
        g = {"node_ids": {"dtype": idt, "shape": [n], "flat": ids},
             "edge_ids": {"dtype": idt, "shape": [len(edges), 2], "flat": [x for ed in edges for x in ed]}, "node_props": [], "edge_props": []}
        plans = {}
        for side, k in (("node", n), ("edge", len(edges))):
            for name in rng.sample(["poly", "mask", "track"], rng.choice([0, 1, 1, 2])):
                dt = rng.choice(["int8", "int16", "int32", "int64", "uint8", "uint16", "uint32", "uint64", "float32", "float64", "bool"])
                ndim = rng.choice([0, 1, 1, 1, 2, 2, 3])
                small = rng.random() < 0.5          # small value range: equal / nested elements occur (sharing)
                elems = []
                for j in range(k):
                    sh = [rng.choice([0, 1, 2, 2, 3]) for _ in range(ndim)]
                    if small and dt != "bool":
                        a = np.array([rng.randint(0, 2) for _ in range(R.prod(sh))], dtype=dt).reshape(sh)
                    elif dt == "bool":
                        a = np.array([rng.random() < 0.5 for _ in range(R.prod(sh))], dtype=bool).reshape(sh)
                    else:
                        a = (np.arange(R.prod(sh)) + 10 * j + 1).astype(dt).reshape(sh)
                    elems.append(R.enc_arr(a))
                g[f"{side}_props"].append([name, {"values": {"obj": elems}, "missing": R.rand_missing(rng, k) if rng.random() < 0.4 else None}])
                plans[f"{side}s:{name}"] = M.draw_plan(rng, k)
        if not plans:
            continue
        enc = M.draw_encoding(rng, g)
        enc.update(vlen_layout="free", vlen_plan=plans, strings="fixed", vlen_values_dtype="uint64")   # the int64 table: counted in the general stream
        masks = []
        for _ in range(2):
            masks.append({"node": [rng.random() < 0.6 for _ in range(n)] if rng.random() < 0.7 else None,
                          "edge": [rng.random() < 0.6 for _ in range(len(edges))] if rng.random() < 0.5 else None})
        cases.append({"g": g, "enc": enc, "origin": "layout:random", "direction": 2, "masks": masks})
    return cases


def layout_tag(case):
    enc = case["enc"]
    return ":".join(case["origin"].split(":")[:4]) + f":v{enc['fmt']}"
