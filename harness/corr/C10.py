"""C10 — written metadata truthfully describes the stored data.

Implementation: write_arrays, write_dicts, geff.write for networkx / rustworkx / spatial-graph
(geff_spec.utils: create_props_metadata, add_or_update_props_metadata,
compute_and_add_axis_min_max, create_or_update_metadata, update_metadata_axes, axes_from_lists).
Model: Geff.MetaW (lean/GeffModel/MetaWrite.lean) through Drivers/C10.lean; theorems in
GeffProps/C10.lean.  Verdicts per case:
  * S-oracle (plain Python on attrs['geff'] of the real store and on the RAW stored arrays, exact
    rational arithmetic, independent of the model): one props-metadata entry per stored property
    with the stored dtype / var-length flag, caller unit/name/description kept, directed flag,
    axis min/max = min/max of the stored coordinate, pass-through fields unchanged  -> ck.fail
  * the Lean model on the same inputs must predict the stored metadata and the stored property
    groups, or the same exception class                                          -> corr_broken
Coordinates travel to Lean as integers: every float of a case is an exact binary fraction and the
harness multiplies all of them by the common power-of-two denominator.
"""
from __future__ import annotations

import copy
import json
from fractions import Fraction

import numpy as np

from harness import common

PROP = "C10"
REST_KEYS = ("sphere", "ellipsoid", "track_node_props", "related_objects", "display_hints", "extra")
AXIS_PASS = ("name", "type", "unit", "scale", "scaled_unit", "offset")
LIST_KEYS = {"units": "axis_units", "types": "axis_types", "scales": "axis_scales",
             "scaled_units": "scaled_units", "offset": "axis_offset"}


def dtype_name(dt):
    dt = np.dtype(dt)
    return "str" if np.issubdtype(dt, np.str_) else dt.name


def ftok(x):
    return None if x is None else repr(float(x))


INF = float("inf")


def xfrac(x):
    """exact value of a number or of its string form: a Fraction, or the float +-inf (Python orders a Fraction
    against +-inf correctly, so min / max / == work on mixed lists); NaN is outside the domain"""
    if isinstance(x, str):
        return INF if x == "inf" else -INF if x == "-inf" else Fraction(x)
    if isinstance(x, float) and x in (INF, -INF):
        return x
    return Fraction(x)


def xstr(x):
    v = xfrac(x)
    return ("inf" if v > 0 else "-inf") if isinstance(v, float) else str(v)


# ----------------------------------------------------------------- case -> python objects
def np_prop(p, n):
    if p["kind"] == "fixed":
        v = np.array(p["values"], dtype=p["dtype"]).reshape([n] + p["trail"])
    else:
        v = np.empty(n, dtype=object)
        for i, e in enumerate(p["values"]):
            v[i] = np.array(e["flat"], dtype=e.get("dtype", p["dtype"])).reshape(e["shape"])
    m = None if p.get("missing") is None else np.array(p["missing"], dtype=bool)
    return {"values": v, "missing": m}


def build_md(spec):
    from geff_spec import Axis, DisplayHint, GeffMetadata, PropMetadata, RelatedObject

    if spec is None:
        return None
    axes = None if spec.get("axes") is None else [Axis(**a) for a in spec["axes"]]
    return GeffMetadata(
        directed=spec["directed"], axes=axes,
        node_props_metadata={p["identifier"]: PropMetadata(**p) for p in spec.get("nprops", [])},
        edge_props_metadata={p["identifier"]: PropMetadata(**p) for p in spec.get("eprops", [])},
        sphere=spec.get("sphere"), ellipsoid=spec.get("ellipsoid"), track_node_props=spec.get("track_node_props"),
        related_objects=None if spec.get("related_objects") is None else [RelatedObject(**r) for r in spec["related_objects"]],
        display_hints=None if spec.get("display_hints") is None else DisplayHint(**spec["display_hints"]),
        extra=spec.get("extra", {}))


def list_kwargs(ls):
    if ls is None:
        return {}
    kw = {}
    if ls.get("names") is not None:
        kw["axis_names"] = list(ls["names"])
    for k, arg in LIST_KEYS.items():
        if ls.get(k) is not None:
            kw[arg] = list(ls[k])
    return kw


def node_dicts(g):
    """[(id, {prop: python value})] honouring the missing masks (missing = key absent)"""
    def rows(props, n):
        out = [dict() for _ in range(n)]
        for p in props:
            arr = np_prop(p, n)
            for i in range(n):
                if arr["missing"] is not None and arr["missing"][i]:
                    continue
                v = arr["values"][i]
                out[i][p["name"]] = v if p["kind"] == "vlen" else (v.tolist() if isinstance(v, np.ndarray) else v.item())
        return out
    nd = rows(g["nprops"], len(g["ids"]))
    ed = rows(g["eprops"], len(g["edges"]))
    return list(zip(g["ids"], nd)), list(zip([tuple(e) for e in g["edges"]], ed))


SG_SIG = {"r": "float32"}, {"w": "int16"}


def sg_graph(g, directed, ndims):
    import spatial_graph as sg

    G = sg.create_graph(ndims=ndims, node_dtype="uint64", node_attr_dtypes={"position": f"float64[{ndims}]", **SG_SIG[0]},
                        edge_attr_dtypes=dict(SG_SIG[1]), position_attr="position", directed=directed)
    n = len(g["ids"])
    if n:
        byname = {p["name"]: np_prop(p, n)["values"] for p in g["nprops"]}
        G.add_nodes(np.array(g["ids"], np.uint64), position=byname["position"].astype(np.float64), r=byname["r"].astype(np.float32))
        if g["edges"]:
            w = np_prop(g["eprops"][0], len(g["edges"]))["values"].astype(np.int16)
            G.add_edges(np.array(g["edges"], np.uint64), w=w)
    return G


# ----------------------------------------------------------------- run the implementation
def raw_groups(root):
    out = {}
    for grp in ("nodes", "edges"):
        if "props" not in root[grp]:
            out[grp] = None
            continue
        d = {}
        pg = root[grp]["props"]
        for name in pg.group_keys():
            q = pg[name]
            v = q["values"]
            entry = {"dtype": dtype_name(q["data"].dtype if "data" in q else v.dtype), "has_data": "data" in q,
                     "has_missing": "missing" in q, "len": int(v.shape[0]), "ndim": len(v.shape)}
            if "data" not in q and np.dtype(v.dtype).kind in "biuf":
                entry["values"] = [xstr(x) for x in np.asarray(v[...]).ravel().tolist()]
                if "missing" in q:
                    entry["missing"] = [bool(x) for x in q["missing"][...]]
            d[name] = entry
        out[grp] = d
    return out


def run_impl(case, md_obj=None):
    """one write; `md_obj` = an existing GeffMetadata object to pass instead of a fresh one (write histories)"""
    import warnings

    import zarr

    import geff
    from geff.core_io import write_arrays, write_dicts
    from geff.core_io._base_write import dict_props_to_arr

    warnings.simplefilter("ignore")
    g = case["graph"]
    entry = case["entry"]
    ids = np.array(g["ids"], dtype=g.get("id_dtype", "uint64"))
    edges = np.array(g["edges"], dtype=ids.dtype).reshape(-1, 2)
    store = zarr.storage.MemoryStore()
    md = build_md(case.get("md")) if md_obj is None else md_obj
    md_before = None if md is None else md.model_dump(mode="json")
    obs = {"model_props": None}
    fmt = case.get("fmt", 2)
    try:
        if entry == "write_arrays":
            npr = None if case.get("node_props_none") else {p["name"]: np_prop(p, len(ids)) for p in g["nprops"]}
            epr = None if case.get("edge_props_none") else {p["name"]: np_prop(p, len(edges)) for p in g["eprops"]}
            obs["model_props"] = (props_json(npr), props_json(epr))
            write_arrays(store, ids, npr, edges, epr, md, node_props_unsquish=copy.deepcopy(case.get("unsquish")),
                         zarr_format=fmt, structure_validation=case.get("validate", True))
        elif entry == "write_dicts":
            nd, ed = node_dicts(g)
            nn, en = [p["name"] for p in g["nprops"]], [p["name"] for p in g["eprops"]]
            obs["model_props"] = (props_json(dict_props_to_arr(nd, nn)), props_json(dict_props_to_arr(ed, en)))
            write_dicts(store, nd, ed, nn, en, md, zarr_format=fmt)
        elif entry in ("nx", "rx"):
            nd, ed = node_dicts(g)
            if entry == "nx":
                import networkx as nx

                G = nx.DiGraph() if case["directed"] else nx.Graph()
                G.add_nodes_from((i, d) for i, d in nd)
                G.add_edges_from((u, v, d) for (u, v), d in ed)
                nd2 = list(G.nodes(data=True))
                ed2 = [((u, v), d) for u, v, d in G.edges(data=True)]
                extra = {}
            else:
                import rustworkx as rx

                G = rx.PyDiGraph() if case["directed"] else rx.PyGraph()
                idx = G.add_nodes_from([d for _, d in nd])
                to_rx = dict(zip([i for i, _ in nd], idx))
                G.add_edges_from([(to_rx[u], to_rx[v], d) for (u, v), d in ed])
                back = {v: k for k, v in to_rx.items()}
                nd2 = [(back[i], d) for i, d in zip(G.node_indices(), G.nodes())] if nd else []
                ed2 = [((back[u], back[v]), d) for u, v, d in G.weighted_edge_list()] if nd else []
                extra = {"node_id_dict": back}
            nn = sorted({k for _, d in nd2 for k in d})
            en = sorted({k for _, d in ed2 for k in d})
            obs["model_props"] = (props_json(dict_props_to_arr(nd2, nn)), props_json(dict_props_to_arr(ed2, en)))
            obs["n_e"] = (len(nd2), len(ed2))
            geff.write(G, store, metadata=md, zarr_format=fmt, **list_kwargs(case.get("lists")), **extra)
        elif entry == "sg":
            G = sg_graph(g, case["directed"], case["ndims"])
            npr = {name: {"values": getattr(G.node_attrs[G.nodes], name), "missing": None} for name in G.node_attr_dtypes.keys()}
            epr = {name: {"values": getattr(G.edge_attrs[G.edges], name), "missing": None} for name in G.edge_attr_dtypes.keys()}
            obs["model_props"] = (props_json(npr), props_json(epr))
            obs["n_e"] = (len(G.nodes), len(G.edges))
            rmin, rmax = G.roi
            obs["roi"] = ([xstr(float(x)) for x in rmin], [xstr(float(x)) for x in rmax])
            geff.write(G, store, metadata=md, zarr_format=fmt, **list_kwargs(case.get("lists")))
        else:
            raise RuntimeError(entry)
    except Exception as ex:  # noqa: BLE001
        obs["exc"] = type(ex).__name__
        obs["mro"] = [c.__name__ for c in type(ex).__mro__]
        obs["msg"] = str(ex)[:200]
        return obs
    root = zarr.open_group(store, mode="r")
    obs["attrs"] = json.loads(json.dumps(dict(root.attrs["geff"])))
    obs["raw"] = raw_groups(root)
    obs["md_unchanged"] = md is None or md.model_dump(mode="json") == md_before
    return obs


def props_json(d):
    """numpy property dict -> the model's view (exact fractions as strings; scaled later)"""
    if d is None:
        return None
    out = []
    for name, p in d.items():
        v = p["values"]
        if v.dtype == object:
            vals = {"object": [[dtype_name(e.dtype), e.ndim] if isinstance(e, np.ndarray) else ["object", 0] for e in v]}
        else:
            w = int(np.prod(v.shape[1:], dtype=np.int64))
            if v.dtype.kind in "biuf":
                flat = [xstr(x) for x in v.ravel().tolist()]
            else:
                flat = ["0"] * v.size
            vals = {"dense": {"dtype": dtype_name(v.dtype), "trail": list(v.shape[1:]),
                              "rows": [flat[i * w:(i + 1) * w] for i in range(v.shape[0])]}}
        m = p["missing"]
        out.append({"name": name, "values": vals, "missing": None if m is None else [bool(x) for x in m]})
    return out


# ----------------------------------------------------------------- model request
def collect_fracs(case, obs):
    fr = []
    for props in obs["model_props"] or ():
        for p in props or ():
            if "dense" in p["values"]:
                fr += [xfrac(x) for r in p["values"]["dense"]["rows"] for x in r]
    for a in ((case.get("md") or {}).get("axes") or ()):
        fr += [xfrac(a[k]) for k in ("min", "max") if a.get(k) is not None]
    for side in obs.get("roi", ()):
        fr += [xfrac(x) for x in side]
    return fr


def scale_of(fracs):
    """(common power-of-two denominator, sentinel): the model only ORDERS coordinates, so +-inf travel as the
    integers +-sentinel, strictly beyond every finite scaled value of the case"""
    d = 1
    for f in fracs:
        if not isinstance(f, float):
            d = max(d, f.denominator)
    big = 1 + max([abs(int(f * d)) for f in fracs if not isinstance(f, float)] + [0])
    return (d, big)


def sint(x, sc):
    d, big = sc if isinstance(sc, tuple) else (sc, None)
    v = xfrac(x)
    if isinstance(v, float):
        assert big is not None, "infinite value without a sentinel"
        v = big if v > 0 else -big
    else:
        v = v * d
        assert v.denominator == 1
        v = int(v)
        assert big is None or abs(v) < big, "finite value beyond the sentinel"
    return v if abs(v) < 2**53 else str(v)


def md_json(spec, d, version):
    if spec is None:
        return None
    hints = [v for k, v in (spec.get("display_hints") or {}).items() if v is not None]
    full = build_md(spec).model_dump(mode="json")
    return {"version": version, "directed": spec["directed"],
            "axes": None if spec.get("axes") is None else [axis_json(a, d) for a in spec["axes"]],
            "nprops": [pm_json(p) for p in full["node_props_metadata"].values()],
            "eprops": [pm_json(p) for p in full["edge_props_metadata"].values()],
            "hints": hints, "rest": json.dumps({k: full[k] for k in REST_KEYS}, sort_keys=True)}


def pm_json(p):
    return {k: p.get(k) for k in ("identifier", "dtype", "varlength", "unit", "name", "description")} | \
        {"varlength": bool(p.get("varlength", False))}


def axis_json(a, d):
    return {"name": a["name"], "type": a.get("type"), "unit": a.get("unit"),
            "min": None if a.get("min") is None else sint(a["min"], d), "max": None if a.get("max") is None else sint(a["max"], d),
            "scale": ftok(a.get("scale")), "scaled_unit": a.get("scaled_unit"), "offset": ftok(a.get("offset"))}


def scaled_props(props, d):
    if props is None:
        return None
    out = []
    for p in props:
        q = dict(p)
        if "dense" in p["values"]:
            dn = p["values"]["dense"]
            q["values"] = {"dense": {**dn, "rows": [[sint(x, d) for x in r] for r in dn["rows"]]}}
        out.append(q)
    return out


def lists_json(ls):
    if ls is None:
        return None
    out = {"names": ls.get("names")}
    for k in ("units", "types", "scaled_units"):
        out[k] = ls.get(k)
    for k in ("scales", "offset"):
        out[k] = None if ls.get(k) is None else [ftok(x) for x in ls[k]]
    return out


def model_request(case, obs, version):
    d = scale_of(collect_fracs(case, obs))
    g = case["graph"]
    n, e = obs.get("n_e", (len(g["ids"]), len(g["edges"])))
    npr, epr = obs["model_props"]
    rq = {"op": case["entry"], "version": version, "md": md_json(case.get("md"), d, version), "directed": case.get("directed", False),
          "lists": lists_json(case.get("lists")), "n": n, "e": e, "nprops": scaled_props(npr, d), "eprops": scaled_props(epr, d),
          "validate": case.get("validate", True)}
    if case["entry"] == "write_arrays" and case.get("unsquish"):
        rq["nunsq"] = [{"name": k, "names": v} for k, v in case["unsquish"].items()]
    if case["entry"] == "sg":
        rq |= {"ndims": case["ndims"], "pos": "position", "roi_min": [sint(x, d) for x in obs["roi"][0]],
               "roi_max": [sint(x, d) for x in obs["roi"][1]]}
    return rq, d


# ----------------------------------------------------------------- canonical forms for the comparison
def canon_impl(attrs, raw, d):
    def axes(l):
        return None if l is None else [{"name": a["name"], "type": a.get("type"), "unit": a.get("unit"),
                                        "min": None if a.get("min") is None else sint(a["min"], d),
                                        "max": None if a.get("max") is None else sint(a["max"], d),
                                        "scale": ftok(a.get("scale")), "scaled_unit": a.get("scaled_unit"),
                                        "offset": ftok(a.get("offset"))} for a in l]

    def grp(gd):
        return None if gd is None else sorted(({"name": k, **{f: v[f] for f in ("dtype", "has_data", "has_missing", "len", "ndim")}}
                                               for k, v in gd.items()), key=lambda s: s["name"])
    hints = [v for v in (attrs.get("display_hints") or {}).values() if v is not None]
    return {"md": {"version": attrs["geff_version"], "directed": attrs["directed"], "axes": axes(attrs.get("axes")),
                   "nprops": {k: {"key": k, **pm_json(v)} for k, v in attrs["node_props_metadata"].items()},
                   "eprops": {k: {"key": k, **pm_json(v)} for k, v in attrs["edge_props_metadata"].items()},
                   "hints": sorted(hints), "rest": json.dumps({k: attrs.get(k) for k in REST_KEYS}, sort_keys=True)},
            "nodes": grp(raw["nodes"]), "edges": grp(raw["edges"])}


def canon_model(w, rest_default):
    md = w["md"]
    return {"md": {"version": md["version"], "directed": md["directed"], "axes": md["axes"],
                   "nprops": {p["key"]: p for p in md["nprops"]}, "eprops": {p["key"]: p for p in md["eprops"]},
                   "hints": sorted(md["hints"]), "rest": md["rest"] or rest_default},
            "nodes": None if w["nodes"] is None else sorted(w["nodes"], key=lambda s: s["name"]),
            "edges": None if w["edges"] is None else sorted(w["edges"], key=lambda s: s["name"])}


# ----------------------------------------------------------------- S-oracle (model-free)
def intended_axes(case):
    """the caller-supplied axis fields that must be stored unchanged (None = the caller gave no axes)"""
    md, ls, entry = case.get("md"), case.get("lists") or {}, case["entry"]
    mdax = None if md is None or md.get("axes") is None else md["axes"]
    names = ls.get("names")
    if entry in ("write_arrays", "write_dicts") or (names is None and entry in ("nx", "rx")):
        src = mdax
        return None if src is None else [{k: a.get(k) for k in AXIS_PASS} for a in src]
    key = {"type": "types", "unit": "units", "scale": "scales", "scaled_unit": "scaled_units", "offset": "offset"}
    if names is not None:
        return [{"name": nm, **{f: (ls[k][i] if ls.get(k) is not None else None) for f, k in key.items()}}
                for i, nm in enumerate(names)]
    if mdax is None:          # sg, empty graph, nothing given
        return None
    return [{"name": a["name"], **{f: (ls[k][i] if ls.get(k) is not None else a.get(f)) for f, k in key.items()}}
            for i, a in enumerate(mdax)]


def lists_well_formed(case):
    ls = case.get("lists") or {}
    names = ls.get("names")
    n = len(names) if names is not None else len(((case.get("md") or {}).get("axes")) or [])
    return all(ls.get(k) is None or len(ls[k]) == n for k in LIST_KEYS)


def oracle(ck, case, obs):
    """check the stored metadata of a SUCCESSFUL write against the raw arrays and the caller's input"""
    attrs, raw = obs["attrs"], obs["raw"]
    md = case.get("md")
    small = case
    validated = case.get("validate", True)   # the property speaks about writes that passed validation
    for grp, key, caller in (("nodes", "node_props_metadata", "nprops"), ("edges", "edge_props_metadata", "eprops")):
        stored = raw[grp] or {}
        meta = attrs[key]
        if set(meta) != set(stored) and not validated:
            meta = {k: v for k, v in meta.items() if k in stored}
        if set(meta) != set(stored):
            stale = sorted(set(meta) - set(stored))
            k = "C10:stale-entry-without-props-group" if (stale and raw[grp] is None) else "C10:props-metadata-keys"
            ck.fail(k, f"{grp}: metadata lists {sorted(meta)} but the store holds {sorted(stored)}", small,
                    sorted(meta), sorted(stored))
            continue
        given = {p["identifier"]: p for p in (md or {}).get(caller, [])}
        for name, st in stored.items():
            pm = meta[name]
            if pm.get("identifier") != name:
                ck.fail("C10:props-metadata-identifier", f"{grp}/{name}: identifier {pm.get('identifier')}", small, pm, name)
            if pm["dtype"] != st["dtype"]:
                ck.fail("C10:props-metadata-dtype", f"{grp}/{name}: metadata dtype {pm['dtype']}, stored {st['dtype']}", small, pm, st)
            if bool(pm.get("varlength", False)) != st["has_data"]:
                ck.fail("C10:props-metadata-varlength", f"{grp}/{name}: varlength {pm.get('varlength')}, data array {st['has_data']}", small, pm, st)
            want = {k: (given[name].get(k) if name in given else None) for k in ("unit", "name", "description")}
            got = {k: pm.get(k) for k in ("unit", "name", "description")}
            if got != want:
                ck.fail("C10:props-metadata-userfields", f"{grp}/{name}: unit/name/description {got}, caller gave {want}", small, got, want)
    want_dir = md["directed"] if case["entry"] in ("write_arrays", "write_dicts") else case["directed"]
    if attrs["directed"] != want_dir:
        ck.fail("C10:directed", f"directed stored as {attrs['directed']}, graph is {want_dir}", small, attrs["directed"], want_dir)
    # axis ranges
    nnodes = obs.get("n_e", (len(case["graph"]["ids"]), 0))[0]
    for a in attrs.get("axes") or []:
        st = (raw["nodes"] or {}).get(a["name"])
        if nnodes > 0 and st is not None and "values" in st:
            vals = [xfrac(x) for x in st["values"]]
            if vals and (a.get("min") is None or a.get("max") is None or xfrac(a["min"]) != min(vals) or xfrac(a["max"]) != max(vals)):
                ck.fail("C10:axis-range", f"axis {a['name']}: stored min/max {a.get('min')}/{a.get('max')}, coordinates span "
                        f"{float(min(vals))}..{float(max(vals))}", small, [a.get("min"), a.get("max")], [float(min(vals)), float(max(vals))])
        elif nnodes > 0 and validated:
            ck.fail("C10:axis-without-coordinate", f"axis {a['name']} has no numeric fixed-shape node property", small, a, None)
    # pass-through
    want_axes = intended_axes(case) if lists_well_formed(case) else None
    got_axes = None if attrs.get("axes") is None else [{k: a.get(k) for k in AXIS_PASS} for a in attrs["axes"]]
    if lists_well_formed(case) and (got_axes or None) != (want_axes or None):
        dropped = got_axes is not None and want_axes is not None and [a["name"] for a in got_axes] == [a["name"] for a in want_axes]
        ck.fail("C10:axis-fields-changed" if dropped else "C10:axes-changed",
                "caller-supplied axis name/type/unit/scale/scaled_unit/offset not stored unchanged", small, got_axes, want_axes)
    if md is not None:
        full = build_md(md).model_dump(mode="json")
        for k in REST_KEYS:
            if attrs.get(k) != full[k]:
                ck.fail("C10:passthrough-" + k, f"{k} stored as {attrs.get(k)}, caller gave {full[k]}", small, attrs.get(k), full[k])
    if not lists_well_formed(case):
        ck.fail("C10:axis-list-length-unchecked", "an axis_* list whose length differs from the number of axes was accepted "
                "(documented: ValueError)", small, "written", "ValueError")


# ----------------------------------------------------------------- generators
COORDS = [0.0, -0.0, 0.25, 1.5, -2.75, 3.0, 7.0, 100.5, -64.0, 12.0, 0.125]


def coord_vals(rng, dtype, n, big=False):
    if dtype.startswith("float"):
        pool = COORDS + ([1e300, -1e300, 2.0**-30, 2.0**60] if big and dtype == "float64" else [])
        return [rng.choice(pool) + rng.randint(-3, 3) for _ in range(n)] if not big else [rng.choice(pool) for _ in range(n)]
    if dtype == "bool":
        return [rng.random() < 0.5 for _ in range(n)]
    if dtype.startswith("uint"):
        return [rng.randint(0, 200) for _ in range(n)]
    return [rng.randint(-100, 100) for _ in range(n)]


def with_infinities(rng, vals, p=0.12):
    """unbounded coordinates: -inf / +inf at one end, at both ends, or everywhere (NaN stays outside the domain)"""
    if not vals or rng.random() >= p:
        return vals
    vals = list(vals)
    mode = rng.choice(["lo", "hi", "both", "both", "all+", "all-", "mixed"])
    idx = list(range(len(vals)))
    rng.shuffle(idx)
    if mode == "lo":
        vals[idx[0]] = -INF
    elif mode == "hi":
        vals[idx[0]] = INF
    elif mode == "both" and len(vals) >= 2:
        vals[idx[0]], vals[idx[1]] = -INF, INF
    elif mode == "all+":
        vals = [INF] * len(vals)
    elif mode == "all-":
        vals = [-INF] * len(vals)
    else:
        vals = [rng.choice([INF, -INF, v]) for v in vals]
    return vals


def other_prop(rng, name, n, allow_vlen=True, allow_missing=True):
    kind = rng.choice(["fixed", "fixed", "fixed", "vlen"]) if allow_vlen else "fixed"
    missing = [rng.random() < 0.4 for _ in range(n)] if (allow_missing and rng.random() < 0.4) else None
    if kind == "vlen":
        dt = rng.choice(["int64", "float64", "uint8", "float32"])
        elems = []
        for i in range(n):
            k = rng.choice([0, 1, 2, 3])
            elems.append({"shape": [k], "flat": coord_vals(rng, dt, k)})
        return {"name": name, "kind": "vlen", "dtype": dt, "values": elems, "missing": missing}
    dt = rng.choice(["float64", "float32", "float16", "int64", "int8", "uint16", "bool", "str"])
    trail = rng.choice([[], [], [2], [2, 2]])
    w = int(np.prod(trail, dtype=np.int64))
    vals = [f"s{i}" for i in range(n * w)] if dt == "str" else coord_vals(rng, dt if dt != "float16" else "float32", n * w)
    return {"name": name, "kind": "fixed", "dtype": dt, "trail": trail, "values": vals, "missing": missing}


def gen_graph(rng, n, e, axis_names, big=False, dict_entry=False):
    ids = rng.sample(range(0, 200), n)
    edges = []
    if n:
        seen = set()
        for _ in range(e):
            u, v = rng.choice(ids), rng.choice(ids)
            if u != v and (u, v) not in seen and (v, u) not in seen:
                seen.add((u, v))
                edges.append([u, v])
    nprops = []
    for ax in axis_names:
        dt = rng.choice(["float64", "float64", "float32", "int64", "uint8"]) if not dict_entry else rng.choice(["float64", "int64"])
        cv = coord_vals(rng, dt, n, big)
        if dt.startswith("float"):
            cv = with_infinities(rng, cv)
        nprops.append({"name": ax, "kind": "fixed", "dtype": dt, "trail": [], "values": cv, "missing": None})
    for k in range(rng.randint(0, 3)):
        nprops.append(other_prop(rng, f"p{k}", n, allow_vlen=not dict_entry or n > 0))
    eprops = [other_prop(rng, f"q{k}", len(edges)) for k in range(rng.randint(0, 2))]
    if dict_entry:
        # python values: dict_props_to_arr infers the dtype; keep what numpy can infer back
        for p in nprops + eprops:
            if p["kind"] == "fixed" and p["dtype"] not in ("float64", "int64", "bool", "str"):
                p["dtype"] = "float64" if p["dtype"].startswith("float") else "int64"
                if p["dtype"] == "int64":
                    p["values"] = [int(x) for x in p["values"]]
            if p["kind"] == "vlen":
                p["dtype"] = "int64" if "int" in p["dtype"] else "float64"
                if p["dtype"] == "int64":
                    for el in p["values"]:
                        el["flat"] = [int(x) for x in el["flat"]]
    rng.shuffle(nprops)
    return {"ids": ids, "edges": edges, "id_dtype": "uint64", "nprops": nprops, "eprops": eprops}


def gen_axis(rng, name, stale=True):
    a = {"name": name}
    if rng.random() < 0.6:
        a["type"] = rng.choice(["space", "time", "channel"])
    if rng.random() < 0.6:
        a["unit"] = rng.choice(["micrometer", "pixel", "second", "furlong"])
    if rng.random() < 0.5:
        a["scale"] = rng.choice([0.5, 2.0, 0.1, 3.25, 0.5, 2.0, INF, -INF, 1e300, 5e-324])
        if rng.random() < 0.5:
            a["scaled_unit"] = rng.choice(["nanometer", "meter"])
    if rng.random() < 0.4:
        a["offset"] = rng.choice([0.0, -1.5, 10.0, 0.3, -1.5, 10.0, INF, -INF, -1e300, 2.0**-1074])
    if stale and rng.random() < 0.6:
        lo = rng.choice([-1000.0, 5.0, 0.0, 99.5, -1000.0, 5.0, -INF, INF, -1e300])
        a["min"], a["max"] = lo, (INF if rng.random() < 0.15 else lo + rng.choice([0.0, 1.0, 500.0]))
    return a


def gen_md(rng, g, axis_names, directed, want_axes=True):
    def entries(props, grp):
        out = []
        for p in props:
            r = rng.random()
            if r < 0.35:
                continue                      # absent entry
            e = {"identifier": p["name"], "dtype": p["dtype"] if r < 0.7 else rng.choice(["int8", "float64", "str", "uint64"]),
                 "varlength": (p["kind"] == "vlen") if r < 0.8 else rng.random() < 0.5}
            if e["dtype"] == "float16":
                e["dtype"] = "float32"
            for k, vals in (("unit", ["um", "s", "a.u."]), ("name", ["Nice name", "x"]), ("description", ["some text"])):
                if rng.random() < 0.5:
                    e[k] = rng.choice(vals)
            out.append(e)
        if rng.random() < 0.05:
            out.append({"identifier": "stale_" + grp, "dtype": "float64", "varlength": False, "unit": "um"})
        return out
    md = {"directed": directed, "nprops": entries(g["nprops"], "n"), "eprops": entries(g["eprops"], "e")}
    md["axes"] = [gen_axis(rng, nm) for nm in axis_names] if (want_axes and (axis_names or rng.random() < 0.3)) else None
    if rng.random() < 0.5:
        md["extra"] = rng.choice([{"k": [1, 2, {"z": None}]}, {"a": "b", "n": 1.5}, {}])
    if rng.random() < 0.3:
        md["sphere"] = "p0"
    if rng.random() < 0.2:
        md["ellipsoid"] = "cov"
    if rng.random() < 0.3:
        md["track_node_props"] = rng.choice([{"lineage": "lin"}, {"tracklet": "trk", "lineage": "lin"}])
    if rng.random() < 0.3:
        md["related_objects"] = [{"type": "labels", "path": "../seg", "label_prop": "seg_id"}, {"type": "image", "path": "../raw"}][: rng.randint(1, 2)]
    if md["axes"] and len(axis_names) >= 2 and rng.random() < 0.4:
        md["display_hints"] = {"display_horizontal": axis_names[-1], "display_vertical": axis_names[-2]}
        if len(axis_names) >= 3 and rng.random() < 0.5:
            md["display_hints"]["display_time"] = axis_names[0]
    return md


UNIT_POOL = ["micrometer", "pixel", "second", "millimeter"]          # every axis_* list draws from its own pool,
SCALED_UNIT_POOL = ["nanometer", "meter", "minute"]                  # so that swapped lists are visible
SCALE_POOL = [0.5, 2.0, 3.25, 8.0, 0.5, 2.0, INF, 1e300, 5e-324]
OFFSET_POOL = [-1.5, 4.0, 10.0, 0.75, -1.5, 4.0, -INF, INF, -1e300]
TYPE_POOL = ["space", "time", "channel"]


def gen_lists(rng, names, malformed=False):
    n = len(names)
    ls = {"names": list(names)}

    def some(pool, p_none=0.25):
        return [None if rng.random() < p_none else rng.choice(pool) for _ in range(n)]
    if rng.random() < 0.6:
        ls["units"] = some(UNIT_POOL)
    if rng.random() < 0.6:
        ls["types"] = some(TYPE_POOL)
    if rng.random() < 0.6:
        ls["scales"] = some(SCALE_POOL)
        if rng.random() < 0.5:
            ls["scaled_units"] = [(rng.choice(SCALED_UNIT_POOL) if sc is not None and rng.random() < 0.7 else None) for sc in ls["scales"]]
    if rng.random() < 0.6:
        ls["offset"] = some(OFFSET_POOL)
    if malformed:
        k = rng.choice(["units", "types", "scales", "offset", "offset"])
        cur = ls.get(k) or [None] * n
        ls[k] = cur[:-1] if (rng.random() < 0.5 and cur) else cur + [None if k != "offset" else 1.0]
    return ls


def override_cases():
    """every backend writer x every subset of the axis_* override lists (all entries given, every list with its
    own values), with axis_names and - for spatial-graph - also with the names taken from the metadata"""
    import itertools

    names = ["y", "x"]
    full = {"units": ["micrometer", "pixel"], "types": ["time", "space"], "scales": [0.5, 3.25],
            "scaled_units": ["nanometer", "minute"], "offset": [-1.5, 10.0]}
    nodes = [{"name": "y", "kind": "fixed", "dtype": "float64", "trail": [], "values": [1.0, 3.0, -2.5], "missing": None},
             {"name": "x", "kind": "fixed", "dtype": "float64", "trail": [], "values": [5.0, 2.0, 0.25], "missing": None}]
    g = {"ids": [4, 7, 9], "edges": [[4, 7], [7, 9]], "id_dtype": "uint64", "nprops": nodes,
         "eprops": [{"name": "w", "kind": "fixed", "dtype": "int64", "trail": [], "values": [3, 4], "missing": None}]}
    sgg = {"ids": [4, 7, 9], "edges": [[4, 7], [7, 9]], "id_dtype": "uint64",
           "nprops": [{"name": "position", "kind": "fixed", "dtype": "float64", "trail": [2], "values": [1.0, 5.0, 3.0, 2.0, -2.5, 0.25], "missing": None},
                      {"name": "r", "kind": "fixed", "dtype": "float32", "trail": [], "values": [1.0, 2.0, 3.0], "missing": None}],
           "eprops": [{"name": "w", "kind": "fixed", "dtype": "int16", "trail": [], "values": [3, 4], "missing": None}]}
    md = {"directed": True, "nprops": [], "eprops": [],
          "axes": [{"name": "y", "type": "channel", "unit": "second", "scale": 8.0, "scaled_unit": "meter", "offset": 0.75, "min": -50.0, "max": 50.0},
                   {"name": "x", "type": "space", "unit": "millimeter", "scale": 2.0, "offset": 4.0}]}
    out = []
    keys = list(full)
    for r in range(len(keys) + 1):
        for sub in itertools.combinations(keys, r):
            ls = {"names": names, **{k: full[k] for k in sub}}
            for entry in ("nx", "rx", "sg"):
                for with_md in (False, True):
                    c = {"entry": entry, "fmt": 2, "directed": entry != "nx", "graph": copy.deepcopy(sgg if entry == "sg" else g),
                         "lists": copy.deepcopy(ls)}
                    if entry == "sg":
                        c["ndims"] = 2
                    if with_md:
                        c["md"] = copy.deepcopy(md)
                    out.append(c)
            # spatial-graph: names from the metadata, lists as overrides
            out.append({"entry": "sg", "fmt": 3, "directed": False, "ndims": 2, "graph": copy.deepcopy(sgg), "md": copy.deepcopy(md),
                        "lists": {"names": None, **{k: copy.deepcopy(full[k]) for k in sub}}})
    return out


def random_case(rng, entry, big=False, malformed=False):
    n = rng.choice([0, 1, 2, 3, 5, 9]) if not big else rng.randint(10, 40)
    e = rng.choice([0, 1, 3, 6])
    naxes = rng.choice([0, 1, 2, 3, 3])
    axis_names = ["t", "z", "y", "x"][4 - naxes:] if naxes else []
    directed = rng.random() < 0.5
    case = {"entry": entry, "fmt": rng.choice([2, 3]), "directed": directed}
    if entry == "sg":
        ndims = rng.choice([1, 2, 3])
        axis_names = ["z", "y", "x"][3 - ndims:]
        ids = rng.sample(range(0, 200), n)
        pos = [c for _ in range(n) for c in coord_vals(rng, "float64", ndims, big)]
        edges = []
        for _ in range(e if n > 1 else 0):
            u, v = rng.sample(ids, 2)
            if [u, v] not in edges and [v, u] not in edges:
                edges.append([u, v])
        g = {"ids": ids, "edges": edges, "id_dtype": "uint64",
             "nprops": [{"name": "position", "kind": "fixed", "dtype": "float64", "trail": [ndims], "values": pos, "missing": None},
                        {"name": "r", "kind": "fixed", "dtype": "float32", "trail": [], "values": coord_vals(rng, "float32", n), "missing": None}],
             "eprops": [{"name": "w", "kind": "fixed", "dtype": "int16", "trail": [], "values": coord_vals(rng, "int16", len(edges)), "missing": None}]}
        case["ndims"] = ndims
        case["graph"] = g
        mode = rng.choice(["md", "md", "names", "names", "md+lists", "both"])
        stored_names = {"nprops": [{"name": a} for a in axis_names] + [{"name": "r", "dtype": "float32", "kind": "fixed"}]}
        if mode in ("md", "md+lists", "both"):
            gm = {"nprops": [{"name": a, "dtype": "float64", "kind": "fixed"} for a in axis_names] + [g["nprops"][1]], "eprops": g["eprops"]}
            case["md"] = gen_md(rng, gm, axis_names, rng.random() < 0.5)
            if case["md"]["axes"] is None and n > 0:
                case["md"]["axes"] = [gen_axis(rng, nm) for nm in axis_names]
        if mode in ("names", "both"):
            case["lists"] = gen_lists(rng, axis_names, malformed)
        elif mode == "md+lists":
            ls = gen_lists(rng, axis_names, malformed)
            ls["names"] = None
            case["lists"] = ls
        del stored_names
        return case
    dict_entry = entry in ("write_dicts", "nx", "rx")
    g = gen_graph(rng, n, e, axis_names, big, dict_entry)
    case["graph"] = g
    want_md = entry in ("write_arrays", "write_dicts") or rng.random() < 0.6
    if want_md:
        case["md"] = gen_md(rng, g, axis_names, directed if entry in ("write_arrays", "write_dicts") else rng.random() < 0.5)
    if entry in ("nx", "rx") and (rng.random() < 0.5 or not want_md) and axis_names:
        case["lists"] = gen_lists(rng, axis_names, malformed)
    if entry == "write_arrays":
        r = rng.random()
        if r < 0.08:
            case["edge_props_none"] = True
        elif r < 0.14:
            case["node_props_none"] = True
        if rng.random() < 0.12 and n > 0 and len(axis_names) >= 2 and not case.get("node_props_none"):
            # squished position property, un-squished into the last two axes on write
            k = 2
            names = axis_names[-k:]
            cols = [p for p in g["nprops"] if p["name"] in names]
            g["nprops"] = [p for p in g["nprops"] if p["name"] not in names]
            vals = [c for i in range(n) for c in (float(cols[0]["values"][i]), float(cols[1]["values"][i]))] if len(cols) == 2 else []
            g["nprops"].append({"name": "pos", "kind": "fixed", "dtype": "float64", "trail": [k], "values": vals, "missing": None})
            case["unsquish"] = {"pos": names}
        if rng.random() < 0.06:
            case["validate"] = False
    return case


# ----------------------------------------------------------------- function-level stream
def fn_case(rng):
    """direct calls of compute_and_add_axis_min_max / axes_from_lists (branches the writers do not reach:
    missing masks on coordinates, 2-D coordinates, all-missing, absent property, roi lists, short lists)"""
    if rng.random() < 0.6:
        n = rng.choice([0, 1, 2, 4, 7])
        names = ["y", "x"][: rng.choice([1, 2])]
        props = []
        for nm in names + ["other"]:
            if rng.random() < 0.12:
                continue
            dt = rng.choice(["float64", "float32", "int64", "uint8", "bool"])
            trail = rng.choice([[], [], [], [2]])
            w = int(np.prod(trail, dtype=np.int64))
            miss = rng.choice([None, None, "some", "all"])
            props.append({"name": nm, "kind": "fixed", "dtype": dt, "trail": trail,
                          "values": with_infinities(rng, coord_vals(rng, dt, n * w)) if dt.startswith("float") else coord_vals(rng, dt, n * w),
                          "missing": None if miss is None else [True if miss == "all" else rng.random() < 0.5 for _ in range(n)]})
        md = {"directed": True, "nprops": [], "eprops": [], "axes": [gen_axis(rng, nm) for nm in names] if rng.random() < 0.9 else None}
        return {"entry": "minmax", "graph": {"ids": list(range(n)), "edges": [], "nprops": props, "eprops": []}, "md": md}
    names = ["z", "y", "x"][: rng.choice([0, 1, 2, 3])]
    ls = gen_lists(rng, names, malformed=rng.random() < 0.4)
    n = len(names)
    roi = None
    if rng.random() < 0.5:
        k = n + rng.choice([0, 0, 0, -1, 1])
        lo = [rng.choice(COORDS) for _ in range(max(k, 0))]
        roi = [lo, [v + rng.choice([0.0, 1.0, 2.5, -1.0]) for v in lo]]
    if rng.random() < 0.1:
        ls["names"] = None
    return {"entry": "axes_from_lists", "graph": {"ids": [], "edges": [], "nprops": [], "eprops": []}, "lists": ls, "roi": roi}


def run_fn(case):
    import warnings

    from geff_spec.utils import axes_from_lists, compute_and_add_axis_min_max

    warnings.simplefilter("ignore")
    obs = {}
    try:
        if case["entry"] == "minmax":
            g = case["graph"]
            props = {p["name"]: np_prop(p, len(g["ids"])) for p in g["nprops"]}
            obs["model_props"] = (props_json(props), None)
            out = compute_and_add_axis_min_max(build_md(case["md"]), props)
            obs["axes"] = None if out.axes is None else [a.model_dump(mode="json") for a in out.axes]
        else:
            obs["model_props"] = (None, None)
            roi = case.get("roi")
            kw = list_kwargs(case["lists"])
            out = axes_from_lists(kw.pop("axis_names", None), roi_min=None if roi is None else roi[0],
                                  roi_max=None if roi is None else roi[1], **kw)
            obs["axes"] = [a.model_dump(mode="json") for a in out]
    except Exception as ex:  # noqa: BLE001
        obs["exc"] = type(ex).__name__
        obs["mro"] = [c.__name__ for c in type(ex).__mro__]
        obs["msg"] = str(ex)[:200]
    return obs


def fn_request(case, obs, version):
    fr = collect_fracs(case, obs)
    for side in case.get("roi") or ():
        fr += [xfrac(x) for x in side]
    d = scale_of(fr)
    if case["entry"] == "minmax":
        return {"op": "minmax", "md": md_json(case["md"], d, version), "nprops": scaled_props(obs["model_props"][0], d)}, d
    roi = case.get("roi")
    return {"op": "axes_from_lists", "lists": lists_json(case["lists"]),
            "roi_min": None if roi is None else [sint(x, d) for x in roi[0]],
            "roi_max": None if roi is None else [sint(x, d) for x in roi[1]]}, d


def judge_fn(ck, case, obs, mo, d):
    ok = "axes" in obs
    ck.case(case, f"{case['entry']}:" + ("ok" if ok else obs.get("exc", "?")), True)
    if case["entry"] == "axes_from_lists" and not lists_well_formed_fn(case):
        if ok or "ValueError" not in obs["mro"]:
            ck.fail("C10:axis-list-length-unchecked", f"axes_from_lists with an axis_* list of the wrong length: "
                    f"{'accepted' if ok else obs['exc']} (documented: ValueError)", case, "ok" if ok else obs["exc"], "ValueError")
    if case["entry"] == "minmax" and ok and obs["axes"] is not None:
        # S-oracle: min/max over the non-missing coordinates, exact
        g = case["graph"]
        for a in obs["axes"]:
            p = next(q for q in g["nprops"] if q["name"] == a["name"])
            arr = np_prop(p, len(g["ids"]))
            keep = np.ones(len(g["ids"]), bool) if arr["missing"] is None else ~arr["missing"]
            vals = [xfrac(x) for x in arr["values"][keep].ravel().tolist()]
            if not len(g["ids"]):
                continue
            span = [float(min(vals)), float(max(vals))] if vals else "no non-missing coordinate (numpy raises ValueError)"
            if not vals or a.get("min") is None or a.get("max") is None or xfrac(a["min"]) != min(vals) or xfrac(a["max"]) != max(vals):
                ck.fail("C10:axis-range", f"compute_and_add_axis_min_max: axis {a['name']} got {a.get('min')}..{a.get('max')}, "
                        f"non-missing coordinates: {span}", case, [a.get("min"), a.get("max")], span)
    if mo is None:
        return
    if ok != ("ok" in mo):
        ck.corr_broken("C10:fn-outcome:" + case["entry"], case, obs.get("exc", "ok"), mo)
        return
    if not ok:
        if mo["err"] != obs["exc"] and mo["err"] not in obs["mro"]:
            ck.corr_broken("C10:fn-exception:" + case["entry"], case, obs["exc"], mo["err"])
        return
    got = None if obs["axes"] is None else [axis_json(a, d) for a in obs["axes"]]
    want = mo["ok"]["axes"] if case["entry"] == "minmax" else mo["ok"]
    if got != want:
        ck.corr_broken("C10:fn-result:" + case["entry"], case, got, want)


def lists_well_formed_fn(case):
    ls = case["lists"]
    if ls.get("names") is None:
        return True
    n = len(ls["names"])
    return all(ls.get(k) is None or len(ls[k]) == n for k in LIST_KEYS)


# ----------------------------------------------------------------- write histories sharing one metadata object
def history_case(rng):
    """2-3 writes through different entry points that re-use ONE GeffMetadata object, with and without per-call
    axis_* overrides: every stored metadata must be what the ORIGINAL caller metadata value gives"""
    axis_names = ["y", "x"]
    n = rng.choice([1, 2, 3, 5])
    md = {"directed": rng.random() < 0.5, "eprops": [],
          "nprops": [{"identifier": "y", "dtype": "float64", "varlength": False, "unit": "um", "description": "row"}] if rng.random() < 0.5 else [],
          "axes": [gen_axis(rng, nm) for nm in axis_names]}
    if rng.random() < 0.5:
        md["extra"] = {"k": [1, {"z": None}]}
    steps = []
    for i in range(rng.choice([2, 3])):
        entry = rng.choice(["sg", "sg", "nx", "rx", "write_dicts", "write_arrays"])
        st = {"entry": entry, "fmt": rng.choice([2, 3]), "directed": rng.random() < 0.5}
        if entry == "sg":
            ids = rng.sample(range(0, 200), n)
            st["ndims"] = 2
            st["graph"] = {"ids": ids, "edges": [[ids[0], ids[1]]] if n > 1 else [], "id_dtype": "uint64",
                           "nprops": [{"name": "position", "kind": "fixed", "dtype": "float64", "trail": [2],
                                       "values": [c for _ in range(n) for c in coord_vals(rng, "float64", 2)], "missing": None},
                                      {"name": "r", "kind": "fixed", "dtype": "float32", "trail": [], "values": coord_vals(rng, "float32", n), "missing": None}],
                           "eprops": [{"name": "w", "kind": "fixed", "dtype": "int16", "trail": [], "values": [3] if n > 1 else [], "missing": None}]}
        else:
            ids = rng.sample(range(0, 200), n)
            st["graph"] = {"ids": ids, "edges": [[ids[0], ids[1]]] if n > 1 else [], "id_dtype": "uint64",
                           "nprops": [{"name": a, "kind": "fixed", "dtype": "float64", "trail": [], "values": coord_vals(rng, "float64", n), "missing": None}
                                      for a in axis_names], "eprops": []}
        if entry in ("sg", "nx", "rx") and rng.random() < (0.7 if i == 0 else 0.3):
            ls = gen_lists(rng, axis_names)
            if entry == "sg" and rng.random() < 0.6:
                ls["names"] = None
            st["lists"] = ls
        steps.append(st)
    return {"entry": "history", "md": md, "steps": steps, "graph": {"ids": [0], "edges": [], "nprops": [], "eprops": []}}


def run_history(case):
    md = build_md(case["md"])
    out = []
    for st in case["steps"]:
        step = {**st, "md": case["md"]}
        shared = run_impl(step, md_obj=md)
        fresh = run_impl(step)
        out.append((shared, {k: fresh.get(k) for k in ("attrs", "exc")}))
    return out


def warm_sg():
    """compile (or load from the witty cache) the six spatial-graph signatures before forking"""
    g = {"ids": [], "edges": [], "nprops": [], "eprops": []}
    for nd in (1, 2, 3):
        for d in (False, True):
            sg_graph(g, d, nd)


def corpus():
    d = common.VERIF / "harness" / "corpus" / PROP
    for f in sorted(d.glob("*.json")):
        yield json.loads(f.read_text())


# ----------------------------------------------------------------- the check
def geff_version():
    from geff_spec._schema import GEFF_VERSION

    return GEFF_VERSION


def rest_default():
    from geff_spec import GeffMetadata

    full = GeffMetadata(directed=True, node_props_metadata={}, edge_props_metadata={}).model_dump(mode="json")
    return json.dumps({k: full[k] for k in REST_KEYS}, sort_keys=True)


def judge(ck, case, obs, mo, d, rdef):
    ok = "attrs" in obs
    tag = f"{case['entry']}:" + ("ok" if ok else obs.get("exc", "?"))
    nontrivial = bool(case["graph"]["ids"]) or case.get("md") is not None
    ck.case(case, tag, nontrivial)
    if ok:
        oracle(ck, case, obs)
    elif not lists_well_formed(case) and obs["exc"] != "ValueError" and "ValueError" not in obs["mro"]:
        ck.fail("C10:axis-list-length-unchecked", f"an axis_* list of the wrong length raised {obs['exc']} instead of the "
                "documented ValueError", case, obs["exc"], "ValueError")
    if mo is None:
        return
    if "err" in mo and set(mo) == {"err"} and mo["err"].startswith(("unmodelled", "parse", "property")):
        ck.histogram["model:unmodelled"] = ck.histogram.get("model:unmodelled", 0) + 1
        return
    if ok != ("ok" in mo):
        if not ok and obs["exc"] == "IndexError" and any(
                p["kind"] == "vlen" and not p["values"] for p in case["graph"]["nprops"] + case["graph"]["eprops"]):
            ck.histogram["skipped:D15-empty-varlength"] = ck.histogram.get("skipped:D15-empty-varlength", 0) + 1
            return        # D15 (var-length property of an empty graph): repaired by the C01 builder's patch
        ck.corr_broken("C10:outcome", case, {k: obs.get(k) for k in ("exc", "msg")} if not ok else "ok", mo)
        return
    if not ok:
        if mo["err"] != obs["exc"] and mo["err"] not in obs["mro"]:
            ck.corr_broken("C10:exception-class", case, obs["exc"], mo["err"])
        return
    ci, cm = canon_impl(obs["attrs"], obs["raw"], d), canon_model(mo["ok"], rdef)
    if ci != cm:
        diff = [k for k in ("md", "nodes", "edges") if ci[k] != cm[k]]
        if "md" in diff:
            diff += [k for k in ci["md"] if ci["md"][k] != cm["md"][k]]
        ck.corr_broken("C10:written:" + ",".join(diff), case, ci, cm)


def run(ck: common.Check):
    ck.prove(["GeffProps.C10", "GeffProps.C10Links", "GeffProps.C10C03Links", "GeffProps.C10Gen"])
    ck.rule = ("a case = (entry point, graph, caller metadata, axis_* lists, flags); entry points: write_arrays (incl. "
               "props=None, unsquish, validation off), write_dicts, geff.write on networkx / rustworkx / spatial-graph; graphs "
               "of 0..40 nodes with 0-3 axis coordinates (float64/float32/int/uint, incl. -0.0, 1e300 and -inf/+inf at one end, both "
               "ends or everywhere; caller-supplied scale/offset/min/max incl. +-inf, 1e300 and subnormals), 0-3 further "
               "properties (8 dtypes, 2-D, var-length, missing masks, float16); caller metadata with absent / stale / "
               "wrong-dtype property entries, unit/name/description, axes with every optional field and stale ranges, extra, "
               "sphere, ellipsoid, track props, related objects, display hints; axis_* lists with and without overrides and a "
               "malformed stream (wrong list lengths); every backend writer x every subset of the axis_* override lists (each "
               "list with its own values, with/without metadata, spatial-graph also with names from the metadata). non-trivial = non-empty graph or caller metadata; distinct = "
               "distinct case JSON")
    version, rdef = geff_version(), rest_default()
    cases = list(corpus())
    per = 700 if ck.quick else 6000
    for entry in ("write_arrays", "write_dicts", "nx", "rx"):
        for i in range(per):
            cases.append(random_case(ck.rng, entry, big=(i % 15 == 0)))
    for i in range(per // 2):
        cases.append(random_case(ck.rng, "sg", big=(i % 15 == 0)))
    for i in range(per // 3):
        cases.append(random_case(ck.rng, ck.rng.choice(["nx", "rx", "sg"]), malformed=True))
    cases += override_cases()
    warm_sg()
    obs = common.pmap(run_impl, cases, chunksize=8)
    drv = ck.driver()
    reqs, scales = [], []
    for c, o in zip(cases, obs):
        try:
            rq, d = model_request(c, o, version)
        except Exception as ex:  # noqa: BLE001
            ck.corr_broken("C10:request-exception", c, {k: o.get(k) for k in ("exc", "msg")}, f"{type(ex).__name__}: {ex}")
            rq, d = {"op": "unmodelled-request"}, 1
        reqs.append(rq)
        scales.append(d)
    model = drv.ask(reqs)
    if model is None:
        ck.broken.append({"what": "driver Drivers/C10.lean", "detail": drv.broken})
    for i, (c, o) in enumerate(zip(cases, obs)):
        try:
            judge(ck, c, o, None if model is None else model[i], scales[i], rdef)
        except Exception as ex:  # noqa: BLE001  (an exception of the oracle is a broken check, never a silent pass or a crash)
            import traceback

            ck.corr_broken("C10:oracle-exception", c, {k: o.get(k) for k in ("exc", "msg", "attrs")},
                           f"{type(ex).__name__}: {ex}\n{traceback.format_exc()[-800:]}")
    # write histories that re-use one metadata object
    hcases = [history_case(ck.rng) for _ in range(120 if ck.quick else 2500)]
    hobs = common.pmap(run_history, hcases, chunksize=4)
    hreq, hidx = [], []
    for hi, (hc, steps) in enumerate(zip(hcases, hobs)):
        for si, (shared, _) in enumerate(steps):
            step = {**hc["steps"][si], "md": hc["md"]}
            try:
                rq, d = model_request(step, shared, version)
            except Exception as ex:  # noqa: BLE001
                ck.corr_broken("C10:request-exception", step, {k: shared.get(k) for k in ("exc", "msg")}, f"{type(ex).__name__}: {ex}")
                rq, d = {"op": "unmodelled-request"}, 1
            hreq.append(rq)
            hidx.append((hi, si, d))
    hmodel = drv.ask(hreq)
    if hmodel is None:
        ck.broken.append({"what": "driver Drivers/C10.lean (history stream)", "detail": drv.broken})
    for j, (hi, si, d) in enumerate(hidx):
        hc = hcases[hi]
        shared, fresh = hobs[hi][si]
        step = {**hc["steps"][si], "md": hc["md"], "history": {"step": si, "previous_steps": hc["steps"][:si]}}
        try:
            judge(ck, step, shared, None if hmodel is None else hmodel[j], d, rdef)
            if shared.get("attrs") != fresh.get("attrs") or shared.get("exc") != fresh.get("exc"):
                ck.fail("C10:history-shared-metadata", f"write #{si} of a history that re-uses ONE metadata object stores other metadata "
                        f"(or ends differently) than the same write with a fresh copy of the caller's original metadata",
                        {"entry": "history", "md": hc["md"], "steps": hc["steps"][: si + 1], "graph": hc["graph"]},
                        shared.get("attrs") or shared.get("exc"), fresh.get("attrs") or fresh.get("exc"))
        except Exception as ex:  # noqa: BLE001
            ck.corr_broken("C10:oracle-exception", step, {k: shared.get(k) for k in ("exc", "msg", "attrs")}, f"{type(ex).__name__}: {ex}")
    # function-level stream
    fcases = [fn_case(ck.rng) for _ in range(per)]
    fobs = [run_fn(c) for c in fcases]
    freq = [fn_request(c, o, version) for c, o in zip(fcases, fobs)]
    fmodel = drv.ask([r for r, _ in freq])
    if fmodel is None:
        ck.broken.append({"what": "driver Drivers/C10.lean (function stream)", "detail": drv.broken})
    for i, (c, o) in enumerate(zip(fcases, fobs)):
        try:
            judge_fn(ck, c, o, None if fmodel is None else fmodel[i], freq[i][1])
        except Exception as ex:  # noqa: BLE001
            ck.corr_broken("C10:oracle-exception", c, {k: o.get(k) for k in ("exc", "msg", "axes")}, f"{type(ex).__name__}: {ex}")
    ck.assumptions += [
        "numpy min/max/boolean indexing, zarr attribute and array storage, pydantic validation/serialisation are "
        "modelled, exercised here, not verified",
        "the property dicts handed to write_arrays by write_dicts (dict_props_to_arr: numpy's dtype inference, property "
        "C03) and by the spatial-graph writer (attribute arrays of the graph) are inputs of the model",
        "C10_props_metadata_exact / C10_axis_range use what an accepting validate_structure guarantees (C04's Conformant: "
        "props group <-> metadata keys, one row per node, axes name 1-D node properties without missing mask)",
        "coordinates are not NaN (+-inf are inside the domain and travel to the model as order-preserving sentinels); integer "
        "coordinates beyond 2^53 are outside the domain (Axis.min is a float)",
    ]


class _Rec:
    """collects ck.fail calls during a replay"""
    def __init__(self):
        self.f, self.histogram = [], {}

    def fail(self, key, what, *a):
        self.f.append((key, what))

    def case(self, *a, **k):
        pass


def replay(rp):
    case = rp.get("case", rp)   # a replay file, or a bare corpus case
    if case["entry"] == "history":
        warm_sg()
        steps = run_history(case)
        bad = 0
        for si, (shared, fresh) in enumerate(steps):
            same = shared.get("attrs") == fresh.get("attrs") and shared.get("exc") == fresh.get("exc")
            r = _Rec()
            if "attrs" in shared:
                oracle(r, {**case["steps"][si], "md": case["md"]}, shared)
            print(json.dumps({"write": si, "entry": case["steps"][si]["entry"], "lists": case["steps"][si].get("lists"),
                              "same_as_with_fresh_metadata": same, "stored_axes": (shared.get("attrs") or {}).get("axes"),
                              "with_fresh_metadata_axes": (fresh.get("attrs") or {}).get("axes"), "directed": (shared.get("attrs") or {}).get("directed"),
                              "exc": shared.get("exc")}, default=str)[:1500])
            for k, w in r.f:
                print(f"  [{k}] {w}")
            bad += (not same) + len(r.f)
        print("REPLAY: property FAILS on this input" if bad else "REPLAY: property holds on this input")
        return 1 if bad else 0
    if case["entry"] in ("minmax", "axes_from_lists"):
        obs = run_fn(case)
        r = _Rec()
        judge_fn(r, case, obs, None, 1)
        print(json.dumps({k: obs.get(k) for k in ("axes", "exc", "msg")}, default=str)[:2000])
        for k, w in r.f:
            print(f"  [{k}] {w}")
        print("REPLAY: property FAILS on this input" if r.f else "REPLAY: property holds on this input")
        return 1 if r.f else 0
    if case["entry"] == "sg":
        warm_sg()
    obs = run_impl(case)
    if "attrs" not in obs:
        print(json.dumps({"impl": obs.get("exc"), "msg": obs.get("msg")}))
        bad = not lists_well_formed(case) and "ValueError" not in obs.get("mro", [])
        print("REPLAY: property FAILS on this input" if bad else "REPLAY: write raised (no stored metadata): property holds vacuously")
        return 1 if bad else 0

    r = _Rec()
    oracle(r, case, obs)
    print(json.dumps({"stored_metadata": obs["attrs"], "stored_groups": {k: (None if v is None else {n: {f: e[f] for f in ("dtype", "has_data")} for n, e in v.items()}) for k, v in obs["raw"].items()}}, default=str)[:3000])
    for k, w in r.f:
        print(f"  [{k}] {w}")
    print("REPLAY: property FAILS on this input" if r.f else "REPLAY: property holds on this input")
    return 1 if r.f else 0
