"""C13 — tracklet validation decides the documented tracklet definition (docs/tracking.md).

Implementation: geff.validate.tracks.validate_tracklets, reached directly, through
validate_data(tracklet=True) (with and without a `missing` mask on the tracklet-id property) and
through read_to_memory(store, data_validation=ValidationConfig(tracklet=True)).
Model: Geff.Tracklet.trackletErrors / validateTracklets (+ nodesWithId) via Drivers/C13.lean.
GeffProps.C13 proves model <-> definition for every acyclic digraph with unique node ids and
every labelling, so on that domain a model/implementation disagreement is a concrete violation;
outside it (cyclic graphs, duplicated node ids) only model == implementation is compared.
An independent pure-Python oracle evaluates the documented definition itself (tracklet edges,
union-find over them) and the per-tracklet reading (which ids are offending).

Deepening (GeffProps.C13Inv, GeffProps.C13Data; model GeffModel/TrackletData.lean): every case of the main stream is
also compared VERBATIM — the message strings of the direct call with `validateTrackletsArrays` (driver op "arrays"),
outcome class + exception arguments of validate_data(tracklet=True) with `validateDataTracks` (op "data"); a dtype /
memory-layout stream (`run_dtyped`) and histories on one in-memory geff object with re-used configs (`run_histories`)
go through the same two ops, each with a model-free verdict from the oracles.

History dimension (GeffProps.C13Hist; model GeffModel/TrackletHist.lean, driver op "hist"): `run_array_histories` makes 3-7 calls of
validate_tracklets / validate_lineages / validate_data on the SAME numpy array objects, edited in place between the calls (edge rows,
node ids, ids, whole arrays overwritten; one node array re-used with two edge arrays); every call is judged on the CURRENT contents.
"""
from __future__ import annotations

import itertools
import json
import re

import numpy as np

from harness import common

PROP = "C13"
MSG = re.compile(r"^Tracklet (-?\d+): (.*)$")
KINDS = [("Invalid path structure", "branch"), ("Cycle detected", "cycle"), ("Not fully connected", "disconnected"),
         ("Not maximal. Path can extend backward to node", "backward"),
         ("Not maximal. Path can extend forward to node", "forward")]


# ----------------------------------------------------------------- oracle (spec, independent)
def spec_oracle(nodes, labels, edges):
    """Documented definition.  `nodes` are the labelled nodes; edges may mention other ids
    (unlabelled nodes, only reachable through a `missing` mask).

    T(u,v): (u,v) is an edge, the only one leaving u and the only one entering v.
    valid  <=> every edge between labelled nodes joins equal ids exactly when it is a T edge,
               nodes with equal ids are connected by T edges,
               and no T edge joins a labelled and an unlabelled node.
    bad(t) <=> an edge inside t is not T, or t is not connected by its inner edges, or a T edge
               joins a node of t with a node outside t.
    Returns (valid, bad ids in first-occurrence order)."""
    E = {(int(u), int(v)) for u, v in edges}
    lab = {}
    for n, l in zip(nodes, labels):
        lab[n] = l  # unique node ids on the domain where the oracle is consulted
    outn, inn = {}, {}
    for u, v in E:
        outn.setdefault(u, set()).add(v)
        inn.setdefault(v, set()).add(u)
    T = {(u, v) for (u, v) in E if len(outn[u]) == 1 and len(inn[v]) == 1}
    verts = set(lab) | {x for e in E for x in e}
    parent = {x: x for x in verts}

    def find(x):
        while parent[x] != x:
            parent[x] = parent[parent[x]]
            x = parent[x]
        return x

    for u, v in T:
        parent[find(u)] = find(v)
    valid = True
    for u, v in E:
        if u in lab and v in lab and ((lab[u] == lab[v]) != ((u, v) in T)):
            valid = False
        if ((u, v) in T) and ((u in lab) != (v in lab)):
            valid = False
    classes = {}
    for n in lab:
        classes.setdefault(lab[n], []).append(n)
    for t, cls in classes.items():
        if len({find(x) for x in cls}) > 1:
            valid = False
    # per-tracklet reading
    bad = []
    for t, cls in classes.items():
        cs = set(cls)
        inner_e = [(u, v) for (u, v) in E if u in cs and v in cs]
        b = any(e not in T for e in inner_e)
        p2 = {x: x for x in cs}

        def f2(x):
            while p2[x] != x:
                p2[x] = p2[p2[x]]
                x = p2[x]
            return x
        for u, v in inner_e:
            p2[f2(u)] = f2(v)
        b = b or len({f2(x) for x in cs}) > 1
        b = b or any((u in cs) != (v in cs) for (u, v) in T)
        if b:
            bad.append(t)
    order = []
    for l in labels:
        if l in bad and l not in order:
            order.append(l)
    if valid != (not order):
        raise AssertionError(f"oracle inconsistent on {nodes} {labels} {edges}: valid={valid} bad={order}")
    return valid, order


def wrap64(x):
    """numpy's cast to int64 (the validator casts ids and tracklet ids to int64 first)"""
    return (x + 2 ** 63) % 2 ** 64 - 2 ** 63


def is_dag(edges):
    import networkx as nx

    g = nx.DiGraph()
    g.add_edges_from((int(u), int(v)) for u, v in edges)
    return nx.is_directed_acyclic_graph(g)


# ----------------------------------------------------------------- implementation observation
def parse_errors(errors):
    out = []
    for m in errors:
        mm = MSG.match(m)
        if not mm:
            out.append({"t": None, "k": m})
            continue
        t, rest = int(mm.group(1)), mm.group(2)
        d = {"t": t, "k": "?"}
        for pat, k in KINDS:
            if rest.startswith(pat):
                d["k"] = k
                if k in ("backward", "forward"):
                    d["n"] = int(re.search(r"node (-?\d+)\.$", rest).group(1))
        out.append(d)
    return out


def impl_obs(case):
    """direct call (no missing mask) or through validate_data (missing mask present)"""
    if case.get("missing") is not None:
        return impl_via_validate_data(case)
    from geff.validate.tracks import validate_tracklets

    from harness.corr.C12 import variant_array

    dt = np.dtype(case.get("dtype", "int64"))
    v = case.get("variant", "plain")
    arrs = [variant_array(np.asarray(case["nodes"], dtype=dt), v),
            variant_array(np.asarray(case["edges"], dtype=dt).reshape(-1, 2), v),
            variant_array(np.asarray(case["labels"], dtype=dt), v)]
    before = [(a.tobytes(), str(a.dtype), a.shape) for a in arrs]
    try:
        valid, errors = validate_tracklets(*arrs)
    except Exception as ex:  # noqa: BLE001
        return {"exc": type(ex).__name__}
    out = {"valid": bool(valid), "errors": parse_errors(errors), "messages": [str(m) for m in errors]}
    if before != [(a.tobytes(), str(a.dtype), a.shape) for a in arrs]:
        out["modified"] = True
    # the same case through validate_data(tracklet=True): outcome class and exception arguments verbatim
    from geff.validate.data import ValidationConfig

    out["vd"] = vd_outcome(_memory_geff(case), ValidationConfig(tracklet=True))
    return out


def vd_outcome(g, cfg):
    """validate_data(g, cfg): outcome class + exception arguments, verbatim (what the Lean model `validateDataTracks` renders)"""
    from geff.validate.data import validate_data

    try:
        validate_data(g, cfg)
        return {"outcome": "ok"}
    except (ValueError, KeyError) as ex:
        return {"outcome": type(ex).__name__, "args": [a if isinstance(a, str) else repr(a) for a in ex.args]}
    except Exception as ex:  # noqa: BLE001
        return {"outcome": type(ex).__name__}


TNP = {"tracklet-only": [["tracklet", "trk"]], "tracklet,lineage": [["tracklet", "trk"], ["lineage", "lin"]],
       "lineage,tracklet": [["lineage", "lin"], ["tracklet", "trk"]]}


def data_req(c):
    """request for the model's `data` op mirroring `_memory_geff(c)` validated with ValidationConfig(tracklet=True)"""
    tnp = TNP[c.get("track_layout", "tracklet-only")]
    props = []
    for _k, pn in tnp:
        if pn == "trk":
            props.append(["trk", {"values": [str(x) for x in c["labels"]], "missing": c.get("missing")}])
        else:
            props.append(["lin", {"values": ["0"] * len(c["nodes"]), "missing": None}])
    return {"op": "data", "cfg": {"tracklet": True, "lineage": False}, "tnp": tnp, "props": props,
            "nodes": [str(x) for x in c["nodes"]], "edges": [[str(a), str(b)] for a, b in c["edges"]]}


def arrays_req(c):
    return {"op": "arrays", "nodes": [str(x) for x in c["nodes"]], "labels": [str(x) for x in c["labels"]],
            "edges": [[str(a), str(b)] for a, b in c["edges"]]}


def same_vd(model, impl):
    """model answer of the `data` op == implementation observation (outcome class; args verbatim when there are any)"""
    return model.get("outcome") == impl.get("outcome") and model.get("args") == impl.get("args")


_MD = {}
TRACK_LAYOUTS = ["tracklet-only", "tracklet,lineage", "lineage,tracklet"]


def _memory_geff(case):
    """in-memory geff holding the case; `track_layout` chooses what track_node_props declares and in which KEY
    ORDER (a lineage property - not validated here, only ValidationConfig(tracklet=True) is requested - may be
    declared before or after the tracklet property; the order of the property dicts follows)"""
    import geff_spec

    from harness.corr.C12 import variant_array

    layout = case.get("track_layout", "tracklet-only")
    if layout not in _MD:   # validate_data only reads the metadata: one object per layout and process
        pm = lambda k: geff_spec.PropMetadata(identifier=k, dtype="int64")  # noqa: E731
        tnp = {"tracklet-only": {"tracklet": "trk"}, "tracklet,lineage": {"tracklet": "trk", "lineage": "lin"},
               "lineage,tracklet": {"lineage": "lin", "tracklet": "trk"}}[layout]
        _MD[layout] = geff_spec.GeffMetadata(
            geff_version="1.0.0", directed=True, node_props_metadata={p: pm(p) for p in tnp.values()},
            edge_props_metadata={}, track_node_props=dict(tnp))
    md = _MD[layout]
    miss = case.get("missing")
    dt = np.dtype(case.get("dtype", "int64"))
    v = case.get("variant", "plain")
    props = {}
    for p in md.track_node_props.values():     # same insertion order as the metadata
        if p == "trk":
            props[p] = {"values": variant_array(np.asarray(case["labels"], dtype=dt), v),
                        "missing": None if miss is None else variant_array(np.asarray(miss, dtype=bool), v)}
        else:                                   # lineage ids: junk (all equal), never requested
            props[p] = {"values": np.zeros(len(case["nodes"]), dtype=np.int64), "missing": None}
    return {"metadata": md, "node_ids": variant_array(np.asarray(case["nodes"], dtype=dt), v),
            "edge_ids": variant_array(np.asarray(case["edges"], dtype=dt).reshape(-1, 2), v),
            "node_props": props, "edge_props": {}}


def impl_via_validate_data(case):
    from geff.validate.data import ValidationConfig, validate_data

    from harness.corr.C12 import snapshot, snapshot_diff

    g = _memory_geff(case)
    before = snapshot(g)
    vd = None
    try:
        validate_data(g, ValidationConfig(tracklet=True))
        out = {"valid": True, "errors": []}
        vd = {"outcome": "ok"}
    except ValueError as ex:
        vd = {"outcome": "ValueError", "args": [a if isinstance(a, str) else repr(a) for a in ex.args]}
        if len(ex.args) == 2 and str(ex.args[0]).startswith("Found invalid tracklets"):
            out = {"valid": False, "errors": parse_errors(ex.args[1].split("\n"))}
        else:
            out = {"exc": "ValueError"}
    except Exception as ex:  # noqa: BLE001
        out = {"exc": type(ex).__name__}
        vd = {"outcome": type(ex).__name__}
        if isinstance(ex, KeyError):
            vd["args"] = [a if isinstance(a, str) else repr(a) for a in ex.args]
    if snapshot_diff(before, snapshot(g)):
        out["modified"] = True
    out["vd"] = vd
    return out


def impl_via_store(case):
    """write the graph to a MemoryStore and read it back with data_validation"""
    import zarr
    from geff.core_io import write_arrays
    from geff.core_io._base_read import read_to_memory
    from geff.validate.data import ValidationConfig

    import geff

    g = _memory_geff(case)
    store = zarr.storage.MemoryStore()
    write_arrays(store, g["node_ids"], g["node_props"], g["edge_ids"], {}, g["metadata"],
                 zarr_format=case.get("zarr_format", 2))
    res = []
    for fn in (lambda: read_to_memory(store, data_validation=ValidationConfig(tracklet=True)),
               lambda: geff.read(store, data_validation=ValidationConfig(tracklet=True), backend="networkx")):
        try:
            fn()
            res.append("ok")
        except ValueError:
            res.append("ValueError")
        except Exception as ex:  # noqa: BLE001
            res.append(type(ex).__name__)
    return res[0] if res[0] == res[1] else f"read_to_memory:{res[0]}/geff.read:{res[1]}"


# ----------------------------------------------------------------- validate_data under every config enabling tracklet
def lineage_labellings(case, rng_seed):
    """(valid lineage labelling = weakly connected components, a corrupted one or None)"""
    import random

    nodes, edges = case["nodes"], case["edges"]
    parent = {x: x for x in nodes}

    def find(x):
        while parent[x] != x:
            parent[x] = parent[parent[x]]
            x = parent[x]
        return x
    for u, v in edges:
        parent[find(u)] = find(v)
    roots = {}
    good = [roots.setdefault(find(x), 100 + len(roots)) for x in nodes]
    rng = random.Random(rng_seed)
    bad = None
    sizes = {}
    for l in good:
        sizes[l] = sizes.get(l, 0) + 1
    if len(sizes) >= 2 and rng.random() < 0.5:      # join two components under one id
        a, b = rng.sample(sorted(sizes), 2)
        bad = [a if l == b else l for l in good]
    elif any(k >= 2 for k in sizes.values()):        # split a component
        i = rng.choice([i for i, l in enumerate(good) if sizes[l] >= 2])
        bad = list(good)
        bad[i] = 99999
    elif len(sizes) >= 2:
        a, b = rng.sample(sorted(sizes), 2)
        bad = [a if l == b else l for l in good]
    return good, bad


def config_grid_expected(case, lin_valid, bits):
    """first validator (graph, tracklet, lineage) that is enabled and whose data is invalid"""
    rows = [tuple(e) for e in case["edges"]]
    graph_ok = len(set(rows)) == len(rows)            # in-domain cases: unique ids, endpoints listed, no self loops
    t_valid, t_bad = spec_oracle(case["nodes"], case["labels"], case["edges"])
    if bits & 1 and not graph_ok:
        return "Repeated edges found in data:", None
    if not t_valid:
        return "Found invalid tracklets:", t_bad
    if bits & 8 and not lin_valid:
        return "Found invalid lineages:", None
    return None, None


def impl_config_grid(item):
    """validate_data under all 16 configs with tracklet=True on a geff declaring tracklet AND lineage ids
    (plus valid sphere and ellipsoid properties), real validators"""
    import geff_spec
    from geff.validate.data import ValidationConfig, validate_data

    case, lin = item
    n = len(case["nodes"])
    order = case.get("track_layout", "tracklet,lineage")
    tnp = {"lineage": "lin", "tracklet": "trk"} if order == "lineage,tracklet" else {"tracklet": "trk", "lineage": "lin"}
    names = ["cov", "r", "lin", "trk"] if order == "lineage,tracklet" else ["trk", "lin", "r", "cov"]
    pm = lambda k, d: geff_spec.PropMetadata(identifier=k, dtype=d)  # noqa: E731
    md = geff_spec.GeffMetadata(
        geff_version="1.0.0", directed=True,
        axes=[geff_spec.Axis(name="t", type="time"), geff_spec.Axis(name="y", type="space"), geff_spec.Axis(name="x", type="space")],
        node_props_metadata={k: pm(k, "int64" if k in ("trk", "lin") else "float64") for k in names},
        edge_props_metadata={}, track_node_props=tnp, sphere="r", ellipsoid="cov")
    out = []
    for bits in range(16):
        g = {"metadata": md, "node_ids": np.asarray(case["nodes"], dtype=np.int64),
             "edge_ids": np.asarray(case["edges"], dtype=np.int64).reshape(-1, 2),
             "node_props": {k: {"trk": {"values": np.asarray(case["labels"], dtype=np.int64), "missing": None},
                                "lin": {"values": np.asarray(lin, dtype=np.int64), "missing": None},
                                "r": {"values": np.ones(n), "missing": None},
                                "cov": {"values": np.stack([2.0 * np.eye(2)] * n) if n else np.zeros((0, 2, 2)), "missing": None}}[k]
                            for k in names},
             "edge_props": {}}
        cfg = ValidationConfig(tracklet=True, graph=bool(bits & 1), sphere=bool(bits & 2), ellipsoid=bool(bits & 4),
                               lineage=bool(bits & 8))
        try:
            validate_data(g, cfg)
            out.append({"o": "ok"})
        except ValueError as ex:
            head = str(ex.args[0]).split("\n")[0] if ex.args else ""
            r = {"o": "ValueError", "head": head}
            if head.startswith("Found invalid tracklets") and len(ex.args) == 2:
                r["ids"] = [e["t"] for e in parse_errors(ex.args[1].split("\n"))]
            out.append(r)
        except Exception as ex:  # noqa: BLE001
            out.append({"o": type(ex).__name__})
    return out


def judge_config_grid(ck, case, lin, lin_valid, outs):
    n_fail = 0
    for bits, r in enumerate(outs):
        want_head, want_ids = config_grid_expected(case, lin_valid, bits)
        cfg = {"tracklet": True, "graph": bool(bits & 1), "sphere": bool(bits & 2), "ellipsoid": bool(bits & 4),
               "lineage": bool(bits & 8)}
        rc = {**case, "lineage_labels": lin, "cfg_bits": bits}
        if r["o"] not in ("ok", "ValueError"):
            ck.fail("C13:validate_data-config-exception", f"validate_data({cfg}) raised {r['o']}", rc, r, want_head)
        elif (r["o"] == "ok") != (want_head is None):
            if r["o"] == "ok":
                ck.fail("C13:validate_data-config-accepts-invalid",
                        f"validate_data({cfg}) on a geff declaring tracklet and lineage ids passes although {want_head!r} is due", rc, r, want_head)
            else:
                ck.fail("C13:validate_data-config-rejects-valid", f"validate_data({cfg}) raised {r.get('head')!r} on valid data", rc, r, None)
        elif want_head is not None and (r.get("head") != want_head or (want_ids is not None and r.get("ids") != want_ids)):
            ck.fail("C13:validate_data-config-wrong-message",
                    f"validate_data({cfg}): message {r.get('head')!r} naming {r.get('ids')}, expected {want_head!r} naming {want_ids}",
                    rc, r, {"head": want_head, "ids": want_ids})
        else:
            continue
        n_fail += 1
    return n_fail


# ----------------------------------------------------------------- ONE ValidationConfig object re-used over several calls
DECLARES = {"none": None, "lineage-only": {"lineage": "lin"}, "tracklet-only": {"tracklet": "trk"},
            "tracklet,lineage": {"tracklet": "trk", "lineage": "lin"}, "lineage,tracklet": {"lineage": "lin", "tracklet": "trk"}}


def _reuse_call(step, cfg):
    import geff
    import geff_spec
    import zarr
    from geff.core_io import write_arrays
    from geff.core_io._base_read import read_to_memory
    from geff.validate.data import validate_data

    case = step["case"]
    tnp = DECLARES[step["declares"]]
    # both id properties are stored; what the metadata DECLARES (and in which key order) varies
    names = ["lin", "trk"] if step["declares"].startswith("lineage") else ["trk", "lin"]
    md = geff_spec.GeffMetadata(
        geff_version="1.0.0", directed=True,
        node_props_metadata={k: geff_spec.PropMetadata(identifier=k, dtype="int64") for k in names},
        edge_props_metadata={}, track_node_props=None if tnp is None else dict(tnp))
    vals = {"trk": np.asarray(case["labels"], dtype=np.int64), "lin": np.asarray(step["lineage_labels"], dtype=np.int64)}
    g = {"metadata": md, "node_ids": np.asarray(case["nodes"], dtype=np.int64),
         "edge_ids": np.asarray(case["edges"], dtype=np.int64).reshape(-1, 2),
         "node_props": {k: {"values": vals[k], "missing": None} for k in names}, "edge_props": {}}

    def run():
        if step["via"] == "validate_data":
            return validate_data(g, cfg)
        st = zarr.storage.MemoryStore()
        write_arrays(st, g["node_ids"], g["node_props"], g["edge_ids"], {}, md, structure_validation=False)
        arg = step.get("node_props")          # None = all, or a list excluding an id property
        if step["via"] == "read_to_memory":
            return read_to_memory(st, structure_validation=False, node_props=arg, data_validation=cfg)
        return geff.read(st, structure_validation=False, node_props=arg, data_validation=cfg, backend="networkx")
    try:
        run()
        return {"o": "ok"}
    except ValueError as ex:
        head = str(ex.args[0]).split("\n")[0] if ex.args else ""
        r = {"o": "ValueError", "head": head}
        if head.startswith("Found invalid tracklets") and len(ex.args) == 2:
            r["ids"] = [e["t"] for e in parse_errors(ex.args[1].split("\n"))]
        return r
    except Exception as ex:  # noqa: BLE001
        return {"o": type(ex).__name__}


def impl_config_reuse(item):
    from geff.validate.data import ValidationConfig

    shared = ValidationConfig(**item["config"])
    out = []
    for st in item["steps"]:
        before = shared.model_dump()
        r_shared = _reuse_call(st, shared)
        after = shared.model_dump()
        fresh = ValidationConfig(**item["config"])
        r_fresh = _reuse_call(st, fresh)
        out.append({"shared": r_shared, "fresh": r_fresh, "config_before": before, "config_after": after,
                    "fresh_config_after": fresh.model_dump()})
    return out


def config_reuse_items(rng, pool, n):
    vias = ["validate_data", "read_to_memory", "geff.read"]
    traps = ["lineage-only", "none", "lineage-only"]
    for j in range(n):
        steps = []
        k = 2 + j % 3
        for i in range(k):
            c = rng.choice(pool)
            good, _bad = lineage_labellings(c, f"reuse:{j}:{i}")
            if i == 0:
                declares = traps[j % 3]
            else:
                declares = ["tracklet-only", "tracklet,lineage", "lineage,tracklet"][(j + i) % 3]
            step = {"via": vias[(j + i) % 3] if i else vias[(j // 3) % 3], "declares": declares,
                    "case": {"nodes": c["nodes"], "labels": c["labels"], "edges": c["edges"]}, "lineage_labels": good}
            if i == 0 and j % 5 == 4 and step["via"] != "validate_data":
                step["declares"] = "tracklet,lineage"     # declared but NOT loaded: the tracklet property is excluded
                step["node_props"] = ["lin"]
            steps.append(step)
        yield {"config": {"tracklet": True, "lineage": j % 2 == 0}, "steps": steps}


def judge_config_reuse(ck, item, outs):
    ck.case(item, f"config_reuse:steps={len(item['steps'])}:first={item['steps'][0]['declares']}"
            + (":excluded" if item["steps"][0].get("node_props") else ""), nontrivial=True)
    for k, (st, r) in enumerate(zip(item["steps"], outs)):
        for before, after in ((r["config_before"], r["config_after"]),
                              ({**{f: False for f in ("graph", "sphere", "ellipsoid", "lineage", "tracklet")}, **item["config"]}, r["fresh_config_after"])):
            if before != after:
                ck.fail("C13:validate-modifies-config",
                        f"{st['via']} changed the caller's ValidationConfig from {before} to {after} (step {k}, geff declaring {st['declares']})",
                        item, r, "config unchanged")
                break
        sig = lambda o: (o["o"], o.get("head"), o.get("ids"))  # noqa: E731
        if sig(r["shared"]) != sig(r["fresh"]):
            ck.fail("C13:config-reuse-changes-verdict",
                    f"step {k} ({st['via']}, geff declaring {st['declares']}): the re-used config object gives {r['shared']}, "
                    f"a fresh equal config gives {r['fresh']}", item, r, r["fresh"])
        excluded = st.get("node_props") is not None
        declared = "tracklet" in st["declares"]
        t_valid, t_bad = spec_oracle(st["case"]["nodes"], st["case"]["labels"], st["case"]["edges"])
        if excluded:
            ok = r["fresh"]["o"] in ("KeyError", "ok")          # declared but not loaded: today's reader raises KeyError
        elif declared and not t_valid:
            ok = r["fresh"]["o"] == "ValueError" and r["fresh"].get("head") == "Found invalid tracklets:" and r["fresh"].get("ids") == t_bad
        else:
            ok = r["fresh"]["o"] == "ok"
        if not ok:
            ck.fail("C13:config-history-fresh-verdict",
                    f"step {k} ({st['via']}, declaring {st['declares']}) with a fresh config gave {r['fresh']}; tracklets valid={t_valid} bad={t_bad}",
                    item, r, {"valid": t_valid, "bad": t_bad})


# ----------------------------------------------------------------- generators
def set_partitions(n):
    def rec(i, cur, mx):
        if i == n:
            yield list(cur)
            return
        for v in range(mx + 2):
            cur.append(v)
            yield from rec(i + 1, cur, max(mx, v))
            cur.pop()
    if n == 0:
        yield []
    else:
        yield from rec(0, [], -1)


def digraphs(n):
    pairs = [(a, b) for a in range(n) for b in range(n) if a != b]
    for k in range(2 ** len(pairs)):
        yield [list(p) for i, p in enumerate(pairs) if k >> i & 1]


def exhaustive(n, dag_only=True, cyclic_only=False):
    for edges in digraphs(n):
        d = is_dag(edges)
        if (dag_only and not d) or (cyclic_only and d):
            continue
        for lab in set_partitions(n):
            yield {"nodes": list(range(n)), "labels": [10 + x for x in lab], "edges": edges, "missing": None}


def exhaustive_missing(n):
    """DAGs on n nodes, every non-empty set of nodes flagged missing, every labelling of the rest
    (the masked positions hold the fill value 0, which is also used as a real id)"""
    for edges in digraphs(n):
        if not is_dag(edges):
            continue
        for mask in range(1, 2 ** n):
            miss = [bool(mask >> i & 1) for i in range(n)]
            present = [i for i in range(n) if not miss[i]]
            for lab in set_partitions(len(present)):
                labels = [0] * n
                for i, x in zip(present, lab):
                    labels[i] = x  # ids 0,1,2: id 0 collides with the fill value on purpose
                yield {"nodes": list(range(n)), "labels": labels, "edges": edges, "missing": miss}


def true_labelling(nodes, edges, rng):
    """the tracklet partition of the graph (labels distinct per tracklet)"""
    E = {(u, v) for u, v in edges}
    outn, inn = {}, {}
    for u, v in E:
        outn.setdefault(u, set()).add(v)
        inn.setdefault(v, set()).add(u)
    parent = {x: x for x in nodes}

    def find(x):
        while parent[x] != x:
            parent[x] = parent[parent[x]]
            x = parent[x]
        return x
    for u, v in E:
        if len(outn[u]) == 1 and len(inn[v]) == 1 and u in parent and v in parent:
            parent[find(u)] = find(v)
    ids = {}
    pool = rng.sample(range(-20, 400), len(nodes) + 1)
    return [ids.setdefault(find(x), pool[len(ids)]) for x in nodes]


def random_forest(rng, nmax=40, big=False):
    """time-layered DAG with divisions and merges; correct labelling, then maybe one corruption"""
    n = rng.randint(1, nmax)
    if big:
        names = rng.sample([-(2 ** 63), -(2 ** 62), -1, 0, 1, 2 ** 31, 2 ** 40, 2 ** 62, 2 ** 63 - 1] + list(range(5, 5 + nmax)), n)
    else:
        names = rng.sample(range(-10, 200), n)
    rank = sorted(rng.randint(0, max(1, n // 2)) for _ in range(n))
    edges = []
    for i in range(n):
        later = [j for j in range(n) if rank[j] == rank[i] + 1]
        if not later:
            continue
        r = rng.random()
        k = 0 if r < 0.15 else 1 if r < 0.75 else 2 if r < 0.95 else 3
        for j in rng.sample(later, min(k, len(later))):
            edges.append([names[i], names[j]])
    if rng.random() < 0.1 and edges:
        edges.append(list(rng.choice(edges)))  # parallel edge (collapses in nx.DiGraph)
    labels = true_labelling(names, edges, rng)
    mode = rng.random()
    edit = "none"
    if mode < 0.2 and n >= 2:
        i = rng.randrange(n)
        labels[i] = rng.choice(labels)
        edit = "relabel-existing"
    elif mode < 0.3:
        i = rng.randrange(n)
        labels[i] = 9999
        edit = "relabel-fresh"
    elif mode < 0.4 and edges:
        u, v = rng.choice(edges)
        labels[names.index(v)] = labels[names.index(u)]
        edit = "join-across-edge"
    elif mode < 0.5 and edges:
        edges.pop(rng.randrange(len(edges)))
        edit = "drop-edge"
    elif mode < 0.6:
        a, b = rng.sample(range(n), 2) if n >= 2 else (0, 0)
        if rank[a] < rank[b]:
            edges.append([names[a], names[b]])
            edit = "add-edge"
    elif mode < 0.65 and n >= 2:
        a, b = rng.sample(range(n), 2)
        la, lb = labels[a], labels[b]
        labels = [la if x == lb else x for x in labels]
        edit = "merge-two-ids"
    missing = None
    if rng.random() < 0.25:
        missing = [rng.random() < 0.2 for _ in range(n)]
        for i in range(n):
            if missing[i]:
                labels[i] = 0
    return {"nodes": names, "labels": labels, "edges": edges, "missing": missing, "_edit": edit}


def uint64_case(rng):
    """small forest whose node ids and tracklet ids are uint64 values >= 2^63"""
    c = random_forest(rng, nmax=8)
    c["missing"] = None
    big = lambda x: 2 ** 63 + (x % 1000) + 500  # noqa: E731  (injective on the small pools used)
    c["nodes"] = [big(x) for x in c["nodes"]]
    c["edges"] = [[big(u), big(v)] for u, v in c["edges"]]
    c["labels"] = [big(x) for x in c["labels"]]
    c["dtype"] = "uint64"
    return c


def random_small_dag(rng, n):
    order = list(range(n))
    rng.shuffle(order)
    p = rng.choice([0.15, 0.3, 0.5])
    edges = [[order[i], order[j]] for i in range(n) for j in range(i + 1, n) if rng.random() < p]
    if rng.random() < 0.6:
        labels = true_labelling(list(range(n)), edges, rng)
        if rng.random() < 0.5:
            labels[rng.randrange(n)] = rng.choice(labels)
    else:
        labels = [rng.randint(0, 2) for _ in range(n)]
    return {"nodes": list(range(n)), "labels": labels, "edges": edges, "missing": None}


def corpus():
    d = common.VERIF / "harness" / "corpus" / PROP
    for f in sorted(d.glob("*.json")):
        yield json.loads(f.read_text())


def forked_map(func, items):
    """always in forked workers, also for few items"""
    import multiprocessing as mp

    items = list(items)
    if not items:
        return []
    with mp.get_context("fork").Pool(min(16, len(items))) as pool:
        return pool.map(func, items, chunksize=max(1, len(items) // 64))


# ----------------------------------------------------------------- dtype / memory-layout stream
INT_DTYPES = ["int8", "int16", "int32", "int64", "uint8", "uint16", "uint32", "uint64"]
LAYOUTS = ["plain", "plain", "readonly", "noncontiguous", "fortran", "bigendian", "rowstrided"]


def _meta(layout):
    import geff_spec

    if layout not in _MD:
        pm = lambda k: geff_spec.PropMetadata(identifier=k, dtype="int64")  # noqa: E731
        tnp = dict((k, v) for k, v in TNP[layout])
        _MD[layout] = geff_spec.GeffMetadata(
            geff_version="1.0.0", directed=True, node_props_metadata={p: pm(p) for p in tnp.values()},
            edge_props_metadata={}, track_node_props=dict(tnp))
    return _MD[layout]


def _lay(a, layout):
    from harness.corr.C12 import variant_array

    if layout == "rowstrided":
        big = np.zeros((2 * a.shape[0] + 1,) + a.shape[1:], dtype=a.dtype)
        big[1::2] = a
        return big[1::2]
    return variant_array(a, layout)


def dtyped_ints(v):
    c, off, loff = v["case"], v["off"], v["loff"]
    return ([x + off for x in c["nodes"]], [[a + off, b + off] for a, b in c["edges"]], [x + loff for x in c["labels"]])


def impl_dtyped(v):
    """validate_tracklets and validate_data(tracklet=True) on arrays of independently chosen integer dtypes (node ids, edges,
    tracklet ids), values shifted to the limits of the dtypes, held read-only / non-contiguous / Fortran / big-endian.
    The function documents a cast to int64: verdict and named ids must be those of the integer VALUES."""
    from geff.validate.data import ValidationConfig
    from geff.validate.tracks import validate_tracklets

    ns, es, ls = dtyped_ints(v)
    nodes = _lay(np.asarray(ns, dtype=v["nd"]), v["layout"])
    edges = _lay(np.asarray(es, dtype=v["ed"]).reshape(-1, 2), v["layout"])
    labels = _lay(np.asarray(ls, dtype=v["ld"]), v["layout"])
    arrs = [nodes, edges, labels]
    snap = lambda: [(a.tobytes(), a.dtype.str, a.shape, a.flags.writeable) for a in arrs]  # noqa: E731
    before = snap()
    try:
        valid, errors = validate_tracklets(nodes, edges, labels)
        out = {"valid": bool(valid), "messages": [str(m) for m in errors], "bad": [e["t"] for e in parse_errors(errors)]}
    except Exception as ex:  # noqa: BLE001
        out = {"exc": type(ex).__name__ + ": " + str(ex)[:80]}
    md = _meta(v["track_layout"])
    props = {}
    for pn in md.track_node_props.values():
        props[pn] = ({"values": labels, "missing": None} if pn == "trk"
                     else {"values": np.zeros(len(ns), dtype=np.int64), "missing": None})
    g = {"metadata": md, "node_ids": nodes, "edge_ids": edges, "node_props": props, "edge_props": {}}
    out["vd"] = vd_outcome(g, ValidationConfig(tracklet=True))
    out["modified"] = snap() != before
    return out


def dtyped_reqs(v):
    ns, es, ls = dtyped_ints(v)
    c = {"nodes": ns, "edges": es, "labels": ls, "missing": None, "track_layout": v["track_layout"]}
    return arrays_req(c), data_req(c)


def dtyped_verdict(v, r):
    """(key, message) of the violation shown by observation r of impl_dtyped(v), or None — oracle on the integer values"""
    c, loff = v["case"], v["loff"]
    s_valid, s_bad = spec_oracle(c["nodes"], c["labels"], c["edges"])
    want_bad = [x + loff for x in s_bad]
    dt = (f"node/edge/tracklet-id dtypes {v['nd']}/{v['ed']}/{v['ld']}, node ids shifted by {v['off']}, tracklet ids by {loff}, "
          f"layout {v['layout']}")
    if "exc" in r:
        return "C13:exception-for-integer-dtype", f"validate_tracklets raised {r['exc']} for {dt}"
    if r["valid"] != s_valid:
        return "C13:verdict-depends-on-dtype", f"{dt}: got {r['valid']} {r['bad']}, the definition says {s_valid} {want_bad}"
    if r["bad"] != want_bad:
        if r["bad"] == [wrap64(x) for x in want_bad] and any(x >= 2 ** 63 for x in want_bad):
            return ("C13:uint64-id-wrapped-in-message",
                    f"{dt}: the verdict is right but the messages name {r['bad']} instead of the offending tracklet ids {want_bad}")
        return "C13:verdict-depends-on-dtype", f"{dt}: got {r['valid']} {r['bad']}, the definition says {s_valid} {want_bad}"
    want_vd = "ok" if s_valid else "ValueError"
    if r["vd"]["outcome"] != want_vd:
        return ("C13:verdict-depends-on-dtype", f"{dt}: validate_data(tracklet=True) ended in {r['vd']['outcome']}, the definition says valid={s_valid}")
    if r["modified"]:
        return "C13:validator-modifies-input", f"tracklet validation modified its argument arrays ({dt})"
    return None


def gen_dtyped(rng, c, j):
    ii = np.iinfo
    ids = c["nodes"] + [x for e in c["edges"] for x in e]
    lo, hi = min(ids), max(ids)
    llo, lhi = min(c["labels"]), max(c["labels"])
    nd = rng.choice(INT_DTYPES)
    ed = nd if rng.random() < 0.5 else rng.choice(INT_DTYPES)
    ld = rng.choice(INT_DTYPES)
    if j % 6 == 0:
        nd = ed = "uint64"
        ld = rng.choice(["uint64", "uint64", "int64", "uint8"])

    def pick(dts, a, b):
        omin = max(int(ii(d).min) for d in dts) - a
        omax = min(int(ii(d).max) for d in dts) - b
        if omin > omax:
            return None
        cands = [omin, omax, 0, 2 ** 63 - 1 - b, 2 ** 63 - a, 2 ** 63 - (a + b) // 2 - 1, 2 ** 53 + 1, -(2 ** 63) - a, rng.randint(omin, omax)]
        cands = [x for x in cands if omin <= x <= omax]
        return rng.choice(cands)
    off = pick((nd, ed), lo, hi)
    if off is None:
        nd = ed = "int64"
        off = pick((nd, ed), lo, hi)
    loff = pick((ld,), llo, lhi)
    if loff is None:
        ld = "int64"
        loff = pick((ld,), llo, lhi)
    return {"case": {"nodes": c["nodes"], "labels": c["labels"], "edges": c["edges"]}, "nd": nd, "ed": ed, "ld": ld, "off": off, "loff": loff,
            "layout": rng.choice(LAYOUTS), "track_layout": TRACK_LAYOUTS[j % 3]}


def run_dtyped(ck, drv, cases):
    pool = [c for c in cases if c.get("missing") is None and c.get("dtype") is None and c["nodes"] and in_domain(c)
            and all(0 <= x <= 120 for x in c["nodes"] + c["labels"] + [y for e in c["edges"] for y in e])]
    n = 2500 if ck.quick else 16000
    fixed = [  # the corpus shape of the known finding, and ids straddling 2^63
        {"case": {"nodes": [1, 2, 3], "labels": [1, 1, 1], "edges": [[1, 2]]}, "nd": "uint64", "ed": "uint64", "ld": "uint64",
         "off": 0, "loff": 2 ** 63, "layout": "plain", "track_layout": "tracklet-only"},
        {"case": {"nodes": [1, 2, 3], "labels": [7, 7, 9], "edges": [[1, 2], [2, 3]]}, "nd": "uint64", "ed": "uint64", "ld": "uint64",
         "off": 2 ** 63 - 2, "loff": 2 ** 63 - 8, "layout": "readonly", "track_layout": "lineage,tracklet"},
        {"case": {"nodes": [1, 2, 3], "labels": [7, 7, 9], "edges": [[1, 2], [2, 3]]}, "nd": "int8", "ed": "int64", "ld": "int16",
         "off": -129, "loff": -(2 ** 15) - 7, "layout": "noncontiguous", "track_layout": "tracklet,lineage"}]
    vs = fixed + [gen_dtyped(ck.rng, ck.rng.choice(pool), j) for j in range(n)]
    reqs = [dtyped_reqs(v) for v in vs]
    m_arr = drv.ask([a for a, _ in reqs])
    m_dat = drv.ask([d for _, d in reqs])
    if m_arr is None or m_dat is None:
        ck.broken.append({"what": "driver Drivers/C13.lean (dtype stream)", "detail": drv.broken})
    hist = {}
    for i, (v, r) in enumerate(zip(vs, common.pmap(impl_dtyped, vs, chunksize=128))):
        ns, es, ls = dtyped_ints(v)
        beyond = any(x >= 2 ** 63 for x in ns + ls)
        neg = any(x < 0 for x in ns + ls)
        ck.case({"dtyped": v}, f"dtyped-{'same' if v['nd'] == v['ed'] else 'mixed'}-{v['layout']}"
                + ("-beyond-int64" if beyond else "") + ("-negative" if neg else ""))
        k = f"{v['nd']}/{v['ed']}/{v['ld']}"
        hist[k] = hist.get(k, 0) + 1
        bad = dtyped_verdict(v, r)
        if bad:
            ck.fail(bad[0], bad[1], {"dtyped": v}, r, None)
        if m_arr is not None and m_dat is not None:
            ma, md = m_arr[i], m_dat[i]
            if "err" in ma or "err" in md:
                ck.corr_broken("C13:driver", {"dtyped": v}, r, [ma, md])
                continue
            if "exc" in r or ma.get("valid") != r["valid"] or ma.get("messages") != r["messages"]:
                ck.corr_broken("C13:validateTrackletsArrays", {"dtyped": v}, r, ma)
            if not same_vd(md, r["vd"]):
                ck.corr_broken("C13:validateDataTracks", {"dtyped": v}, r["vd"], md)
    ck.extra["dtyped_cases"] = len(vs)
    ck.extra["dtyped_dtype_triples_seen"] = len(hist)


# ----------------------------------------------------------------- histories on ONE in-memory geff object
H_DECLARES = {"tracklet-only": [["tracklet", "trk"]], "lineage-only": [["lineage", "lin"]],
              "tracklet,lineage": [["tracklet", "trk"], ["lineage", "lin"]], "lineage,tracklet": [["lineage", "lin"], ["tracklet", "trk"]],
              "none": None}


def _h_geff(h, labels):
    import geff_spec

    c = h["case"]
    tnp = H_DECLARES[h["declares"]]
    names = ["trk", "lin"] if h["declares"] != "lineage,tracklet" else ["lin", "trk"]
    md = geff_spec.GeffMetadata(
        geff_version="1.0.0", directed=True,
        node_props_metadata={k: geff_spec.PropMetadata(identifier=k, dtype="int64") for k in names},
        edge_props_metadata={}, track_node_props=None if tnp is None else {k: v for k, v in tnp})
    lay = h.get("layout", "plain")
    mk = lambda vals, dt: _lay(np.asarray(vals, dtype=dt), lay)  # noqa: E731
    props = {}
    for k in names:
        if k in h.get("absent", []):
            continue
        miss = h["trk_missing"] if k == "trk" else h["lin_missing"]
        props[k] = {"values": np.asarray(labels if k == "trk" else h["lin"], dtype=np.int64) if k == "trk" else mk(h["lin"], np.int64),
                    "missing": None if miss is None else mk(miss, bool)}
    return {"metadata": md, "node_ids": mk(c["nodes"], np.int64), "edge_ids": _lay(np.asarray(c["edges"], dtype=np.int64).reshape(-1, 2), lay),
            "node_props": props, "edge_props": {}}


def impl_history(h):
    """ONE in-memory geff object validated 3-6 times with re-used ValidationConfig objects (tracklet / lineage / both), the
    caller editing the tracklet-id array IN PLACE between some calls.  Per call: outcome + exception args verbatim, the same
    on a FRESH geff with a fresh config, whether any array of the geff or the config object changed."""
    from geff.validate.data import ValidationConfig

    from harness.corr.C12 import snapshot, snapshot_diff

    labels = list(h["case"]["labels"])
    g = _h_geff(h, labels)
    cfgs = {}
    out = []
    for st in h["steps"]:
        if st.get("edit") is not None and "trk" in g["node_props"]:
            i, x = st["edit"]
            g["node_props"]["trk"]["values"][i] = x
            labels[i] = x
        key = tuple(st["cfg"])
        cfg = cfgs.setdefault(key, ValidationConfig(tracklet=bool(key[0]), lineage=bool(key[1])))
        dump0 = cfg.model_dump()
        before = snapshot(g)
        r = vd_outcome(g, cfg)
        out.append({"shared": r, "fresh": vd_outcome(_h_geff(h, labels), ValidationConfig(tracklet=bool(key[0]), lineage=bool(key[1]))),
                    "modified": bool(snapshot_diff(before, snapshot(g))), "cfg_changed": cfg.model_dump() != dump0,
                    "labels": list(labels)})
    return out


def history_reqs(h):
    """one `data` request per step, with the contents the geff has at that step"""
    c = h["case"]
    labels = list(c["labels"])
    reqs = []
    for st in h["steps"]:
        if st.get("edit") is not None and "trk" not in h.get("absent", []):
            labels[st["edit"][0]] = st["edit"][1]
        props = []
        for k in (["trk", "lin"] if h["declares"] != "lineage,tracklet" else ["lin", "trk"]):
            if k in h.get("absent", []):
                continue
            props.append([k, {"values": [str(x) for x in (labels if k == "trk" else h["lin"])],
                              "missing": h["trk_missing"] if k == "trk" else h["lin_missing"]}])
        reqs.append({"op": "data", "cfg": {"tracklet": bool(st["cfg"][0]), "lineage": bool(st["cfg"][1])}, "tnp": H_DECLARES[h["declares"]],
                     "props": props, "nodes": [str(x) for x in c["nodes"]], "edges": [[str(a), str(b)] for a, b in c["edges"]]})
    return reqs


def history_expected(h, st, labels):
    """model-free: which check fires first (tracklet before lineage), from the two oracles; None = not decidable here"""
    from harness.corr.C12 import lineage_oracle

    c = h["case"]
    n = len(c["nodes"])
    tnp = H_DECLARES[h["declares"]]
    if tnp is None:
        return "ok"
    decl = dict((k, v) for k, v in tnp)
    for flag, kind, pn, miss, vals in ((st["cfg"][0], "tracklet", "trk", h["trk_missing"], labels),
                                      (st["cfg"][1], "lineage", "lin", h["lin_missing"], h["lin"])):
        if not flag or kind not in decl:
            continue
        if pn in h.get("absent", []) or (miss is not None and len(miss) != n):
            return None     # KeyError / numpy IndexError today: what the code does, not something the property prescribes
        if kind == "tracklet":
            keep = [i for i in range(n) if not (miss and miss[i])]
            ok, _ = spec_oracle([c["nodes"][i] for i in keep], [vals[i] for i in keep], c["edges"])
        else:
            ok, _ = lineage_oracle({"nodes": c["nodes"], "labels": vals, "edges": c["edges"], "missing": miss})
        if not ok:
            return f"Found invalid {kind}s:\n"
    return "ok"


def gen_history(rng, pool, j):
    c = rng.choice(pool)
    n = len(c["nodes"])
    good, bad = lineage_labellings(c, f"hist:{j}")
    lin = bad if (bad is not None and rng.random() < 0.35) else good
    mask = lambda p: [rng.random() < p for _ in range(n)]  # noqa: E731
    h = {"case": {"nodes": c["nodes"], "labels": c["labels"], "edges": c["edges"]}, "lin": lin,
         "trk_missing": mask(0.25) if rng.random() < 0.3 else None, "lin_missing": mask(0.25) if rng.random() < 0.2 else None,
         "declares": rng.choice(["tracklet,lineage", "lineage,tracklet", "tracklet,lineage", "lineage,tracklet", "tracklet-only", "lineage-only", "none"]),
         "layout": rng.choice(["plain", "plain", "noncontiguous", "fortran", "bigendian", "rowstrided"]), "absent": [], "steps": []}
    r = rng.random()
    if r < 0.04:
        h["trk_missing"] = [rng.random() < 0.3 for _ in range(n + rng.choice([-1, 1, 2]))]
    elif r < 0.07:
        h["lin_missing"] = [rng.random() < 0.3 for _ in range(n + rng.choice([-1, 1]))]
    elif r < 0.12:
        h["absent"] = [rng.choice(["trk", "lin"])]
    elif r < 0.14:
        h["trk_missing"] = []      # numpy accepts an EMPTY boolean mask against any length: it selects nothing
    for _ in range(rng.randint(3, 6)):
        st = {"cfg": rng.choice([[1, 0], [1, 1], [0, 1], [1, 1], [1, 0]]), "edit": None}
        if rng.random() < 0.35:
            st["edit"] = [rng.randrange(n), rng.choice(c["labels"] + [777])]
        h["steps"].append(st)
    return h


def judge_history(ck, h, outs, mo):
    bad = []
    for k, (st, r) in enumerate(zip(h["steps"], outs)):
        sig = lambda o: (o["outcome"], tuple(o.get("args") or ()))  # noqa: E731
        if sig(r["shared"]) != sig(r["fresh"]):
            bad.append(("C13:history-dependent-verdict", f"call {k} (cfg tracklet/lineage={st['cfg']}) on the SAME in-memory geff object with a re-used "
                        f"ValidationConfig ended in {r['shared']}, a fresh geff with a fresh config in {r['fresh']}"))
        if r["modified"]:
            bad.append(("C13:validator-modifies-input", f"call {k}: validate_data modified an array of the in-memory geff it validated"))
        if r["cfg_changed"]:
            bad.append(("C13:validate-modifies-config", f"call {k}: validate_data changed the caller's ValidationConfig object"))
        want = history_expected(h, st, r["labels"])
        got = r["fresh"]["outcome"] if r["fresh"]["outcome"] != "ValueError" else (r["fresh"].get("args") or [""])[0].split("\n")[0] + "\n"
        if want is not None and want != got:
            bad.append(("C13:validate_data-order-of-checks", f"call {k} (cfg tracklet/lineage={st['cfg']}, declares {h['declares']}): validate_data ended in "
                        f"{got!r}; the checks in documented order (tracklet, then lineage) on the ids that are not missing give {want!r}"))
        if mo is not None:
            m = mo[k]
            if "err" in m:
                ck.corr_broken("C13:driver", {"history": h}, r, m)
            elif not same_vd(m, r["shared"]):
                ck.corr_broken("C13:validateDataTracks", {"history": h, "step": k}, r["shared"], m)
    return bad


def run_histories(ck, drv, cases):
    pool = [c for c in cases if c.get("missing") is None and c.get("dtype") is None and c["nodes"] and in_domain(c)]
    n = 700 if ck.quick else 5000
    hs = [gen_history(ck.rng, pool, j) for j in range(n)]
    flat = [r for h in hs for r in history_reqs(h)]
    mflat = drv.ask(flat)
    if mflat is None:
        ck.broken.append({"what": "driver Drivers/C13.lean (history stream)", "detail": drv.broken})
    pos = 0
    oh = {}
    for h, outs in zip(hs, common.pmap(impl_history, hs, chunksize=32)):
        k = len(h["steps"])
        mo = None if mflat is None else mflat[pos:pos + k]
        pos += k
        ck.case({"history": h}, f"history-{k}-{h['declares']}" + ("-absent" if h["absent"] else ""))
        for r in outs:
            key = r["shared"]["outcome"] if r["shared"]["outcome"] != "ValueError" else (r["shared"].get("args") or ["?"])[0].strip()
            oh[key] = oh.get(key, 0) + 1
        for key, what in judge_history(ck, h, outs, mo)[:1]:
            ck.fail(key, what, {"history": h}, outs, None)
    ck.extra["geff_object_histories"] = n
    ck.extra["geff_object_history_outcomes"] = oh


# ----------------------------------------------------------------- histories of validator CALLS on the same ARRAY OBJECTS
# The property speaks of the graph and labelling GIVEN to the validator: every call has to decide the definition on the contents its
# argument arrays have AT THE TIME OF THE CALL, whatever was validated before in the same process and on whichever array objects.
# A history holds 1-2 "slots" of numpy arrays (node ids, edge ids, tracklet ids, lineage ids; slot 1 may hold the SAME node-id array
# object as slot 0 with another edge array = one node array re-used for a different graph) plus ONE in-memory geff per slot built
# from these very objects, and interleaves
#   calls: validate_tracklets(nodes, edges, labels) | validate_lineages(nodes, edges, lin) | validate_data(geff, cfg)   (all three
#          entry points share whatever process state tracks.py keeps), with
#   in-place edits: one edge row, one node id (plain, or renamed consistently in the edge arrays), one tracklet / lineage id,
#          the whole edge array overwritten by another edge set of the same shape (np.copyto), the whole tracklet-id array
#          overwritten by the true partition of the current graph.
# A python-list mirror (`ah_states`) carries the CURRENT contents; every call is judged on them by the independent oracles, compared
# verbatim with the proved Lean model (ops arrays / data, and the whole trace with `runHist`, op hist) and with the same call on
# fresh copies.
AH_DECLARES = ["tracklet,lineage", "lineage,tracklet", "tracklet-only", "tracklet,lineage", "lineage,tracklet", "lineage-only", "none"]
AH_CALLS = ("trk", "lin", "vd")
_AH_MD = {}


def _ah_meta(declares):
    import geff_spec

    if declares not in _AH_MD:
        tnp = H_DECLARES[declares]
        names = _ah_names(declares)
        _AH_MD[declares] = (names, geff_spec.GeffMetadata(
            geff_version="1.0.0", directed=True,
            node_props_metadata={k: geff_spec.PropMetadata(identifier=k, dtype="int64") for k in names},
            edge_props_metadata={}, track_node_props=None if tnp is None else {k: v for k, v in tnp}))
    return _AH_MD[declares]


def ah_initial(ah):
    """python-list mirror of the array objects of the history; a slot with nodes None shares slot 0's node LIST (as the
    implementation side shares the array object)"""
    slots = []
    for s in ah["slots"]:
        slots.append({"nodes": slots[0]["nodes"] if s["nodes"] is None else list(s["nodes"]), "edges": [list(e) for e in s["edges"]],
                      "labels": list(s["labels"]), "lin": list(s["lin"]), "trk_missing": s.get("trk_missing"),
                      "declares": s["declares"]})
    return slots


def ah_edit(slots, st):
    """apply one in-place edit to the mirror"""
    s = slots[st["slot"]]
    op = st["op"]
    if op == "set_edge":
        s["edges"][st["i"]] = list(st["e"])
    elif op == "set_node":
        old = s["nodes"][st["i"]]
        s["nodes"][st["i"]] = st["x"]
        if st.get("rename"):       # the caller renames the node consistently in every edge array that goes with this node array
            for t in slots:
                if t["nodes"] is s["nodes"]:
                    t["edges"][:] = [[st["x"] if a == old else a, st["x"] if b == old else b] for a, b in t["edges"]]
    elif op == "set_label":
        s["labels"][st["i"]] = st["x"]
    elif op == "set_lin":
        s["lin"][st["i"]] = st["x"]
    elif op == "load_edges":
        s["edges"][:] = [list(e) for e in st["edges"]]
    elif op == "load_labels":
        s["labels"][:] = list(st["labels"])
    else:
        raise ValueError(op)


def ah_states(ah):
    """per step: None for an edit, for a call the contents (deep copy) of the slot it is made on"""
    slots = ah_initial(ah)
    out = []
    for st in ah["steps"]:
        if st["op"] in AH_CALLS:
            s = slots[st["slot"]]
            out.append({"nodes": list(s["nodes"]), "edges": [list(e) for e in s["edges"]], "labels": list(s["labels"]), "lin": list(s["lin"]),
                        "trk_missing": s["trk_missing"], "declares": s["declares"]})
        else:
            ah_edit(slots, st)
            out.append(None)
    return out


def _ah_geff(cur, arrays=None, layout="plain"):
    """in-memory geff of the contents `cur`; with `arrays` it is built FROM THESE OBJECTS (nothing is copied)"""
    names, md = _ah_meta(cur["declares"])
    if arrays is None:
        arrays = {"nodes": np.asarray(cur["nodes"], dtype=np.int64), "edges": np.asarray(cur["edges"], dtype=np.int64).reshape(-1, 2),
                  "labels": np.asarray(cur["labels"], dtype=np.int64), "lin": np.asarray(cur["lin"], dtype=np.int64)}
    miss = cur["trk_missing"]
    props = {k: {"values": arrays["labels"] if k == "trk" else arrays["lin"],
                 "missing": (None if miss is None else np.asarray(miss, dtype=bool)) if k == "trk" else None} for k in names}
    return {"metadata": md, "node_ids": arrays["nodes"], "edge_ids": arrays["edges"], "node_props": props, "edge_props": {}}


def _ah_call(st, arrays, g, cfgs):
    from geff.validate.data import ValidationConfig
    from geff.validate.tracks import validate_lineages, validate_tracklets

    if st["op"] == "vd":
        key = tuple(st["cfg"])
        cfg = cfgs.setdefault(key, ValidationConfig(tracklet=bool(key[0]), lineage=bool(key[1]))) if cfgs is not None else \
            ValidationConfig(tracklet=bool(key[0]), lineage=bool(key[1]))
        return vd_outcome(g, cfg)
    try:
        if st["op"] == "trk":
            valid, errors = validate_tracklets(arrays["nodes"], arrays["edges"], arrays["labels"])
            return {"valid": bool(valid), "messages": [str(m) for m in errors], "bad": [e["t"] for e in parse_errors(errors)]}
        valid, errors = validate_lineages(arrays["nodes"], arrays["edges"], arrays["lin"])
        return {"valid": bool(valid), "messages": [str(m) for m in errors]}
    except Exception as ex:  # noqa: BLE001
        return {"exc": type(ex).__name__ + ": " + str(ex)[:80]}


def impl_array_history(ah):
    """run the history on ONE set of array objects per slot (edits in place, every call on the same objects); per call: the
    observation, the same call on fresh copies of the current contents, whether the call changed an array"""
    lay = ah.get("layout", "plain")
    slots = []
    for s in ah["slots"]:
        arrays = {"nodes": slots[0][0]["nodes"] if s["nodes"] is None else _lay(np.asarray(s["nodes"], dtype=np.int64), lay),
                  "edges": _lay(np.asarray(s["edges"], dtype=np.int64).reshape(-1, 2), lay),
                  "labels": _lay(np.asarray(s["labels"], dtype=np.int64), lay), "lin": _lay(np.asarray(s["lin"], dtype=np.int64), lay)}
        cur0 = {"declares": s["declares"], "trk_missing": s.get("trk_missing")}
        slots.append((arrays, _ah_geff(cur0, arrays)))
    cfgs = {}
    out = []

    def contents(arrays):
        return {k: arrays[k].tolist() for k in ("nodes", "edges", "labels", "lin")}
    for st, cur in zip(ah["steps"], ah_states(ah)):
        arrays, g = slots[st["slot"]]
        if cur is None:                                  # in-place edit of the array objects
            op = st["op"]
            if op == "set_edge":
                arrays["edges"][st["i"]] = st["e"]
            elif op == "set_node":
                old = int(arrays["nodes"][st["i"]])
                arrays["nodes"][st["i"]] = st["x"]
                if st.get("rename"):
                    for a2, _g2 in slots:
                        if a2["nodes"] is arrays["nodes"]:
                            a2["edges"][a2["edges"] == old] = st["x"]
            elif op == "set_label":
                arrays["labels"][st["i"]] = st["x"]
            elif op == "set_lin":
                arrays["lin"][st["i"]] = st["x"]
            elif op == "load_edges":
                np.copyto(arrays["edges"], np.asarray(st["edges"], dtype=np.int64).reshape(-1, 2))
            elif op == "load_labels":
                np.copyto(arrays["labels"], np.asarray(st["labels"], dtype=np.int64))
            out.append(None)
            continue
        want = {k: cur[k] for k in ("nodes", "edges", "labels", "lin")}
        if contents(arrays) != want:
            raise RuntimeError(f"harness: mirror and arrays differ before a call: {contents(arrays)} vs {want}")
        shared = _ah_call(st, arrays, g, cfgs)
        out.append({"shared": shared, "modified": contents(arrays) != want})
    # only AFTER the whole history (no validator call of the harness's own may come between two calls of the history: it would
    # replace whatever the process remembers of the previous call): the same calls on fresh copies of the contents of that moment
    for st, cur, o in zip(ah["steps"], ah_states(ah), out):
        if cur is not None:
            fresh_arrays = {"nodes": np.asarray(cur["nodes"], dtype=np.int64), "edges": np.asarray(cur["edges"], dtype=np.int64).reshape(-1, 2),
                            "labels": np.asarray(cur["labels"], dtype=np.int64), "lin": np.asarray(cur["lin"], dtype=np.int64)}
            o["fresh"] = _ah_call(st, fresh_arrays, _ah_geff(cur, fresh_arrays), None)
    return out


def ah_reqs(ah):
    """(per-call requests of the ops arrays / data on the CURRENT contents, the single `hist` request of the whole history)"""
    per = []
    for st, cur in zip(ah["steps"], ah_states(ah)):
        if cur is None:
            continue
        c = {"nodes": cur["nodes"], "labels": cur["labels"], "edges": cur["edges"]}
        if st["op"] == "trk":
            per.append(arrays_req(c))
        elif st["op"] == "lin":
            per.append({"op": "data", "cfg": {"tracklet": False, "lineage": True}, "tnp": [["lineage", "lin"]],
                        "props": [["lin", {"values": [str(x) for x in cur["lin"]], "missing": None}]],
                        "nodes": [str(x) for x in cur["nodes"]], "edges": [[str(a), str(b)] for a, b in cur["edges"]]})
        else:
            props = [[k, {"values": [str(x) for x in (cur["labels"] if k == "trk" else cur["lin"])],
                          "missing": cur["trk_missing"] if k == "trk" else None}] for k in _ah_names(cur["declares"])]
            per.append({"op": "data", "cfg": {"tracklet": bool(st["cfg"][0]), "lineage": bool(st["cfg"][1])}, "tnp": H_DECLARES[cur["declares"]],
                        "props": props, "nodes": [str(x) for x in cur["nodes"]], "edges": [[str(a), str(b)] for a, b in cur["edges"]]})
    return per


def ah_hist_req(ah):
    """the whole history as ONE request of the Lean history model `runHist` (GeffModel/TrackletHist.lean): a heap of array objects
    addressed by position — a slot that shares slot 0's node array gets slot 0's ADDRESS —, in-place edits and calls"""
    ints, pairs, addr = [], [], []
    for s in ah["slots"]:
        a = {}
        if s["nodes"] is None:
            a["nodes"] = addr[0]["nodes"]
        else:
            a["nodes"] = len(ints)
            ints.append([str(x) for x in s["nodes"]])
        for k in ("labels", "lin"):
            a[k] = len(ints)
            ints.append([str(x) for x in s[k]])
        a["edges"] = len(pairs)
        pairs.append([[str(u), str(v)] for u, v in s["edges"]])
        addr.append(a)
    ops = []
    mirror = ah_initial(ah)
    for st in ah["steps"]:
        a, op = addr[st["slot"]], st["op"]
        if op not in AH_CALLS:
            ah_edit(mirror, st)
        if op == "set_edge":
            ops.append({"k": "setPair", "a": a["edges"], "i": st["i"], "e": [str(x) for x in st["e"]]})
        elif op == "set_node":
            ops.append({"k": "setInt", "a": a["nodes"], "i": st["i"], "x": str(st["x"])})
            if st.get("rename"):       # the consistent renaming in the edge arrays = these arrays overwritten with the renamed rows
                for a2, m2 in zip(addr, mirror):
                    if a2["nodes"] == a["nodes"]:
                        ops.append({"k": "loadPair", "a": a2["edges"], "es": [[str(u), str(v)] for u, v in m2["edges"]]})
        elif op in ("set_label", "set_lin"):
            ops.append({"k": "setInt", "a": a["labels" if op == "set_label" else "lin"], "i": st["i"], "x": str(st["x"])})
        elif op == "load_edges":
            ops.append({"k": "loadPair", "a": a["edges"], "es": [[str(u), str(v)] for u, v in st["edges"]]})
        elif op == "load_labels":
            ops.append({"k": "loadInt", "a": a["labels"], "xs": [str(x) for x in st["labels"]]})
        elif op == "trk":
            ops.append({"k": "trk", "n": a["nodes"], "e": a["edges"], "l": a["labels"]})
        elif op == "lin":
            ops.append({"k": "lin", "n": a["nodes"], "e": a["edges"], "l": a["lin"]})
        else:
            s = ah["slots"][st["slot"]]
            ops.append({"k": "data", "n": a["nodes"], "e": a["edges"], "cfg": {"tracklet": bool(st["cfg"][0]), "lineage": bool(st["cfg"][1])},
                        "tnp": H_DECLARES[s["declares"]],
                        "props": [[k, {"values": a["labels" if k == "trk" else "lin"], "missing": s.get("trk_missing") if k == "trk" else None}]
                                  for k in _ah_names(s["declares"])]})
    return {"op": "hist", "ints": ints, "pairs": pairs, "ops": ops}


def ah_same_trace(st, m, r):
    """one entry of the trace of `runHist` == implementation observation of that call (verbatim)"""
    if "err" in m or "exc" in m or "exc" in r:
        return False
    if st["op"] in ("trk", "lin"):
        return m.get("valid") == r["valid"] and m.get("messages") == r["messages"]
    return same_vd(m, r)


def _ah_names(declares):
    """insertion order of the id properties in node_props"""
    return ["trk", "lin"] if declares != "lineage,tracklet" else ["lin", "trk"]


def ah_same_model(st, m, r):
    """model answer for one call step == implementation observation (verbatim)"""
    if "err" in m:
        return False
    if st["op"] == "trk":
        return "exc" not in r and m.get("valid") == r["valid"] and m.get("messages") == r["messages"]
    if st["op"] == "lin":
        if "exc" in r:
            return False
        if r["valid"]:
            return m.get("outcome") == "ok" and not r["messages"]
        return m.get("outcome") == "ValueError" and m.get("args") == ["Found invalid lineages:\n", "\n".join(r["messages"])]
    return same_vd(m, r)


def ah_step_verdict(st, cur, r):
    """model-free judgement of ONE call of a history on the contents `cur` the arrays had when it was made:
    list of (key, message).  Lineage calls are C14's subject: they are observed (and compared with the model), not judged here."""
    bad = []
    where = {"trk": "validate_tracklets(nodes, edges, tracklet_ids)", "lin": "validate_lineages(nodes, edges, lineage_ids)",
             "vd": f"validate_data(geff, tracklet/lineage={st.get('cfg')})"}[st["op"]]
    now = f"nodes {cur['nodes']} edges {cur['edges']} tracklet ids {cur['labels']}"
    if st["op"] == "lin":
        return bad
    if r["modified"]:
        bad.append(("C13:validator-modifies-input", f"{where} modified one of its argument arrays"))
    if st["op"] == "trk":
        c = {"nodes": cur["nodes"], "labels": cur["labels"], "edges": cur["edges"], "missing": None}
        if in_domain(c):
            s_valid, s_bad = spec_oracle(c["nodes"], c["labels"], c["edges"])
            o = r["shared"]
            if "exc" in o:
                bad.append(("C13:exception", f"{where} raised {o['exc']} on an acyclic graph ({now})"))
            elif o["valid"] != s_valid:
                bad.append(("C13:stale-accepts-invalid" if o["valid"] else "C13:stale-rejects-valid",
                            f"{where} returned {o['valid']} {o['messages']}; on the CURRENT contents of its arguments ({now}) the documented "
                            f"definition says valid={s_valid}, offending {s_bad}"))
            elif o["bad"] != s_bad:
                bad.append(("C13:stale-wrong-offenders", f"{where} names tracklets {o['bad']}; on the current contents ({now}) the offending "
                            f"ones are {s_bad}"))
    else:
        c = {"nodes": cur["nodes"], "labels": cur["labels"], "edges": cur["edges"], "missing": cur["trk_missing"]}
        if in_domain(c):
            h = {"case": {"nodes": cur["nodes"], "edges": cur["edges"]}, "declares": cur["declares"], "trk_missing": cur["trk_missing"],
                 "lin_missing": None, "lin": cur["lin"], "absent": []}
            want = history_expected(h, st, cur["labels"])
            o = r["shared"]
            got = o["outcome"] if o["outcome"] != "ValueError" else (o.get("args") or [""])[0].split("\n")[0] + "\n"
            if want is not None and want != got:
                bad.append(("C13:stale-validate_data-verdict", f"{where} (declares {cur['declares']}) ended in {got!r} {o.get('args')}; the checks in "
                            f"documented order on the CURRENT contents of the geff's arrays ({now}, lineage ids {cur['lin']}, missing "
                            f"{cur['trk_missing']}) give {want!r}"))
    if r["shared"] != r["fresh"]:       # model-free and domain-free: the verdict is a function of the contents
        bad.append(("C13:verdict-depends-on-earlier-calls", f"{where} on array objects that were validated before and edited in place since "
                    f"gives {r['shared']}; the same call on fresh copies of the same contents ({now}) gives {r['fresh']}"))
    return bad


def judge_array_history(ck, ah, outs, per_model, trace=None):
    """-> list of (key, message) (model-free); model disagreements go to ck.corr_broken"""
    bad = []
    k = 0
    if trace is not None:
        calls = [(st, r) for st, r in zip(ah["steps"], outs) if r is not None]
        tr = trace.get("trace")
        if tr is None or len(tr) != len(calls) or not all(ah_same_trace(st, m, r["shared"]) for (st, r), m in zip(calls, tr)):
            ck.corr_broken("C13:runHist(history of calls and in-place edits)", {"array_history": ah}, [r["shared"] for _, r in calls], trace)
    for i, (st, cur, r) in enumerate(zip(ah["steps"], ah_states(ah), outs)):
        if cur is None:
            continue
        bad += [(key, f"step {i}: {what}") for key, what in ah_step_verdict(st, cur, r)]
        if per_model is not None:
            m = per_model[k]
            if "err" in m:
                ck.corr_broken("C13:driver", {"array_history": ah, "step": i}, r["shared"], m)
            elif not ah_same_model(st, m, r["shared"]):
                ck.corr_broken({"trk": "C13:validateTrackletsArrays", "lin": "C13:lineage-call-in-history", "vd": "C13:validateDataTracks"}[st["op"]]
                               + "(current contents of re-used arrays)", {"array_history": ah, "step": i}, r["shared"], m)
            elif st["op"] == "lin" and r["shared"] != r["fresh"]:
                ck.corr_broken("C13:lineage-call-in-history", {"array_history": ah, "step": i}, r["shared"], r["fresh"])
        k += 1
    return bad


def _ah_rank(nodes, edges):
    """rank of every node POSITION in a topological order of the DAG (new edges go from lower to higher rank: still acyclic)"""
    import networkx as nx

    g = nx.DiGraph()
    g.add_nodes_from(nodes)
    g.add_edges_from((u, v) for u, v in edges)
    order = list(nx.topological_sort(g))
    return [order.index(x) for x in nodes]


def _ah_rand_edges(rng, nodes, rank, m):
    out = []
    for _ in range(m):
        a, b = rng.sample(range(len(nodes)), 2)
        if rank[a] > rank[b]:
            a, b = b, a
        out.append([nodes[a], nodes[b]])
    return out


def gen_array_history(rng, pool, j):
    c = rng.choice(pool)
    while len(c["nodes"]) < 2:
        c = rng.choice(pool)
    good, badl = lineage_labellings(c, f"ah:{j}")
    n = len(c["nodes"])
    mk_missing = lambda k: [rng.random() < 0.25 for _ in range(k)] if rng.random() < 0.15 else None  # noqa: E731
    slots = [{"nodes": list(c["nodes"]), "edges": [list(e) for e in c["edges"]], "labels": list(c["labels"]),
              "lin": badl if (badl is not None and rng.random() < 0.3) else good, "trk_missing": mk_missing(n), "declares": rng.choice(AH_DECLARES)}]
    ranks = [_ah_rank(c["nodes"], c["edges"])]
    if rng.random() < 0.4:
        if rng.random() < 0.7:      # the SAME node-id array with another edge array: one node array re-used for a different graph
            e2 = _ah_rand_edges(rng, c["nodes"], ranks[0], rng.randint(1, max(1, n)))
            lab2 = true_labelling(c["nodes"], e2, rng)
            if rng.random() < 0.4:
                lab2[rng.randrange(n)] = rng.choice(lab2)
            g2, _b2 = lineage_labellings({"nodes": c["nodes"], "edges": e2}, f"ah2:{j}")
            slots.append({"nodes": None, "edges": e2, "labels": lab2, "lin": g2, "trk_missing": None, "declares": rng.choice(AH_DECLARES)})
            ranks.append(ranks[0])
        else:
            c2 = rng.choice(pool)
            while len(c2["nodes"]) < 2:
                c2 = rng.choice(pool)
            g2, _b2 = lineage_labellings(c2, f"ah3:{j}")
            slots.append({"nodes": list(c2["nodes"]), "edges": [list(e) for e in c2["edges"]], "labels": list(c2["labels"]), "lin": g2,
                          "trk_missing": None, "declares": rng.choice(AH_DECLARES)})
            ranks.append(_ah_rank(c2["nodes"], c2["edges"]))
    ah = {"slots": slots, "steps": [], "layout": rng.choice(["plain", "plain", "plain", "noncontiguous", "fortran", "bigendian", "rowstrided"])}
    mirror = ah_initial(ah)

    def call(s):
        op = rng.choice(["trk", "trk", "trk", "lin", "vd", "vd", "vd"])
        st = {"op": op, "slot": s}
        if op == "vd":
            st["cfg"] = rng.choice([[1, 0], [1, 1], [1, 0], [0, 1]])
        return st

    def edit(s):
        cur, rank = mirror[s], ranks[s]
        k, m = len(cur["nodes"]), len(cur["edges"])
        r = rng.random()
        if r < 0.40 and m:
            if rng.random() < 0.1:      # anything goes: may close a cycle / make a self loop (then only model == implementation is compared)
                e = [rng.choice(cur["nodes"]), rng.choice(cur["nodes"])]
            else:
                e = _ah_rand_edges(rng, cur["nodes"], rank, 1)[0]
            return {"op": "set_edge", "slot": s, "i": rng.randrange(m), "e": e}
        if r < 0.50:
            x = max(cur["nodes"]) + rng.randint(1, 5)
            return {"op": "set_node", "slot": s, "i": rng.randrange(k), "x": x, "rename": rng.random() < 0.8}
        if r < 0.62:
            return {"op": "set_label", "slot": s, "i": rng.randrange(k), "x": rng.choice(cur["labels"] + [777])}
        if r < 0.67:
            return {"op": "set_lin", "slot": s, "i": rng.randrange(k), "x": rng.choice(cur["lin"] + [888])}
        if r < 0.84 and m:
            return {"op": "load_edges", "slot": s, "edges": _ah_rand_edges(rng, cur["nodes"], rank, m)}
        return {"op": "load_labels", "slot": s, "labels": true_labelling(cur["nodes"], cur["edges"], rng)}
    s = 0
    ah["steps"].append(call(s))
    for _ in range(rng.randint(2, 5)):
        if len(slots) > 1 and rng.random() < 0.4:
            s = 1 - s
        if rng.random() < 0.75:
            for _e in range(rng.choice([1, 1, 2])):
                st = edit(s)
                ah_edit(mirror, st)
                ah["steps"].append(st)
        ah["steps"].append(call(s))
    return ah


def exhaustive_array_histories(nmax):
    """every DAG on 2..nmax nodes with an edge x every replacement of ONE edge row by another ordered pair (those that close a cycle
    included) x {true partition of the graph before, of the graph after, one id for all} x call patterns
    (call, edit, call) over the three entry points"""
    import random

    pats = [("trk", "trk"), ("lin", "trk"), ("vd10", "vd10"), ("trk", "vd11"), ("vd01", "trk")]
    for n in range(2, nmax + 1):
        nodes = list(range(n))
        pairs = [[a, b] for a in range(n) for b in range(n) if a != b]
        for edges in digraphs(n):
            if not edges or not is_dag(edges):
                continue
            for i in range(len(edges)):
                for e in pairs:
                    if e == edges[i]:
                        continue
                    after = [list(x) for x in edges]
                    after[i] = e
                    rng = random.Random(0)
                    labs = [true_labelling(nodes, edges, rng), true_labelling(nodes, after, rng), [7] * n]
                    for li, lab in enumerate(labs):
                        a, b = pats[(i + li + len(edges) + pairs.index(e)) % len(pats)]
                        mk = lambda p: {"op": "vd", "slot": 0, "cfg": [int(p[2]), int(p[3])]} if p.startswith("vd") else {"op": p, "slot": 0}  # noqa: E731
                        yield {"slots": [{"nodes": nodes, "edges": edges, "labels": lab, "lin": [100] * n, "trk_missing": None,
                                          "declares": "tracklet,lineage"}],
                               "steps": [mk(a), {"op": "set_edge", "slot": 0, "i": i, "e": e}, mk(b)], "layout": "plain"}


def run_array_histories(ck, drv, cases, corpus_hist):
    pool = [c for c in cases if c.get("missing") is None and c.get("dtype") is None and c["nodes"] and in_domain(c)
            and all(abs(x) < 2 ** 40 for x in c["nodes"]) and len(c["nodes"]) <= 14]   # small graphs: the dimension explored here is the history
    hs = list(corpus_hist) + list(exhaustive_array_histories(3 if ck.quick else 4))
    n_fixed = len(hs)
    hs += [gen_array_history(ck.rng, pool, j) for j in range(1500 if ck.quick else 12000)]
    per = [ah_reqs(ah) for ah in hs]
    mflat = drv.ask([r for p in per for r in p])
    traces = drv.ask([ah_hist_req(ah) for ah in hs])
    if mflat is None or traces is None:
        ck.broken.append({"what": "driver Drivers/C13.lean (array-history stream)", "detail": drv.broken})
    pos = 0
    stats = {"calls": 0, "calls_after_an_in_place_edit_of_ids": 0, "verdict_differs_from_previous_call_on_same_arrays": 0}
    for hi, (ah, outs, p) in enumerate(zip(hs, common.pmap(impl_array_history, hs, chunksize=32), per)):
        mo = None if mflat is None else mflat[pos:pos + len(p)]
        pos += len(p)
        calls = [st["op"] for st in ah["steps"] if st["op"] in AH_CALLS]
        edits = sorted({st["op"] for st in ah["steps"] if st["op"] not in AH_CALLS})
        ck.case({"array_history": ah}, f"arrays-history:{'+'.join(sorted(set(calls)))}:slots={len(ah['slots'])}:" + ("edits-ids" if
                {"set_edge", "set_node", "load_edges"} & set(edits) else "edits-labels-only"))
        last = {}
        dirty = set()
        for st, r in zip(ah["steps"], outs):
            if r is None:
                if st["op"] in ("set_edge", "set_node", "load_edges"):
                    dirty.add(st["slot"])
                continue
            stats["calls"] += 1
            if st["slot"] in dirty:
                stats["calls_after_an_in_place_edit_of_ids"] += 1
            key = (st["slot"], st["op"], tuple(st.get("cfg", ())))
            sig = r["shared"].get("valid", r["shared"].get("outcome"))
            if key in last and last[key] != sig:
                stats["verdict_differs_from_previous_call_on_same_arrays"] += 1
            last[key] = sig
        for key, what in judge_array_history(ck, ah, outs, mo, None if traces is None else traces[hi])[:1]:
            ck.fail(key, what, {"array_history": ah}, [o for o in outs if o is not None], None)
    ck.extra["array_object_histories"] = {"corpus+exhaustive": n_fixed, "random": len(hs) - n_fixed, **stats}


# ----------------------------------------------------------------- the check
def to_req(c):
    return {"nodes": [str(x) for x in c["nodes"]], "labels": [str(x) for x in c["labels"]],
            "edges": [[str(a), str(b)] for a, b in c["edges"]], "missing": c.get("missing")}


def labelled(c):
    m = c.get("missing")
    if m is None:
        return c["nodes"], c["labels"]
    keep = [i for i in range(len(c["nodes"])) if not m[i]]
    return [c["nodes"][i] for i in keep], [c["labels"][i] for i in keep]


def in_domain(c):
    """domain of the property/theorem: acyclic, unique node ids, labelled endpoints or masked"""
    nodes = c["nodes"]
    if len(set(nodes)) != len(nodes) or len(c["labels"]) != len(nodes):
        return False
    if c.get("missing") is not None and len(c["missing"]) != len(nodes):
        return False
    if c.get("missing") is None and any(u not in set(nodes) or v not in set(nodes) for u, v in c["edges"]):
        return False
    return is_dag(c["edges"])


def judge_verbatim(ck, c, im, mo_arrays, mo_data, dom, s_valid, s_bad):
    """messages of the direct call and outcome/exception arguments of validate_data(tracklet=True), compared CHARACTER BY
    CHARACTER with what the Lean model renders (`validateTrackletsArrays`, `validateDataTracks`); plus a model-free verdict
    on the validate_data outcome for in-domain cases"""
    vd = im.get("vd")
    if mo_arrays is not None and "messages" in im:
        if "err" in mo_arrays:
            ck.corr_broken("C13:driver", c, im, mo_arrays)
        elif mo_arrays.get("valid") != im["valid"] or mo_arrays.get("messages") != im["messages"]:
            ck.corr_broken("C13:validateTrackletsArrays", c, {"valid": im["valid"], "messages": im["messages"]}, mo_arrays)
    if mo_data is not None and vd is not None:
        if "err" in mo_data:
            ck.corr_broken("C13:driver", c, vd, mo_data)
        elif not same_vd(mo_data, vd):
            ck.corr_broken("C13:validateDataTracks", c, vd, mo_data)
    if dom and vd is not None:
        want = "ok" if s_valid else "ValueError"
        if vd["outcome"] != want:
            ck.fail("C13:validate_data-verdict", f"validate_data(tracklet=True) ended in {vd['outcome']} {vd.get('args')}, the definition says "
                    f"valid={s_valid} (offending {s_bad})", c, vd, {"valid": s_valid, "bad": s_bad})
        elif want == "ValueError":
            args = vd.get("args") or []       # the property asks for a message naming the tracklet, not for an argument layout
            named = [int(mm.group(1)) for ln in "\n".join(str(a) for a in args).split("\n") if (mm := MSG.match(ln))]
            if named != s_bad and named != [wrap64(x) for x in s_bad]:
                ck.fail("C13:validate_data-wrong-offenders", f"validate_data raised ValueError{tuple(args)!r}: names {named}, the offending "
                        f"tracklets are {s_bad}", c, vd, {"valid": s_valid, "bad": s_bad})


def judge(ck, c, im, mo, mo_arrays=None, mo_data=None):
    """compare implementation with the definition (in-domain) and with the model (always)"""
    dom = in_domain(c)
    masked = c.get("missing") is not None
    if dom:
        ln, ll = labelled(c)
        s_valid, s_bad = spec_oracle(ln, ll, c["edges"])
        tag = ("valid" if s_valid else "invalid") + ("-masked" if masked else "")
    else:
        s_valid = s_bad = None
        tag = "out-of-domain(cyclic/dup ids/phantom)"
    if c.get("dtype") == "uint64":
        tag += ":uint64>=2^63"
    if c.get("_edit"):
        tag += ":" + c["_edit"]
    ck.case(c, tag, nontrivial=bool(c["edges"]) or len(set(c["labels"])) > 1)
    if c.get("track_layout") and (masked or True):
        lh = ck.extra.setdefault("track_node_props_layouts", {})
        lh[c["track_layout"]] = lh.get(c["track_layout"], 0) + 1
    if c.get("variant"):
        vh = ck.extra.setdefault("array_variants", {})
        vh[c["variant"]] = vh.get(c["variant"], 0) + 1
    if im.get("modified"):
        ck.fail("C13:validator-modifies-input", "tracklet validation changed its input arrays (a validator must not modify its input)",
                c, im, "inputs unchanged")
    judge_verbatim(ck, c, im, mo_arrays, mo_data, dom, s_valid, s_bad)
    if dom:
        expected = {"valid": s_valid, "bad": s_bad}
        if "exc" in im:
            ck.fail("C13:exception", f"tracklet validation raised {im['exc']} on an acyclic graph", c, im, expected)
        else:
            ibad = [e["t"] for e in im["errors"]]
            if im["valid"] != s_valid:
                if im["valid"]:
                    key = "C13:accepts-invalid-masked" if masked else "C13:accepts-invalid"
                else:
                    key = "C13:rejects-valid-masked" if masked else "C13:rejects-valid"
                ck.fail(key, f"tracklet validation returned {im['valid']} but the documented definition says {s_valid}"
                        + (" (ids flagged missing)" if masked else ""), c, im, expected)
            elif ibad != s_bad and ibad == [wrap64(x) for x in s_bad]:
                ck.fail("C13:uint64-id-wrapped-in-message",
                        f"uint64 tracklet ids >= 2^63: offending tracklets {s_bad} are named {ibad} in the messages",
                        c, im, expected)
            elif ibad != s_bad:
                ck.fail("C13:wrong-offenders", f"messages name tracklets {ibad} but the offending ones are {s_bad}",
                        c, im, expected)
    if mo is not None:
        if "err" in mo:
            ck.corr_broken("C13:driver", c, im, mo)
        elif "exc" in mo or "exc" in im:
            if mo.get("exc") != im.get("exc"):
                ck.corr_broken("C13:validateTracklets", c, im, mo)
        else:
            me = [{k: (int(v) if k in ("t", "n") else v) for k, v in e.items()} for e in mo["errors"]]
            if mo["valid"] != im["valid"] or me != im["errors"]:
                ck.corr_broken("C13:validateTracklets", c, im, {"valid": mo["valid"], "errors": me})
            if dom and (mo["valid"] != s_valid or [e["t"] for e in me] != [wrap64(x) for x in s_bad]):
                ck.corr_broken("C13:model-vs-python-oracle", c, {"valid": s_valid, "bad": s_bad}, mo)


def run(ck: common.Check):
    ck.prove(["GeffProps.C13", "GeffProps.C13Inv", "GeffProps.C13Data", "GeffProps.C13Hist", "GeffProps.C13Gen"])
    ck.rule = ("cases = corpus + ALL labelled DAGs on <=4 nodes up to renaming of labels (both tiers) + all cyclic "
               "digraphs on <=3 (quick) / <=4 (thorough) nodes (model==implementation only) + all DAGs on <=4 nodes x "
               "every non-empty missing mask x labellings (through validate_data) + sampled DAGs on 5-6 nodes + random "
               "layered forests with divisions/merges up to 40 nodes with the true tracklet labelling and single-edit "
               "corruptions (a quarter with a missing mask) + a sample of the in-domain cases through validate_data under all 16 "
               "configs that enable tracklet on geffs declaring tracklet AND lineage ids, x {valid, corrupted} lineage labelling x both KEY "
               "ORDERS of track_node_props; every case that goes through validate_data / a store rotates over the layouts "
               "{tracklet only; tracklet,lineage; lineage,tracklet} of track_node_props; + config-reuse histories: ONE ValidationConfig "
               "object handed to 2-4 validate_data / read_to_memory / geff.read calls, the first on a geff that declares no "
               "tracklet property (none / lineage only / tracklet excluded from the load), the later ones on geffs declaring "
               "tracklets: model_dump() unchanged after every call, verdict equal to that of a fresh equal config and to the oracle; non-trivial = at least one edge or two ids; distinct = "
               "distinct canonical JSON; VERBATIM layer: for every case above the rendered message strings (direct call) and the outcome class + exception "
               "arguments of validate_data(tracklet=True) are compared character by character with the Lean model; + dtype stream: all 8 integer "
               "dtypes chosen independently for node ids / edge ids / tracklet ids, values shifted to the limits of the dtypes (incl. negative ids and "
               "uint64 >= 2^63), arrays plain / read-only / non-contiguous / row-strided / Fortran / big-endian, direct and through validate_data; "
               "+ object histories: ONE in-memory geff (tracklet + lineage ids, independent missing masks, both key orders, sometimes a declared "
               "property absent or a mask of the wrong / zero length) validated 3-6 times with re-used ValidationConfig objects over "
               "{tracklet, lineage, both}, the tracklet-id array edited in place between calls; + array-object histories (graphs of <= 14 nodes): 1-2 slots of numpy arrays "
               "(node ids, edge ids, tracklet ids, lineage ids; the second slot may hold the SAME node-id array object with another edge array) and one "
               "in-memory geff per slot built from these objects, 3-7 calls of validate_tracklets / validate_lineages / validate_data interleaved with "
               "in-place edits (one edge row, one node id plain or renamed consistently, one tracklet / lineage id, whole edge array overwritten, "
               "tracklet ids overwritten by the true partition of the current graph), every call judged on the CURRENT contents (oracle, Lean model per "
               "call and whole trace via runHist, fresh copies after the history); bounded-exhaustive: every DAG on 2-3 (thorough 4) nodes with an edge x "
               "every replacement of one edge row x 3 labellings x (call, edit, call) patterns over the entry points")
    corpus_all = list(corpus())
    grid_corpus = [c for c in corpus_all if "lineage_labels" in c]     # regression inputs of the all-configs grid
    corpus_hist = [c["array_history"] for c in corpus_all if "array_history" in c]     # histories of calls on re-used array objects
    corpus_all = [c for c in corpus_all if "array_history" not in c]
    cases = [c for c in corpus_all if "lineage_labels" not in c and "steps" not in c]
    n_corpus = len(corpus_all)
    ck.extra["corpus_array_histories"] = len(corpus_hist)
    for n in range(0, 5):
        cases.extend(exhaustive(n))
    ck.extra["exhaustive_labelled_dags_upto_nodes"] = 4
    ck.extra["exhaustive_labelled_dags"] = len(cases) - n_corpus
    for n in range(2, 4 if ck.quick else 5):
        cases.extend(exhaustive(n, dag_only=False, cyclic_only=True))
    for n in range(1, 5):
        cases.extend(exhaustive_missing(n))
    for i in range(3000 if ck.quick else 60000):
        cases.append(random_small_dag(ck.rng, 5 + i % 2))
    for i in range(4000 if ck.quick else 60000):
        cases.append(random_forest(ck.rng, nmax=40 if i % 3 else 12, big=(i % 10 == 0)))
    for i in range(60 if ck.quick else 600):
        cases.append(uint64_case(ck.rng))
    cases.extend([
        {"nodes": [], "labels": [], "edges": [], "missing": None},
        {"nodes": [1, 2], "labels": [5, 5], "edges": [[1, 1], [1, 2], [1, 2]], "missing": None},
        {"nodes": [1, 2], "labels": [5, 5], "edges": [[1, 2], [1, 2]], "missing": None},
        {"nodes": [1, 1, 2], "labels": [5, 5, 6], "edges": [[1, 2]], "missing": None},
        {"nodes": [1, 1, 2], "labels": [5, 6, 6], "edges": [[1, 2]], "missing": None},
        {"nodes": [1, 2], "labels": [5, 5], "edges": [[1, 2], [2, 9]], "missing": None},
        {"nodes": [1, 2], "labels": [5, 5], "edges": [[1, 2], [2, 9], [2, 8]], "missing": None},
        {"nodes": [1, 2, 3], "labels": [5, 5], "edges": [[1, 2]], "missing": None},
    ])

    # every 4th case holds its arrays read-only / non-contiguous / in Fortran order / big-endian
    from harness.corr.C12 import VARIANTS
    for i, c in enumerate(cases):
        if i % 4 == 1 and c.get("dtype") is None and i >= n_corpus:
            c["variant"] = VARIANTS[1 + (i // 4) % (len(VARIANTS) - 1)]
    # what track_node_props declares, and in which key order, rotates over the cases (it matters for everything
    # that goes through validate_data: the masked cases here, and the dispatch / store samples below)
    for i, c in enumerate(cases):
        if i >= n_corpus and "track_layout" not in c:
            c["track_layout"] = TRACK_LAYOUTS[i % 3]
    impl = common.pmap(impl_obs, cases, chunksize=256)
    drv = ck.driver()
    model = drv.ask([to_req(c) for c in cases])
    if model is None:
        ck.broken.append({"what": "driver Drivers/C13.lean", "detail": drv.broken})
    # verbatim layer: rendered messages (arrays op, unmasked cases) and validate_data outcome + exception args (data op, all)
    direct_idx = [i for i, c in enumerate(cases) if c.get("missing") is None]
    m_arr = drv.ask([arrays_req(cases[i]) for i in direct_idx])
    m_dat = drv.ask([data_req(c) for c in cases])
    if m_arr is None or m_dat is None:
        ck.broken.append({"what": "driver Drivers/C13.lean (arrays/data op)", "detail": drv.broken})
    arr_of = dict(zip(direct_idx, m_arr)) if m_arr is not None else {}
    for idx, (c, im) in enumerate(zip(cases, impl)):
        judge(ck, c, im, None if model is None else model[idx], arr_of.get(idx), None if m_dat is None else m_dat[idx])
    ck.extra["messages_compared_verbatim"] = len(arr_of)
    ck.extra["validate_data_outcome_and_args_compared_verbatim"] = 0 if m_dat is None else len(m_dat)
    run_dtyped(ck, drv, cases)
    run_histories(ck, drv, cases)
    run_array_histories(ck, drv, cases, corpus_hist)

    # the same labellings through validate_data (dispatch) and through a store + read_to_memory
    sample = [c for i, c in enumerate(cases) if c.get("missing") is None and in_domain(c) and c["nodes"] and i % 17 == 0]
    n_vd = 0
    store_items = []
    for j, c in enumerate(sample):
        s_valid, _ = spec_oracle(c["nodes"], c["labels"], c["edges"])
        r = impl_via_validate_data(c)
        n_vd += 1
        if r.get("valid") != s_valid:
            ck.fail("C13:validate_data-dispatch", f"validate_data(tracklet=True) gave {r}, definition says valid={s_valid}",
                    c, r, {"valid": s_valid})
        if j % (8 if ck.quick else 3) == 0:
            store_items.append((c, s_valid))
    # stores are only touched in forked workers (zarr's event loop must not be running in the parent when it forks)
    n_store = len(store_items)
    for (c, s_valid), r2 in zip(store_items, forked_map(impl_via_store, [c for c, _ in store_items])):
        want = "ok" if s_valid else "ValueError"
        if r2 != want:
            ck.fail("C13:read_to_memory", f"read_to_memory / geff.read(data_validation=tracklet) gave {r2}, expected {want}", c, r2, want)
    # every config that enables tracklet (16 combinations of the other flags), both id properties declared,
    # {valid, invalid} tracklets (the case) x {valid, invalid} lineages
    from harness.corr.C12 import lineage_oracle

    pool = [c for c in cases if c.get("missing") is None and c.get("dtype") is None and c["nodes"] and in_domain(c)]
    want_n = 250 if ck.quick else 5000
    step = max(1, len(pool) // want_n)
    items, meta_items = [], []
    for gc in grid_corpus:
        c = {k: v for k, v in gc.items() if k not in ("lineage_labels", "cfg_bits")}
        lv, _ = lineage_oracle({"nodes": c["nodes"], "labels": gc["lineage_labels"], "edges": c["edges"], "missing": None})
        items.append((c, gc["lineage_labels"]))
        meta_items.append(lv)
    for j, c in enumerate(pool[::step]):
        good, bad = lineage_labellings(c, f"{ck.seed}:{j}")
        for lin in (good, bad):
            if lin is None:
                continue
            lv, _ = lineage_oracle({"nodes": c["nodes"], "labels": lin, "edges": c["edges"], "missing": None})
            for order in ("tracklet,lineage", "lineage,tracklet"):      # KEY ORDER of track_node_props
                items.append(({**c, "track_layout": order}, lin))
                meta_items.append(lv)
    grid_hist = {}
    for (c, lin), lv, outs in zip(items, meta_items, common.pmap(impl_config_grid, items, chunksize=16)):
        tv, _ = spec_oracle(c["nodes"], c["labels"], c["edges"])
        k = f"tracklets-{'valid' if tv else 'invalid'}+lineages-{'valid' if lv else 'invalid'}:keys={c.get('track_layout')}"
        grid_hist[k] = grid_hist.get(k, 0) + 16
        judge_config_grid(ck, c, lin, lv, outs)
    ck.extra["validate_data_all_16_configs_with_tracklet"] = grid_hist
    # ONE ValidationConfig object re-used over 2-4 calls on geffs with different declarations
    reuse = [c for c in corpus_all if "steps" in c] + list(config_reuse_items(ck.rng, pool, 60 if ck.quick else 2500))
    for item, outs in zip(reuse, forked_map(impl_config_reuse, reuse)):
        judge_config_reuse(ck, item, outs)
    ck.extra["config_reuse_histories"] = len(reuse)
    ck.extra["through_validate_data"] = n_vd
    ck.extra["through_store_and_read_to_memory"] = n_store
    ck.extra["corpus_cases"] = n_corpus
    ck.assumptions += [
        "networkx DiGraph construction, subgraph views, degree views, is_directed_acyclic_graph and "
        "is_weakly_connected are modelled (distinct-neighbour lists, Kahn elimination, component closure), not verified",
        "the function casts node ids, edges and tracklet ids to int64; the model does the same (toInt64), "
        "C13_int64_cast_identity shows the cast is the identity in the int64 range; uint64 ids >= 2^63 wrap: verdict "
        "unchanged, message names the wrapped id (known finding C13:uint64-id-wrapped-in-message)",
        "C13_iff assumes unique node ids (validated separately, C12) and an acyclic graph (the property's domain); "
        "on cyclic graphs the validator additionally rejects tracklets that are directed cycles",
        "the node named after 'extend backward/forward to node' is compared with the model too (not part of the property)",
        "the f-string rendering of numpy int64 scalars, dict insertion order (loop order) and '\\n'.join are modelled and compared verbatim "
        "on every case, not verified; KeyError for a declared-but-absent id property and numpy's IndexError for a mask of the wrong length "
        "are what the code does (compared with the model), not something the property prescribes",
        "array layout (read-only, non-contiguous, Fortran order, big-endian) is beneath the model; a quarter of the cases "
        "hold their arrays in one of these forms, and every call is checked not to modify its input arrays",
    ]


def replay(rp):
    c = rp["case"]
    if "dtyped" in c:
        v = c["dtyped"]
        r = impl_dtyped(v)
        bad = dtyped_verdict(v, r)
        print(json.dumps({"case": v, "impl": r, "violation": bad}))
        print("REPLAY: property holds on this input" if bad is None else "REPLAY: property FAILS on this input")
        return 0 if bad is None else 1
    if "array_history" in c:
        ah = c["array_history"]
        outs = impl_array_history(ah)

        class R1:
            def corr_broken(self, *a, **k):
                pass
        bad = judge_array_history(R1(), ah, outs, None)
        print(json.dumps({"array_history": ah, "contents_at_each_call": [x for x in ah_states(ah) if x is not None],
                          "impl": [o for o in outs if o is not None], "failures": bad}))
        print("REPLAY: property holds on this input" if not bad else "REPLAY: property FAILS on this input")
        return 0 if not bad else 1
    if "history" in c:
        h = c["history"]
        outs = impl_history(h)

        class R0:
            def corr_broken(self, *a, **k):
                pass
        bad = judge_history(R0(), h, outs, None)
        print(json.dumps({"history": h, "impl": outs, "failures": bad}))
        print("REPLAY: property holds on this input" if not bad else "REPLAY: property FAILS on this input")
        return 0 if not bad else 1
    if "steps" in c:
        outs = impl_config_reuse(c)

        class R2:
            def __init__(self):
                self.f = []

            def case(self, *a, **k):
                pass

            def fail(self, key, what, *a, **k):
                self.f.append((key, what))
        r2 = R2()
        judge_config_reuse(r2, c, outs)
        print(json.dumps({"case": c, "impl": outs, "failures": r2.f}, default=str))
        print("REPLAY: property holds on this input" if not r2.f else "REPLAY: property FAILS on this input")
        return 0 if not r2.f else 1
    if "cfg_bits" in c:
        from harness.corr.C12 import lineage_oracle

        lin = c["lineage_labels"]
        lv, _ = lineage_oracle({"nodes": c["nodes"], "labels": lin, "edges": c["edges"], "missing": None})
        outs = impl_config_grid((c, lin))

        class R:
            def __init__(self):
                self.f = []

            def fail(self, key, what, *a, **k):
                self.f.append((key, what))
        r = R()
        judge_config_grid(r, {k: v for k, v in c.items() if k not in ("lineage_labels", "cfg_bits")}, lin, lv, outs)
        mine = [f for f in r.f]
        print(json.dumps({"case": c, "impl": outs[c["cfg_bits"]], "all_16_configs": outs, "failures": mine}))
        print("REPLAY: property holds on this input" if not mine else "REPLAY: property FAILS on this input")
        return 0 if not mine else 1
    im = impl_obs(c)
    out = {"case": c, "impl": im}
    ok = True
    if in_domain(c):
        ln, ll = labelled(c)
        s_valid, s_bad = spec_oracle(ln, ll, c["edges"])
        out["definition"] = {"valid": s_valid, "bad": s_bad}
        ok = "exc" not in im and im["valid"] == s_valid and [e["t"] for e in im["errors"]] == s_bad
        if ok and im.get("vd") is not None:
            ok = im["vd"]["outcome"] == ("ok" if s_valid else "ValueError")
        if ok and rp.get("key") in ("C13:validate_data-dispatch", "C13:read_to_memory"):
            r = impl_via_validate_data(c)
            r2 = impl_via_store(c)
            out["validate_data"], out["read_to_memory"] = r, r2
            ok = r.get("valid") == s_valid and r2 == ("ok" if s_valid else "ValueError")
    print(json.dumps(out))
    print("REPLAY: property holds on this input" if ok else "REPLAY: property FAILS on this input")
    return 0 if ok else 1
