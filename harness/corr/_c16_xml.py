"""C16 — the XML layer: element trees -> lxml's real `iterparse` events and geff's real cursor functions,
compared with `GeffModel/TrackMateXml.lean` through drv_C16 (`"op": "xml"`).

A case is an element tree `[tag, [[k, v], …], text | None, [child, …]]` plus a decoration seed (comments,
processing instructions, tail text inserted by the renderer: none of them may change anything) plus a
feature table `md` for the functions that take `attrs_md`.  Per case, on the rendered bytes:
  (a) lxml `iterparse(events=["start","end"])`: (event, tag, attrib items, text at "end")  ==  model `events`;
  (b) for every element as `ancestor`: `_get_units`, `_get_attributes_metadata`, `_add_all_nodes`,
      `_build_tracks`, `_get_filtered_tracks_ID` called with the real iterator positioned behind its start
      event: result AND the number of events left in the iterator  ==  model cursor functions;
  (c) `_build_data(path, ds, dt)` for the four flag combinations  ==  model `buildDataEv (events t)`
      (and the model's tree-level `buildDataTree t` — theorem `C16X_build_data_tree` — agrees);
  (d) `_get_trackmate_version`, `_get_specific_tags` (both name lists), `_extract_image_path`,
      `_extract_props_metadata` (with `_process_feature_metadata`, `_get_feature_name/_dtype/_unit`).
Floats are never computed: a text is classified by Python's own `int()` / `float()` (the `lex` table sent to
the driver) and compared as `float(text)` bit patterns.
Model-independent verdict (ck.fail): a document in TrackMate's standard layout whose `FeatureDeclarations`
is cut by lxml's 32 KiB read chunk loses declared features in `_extract_props_metadata` (the deep copy is
taken at the *start* event) — compared with a DOM parse of the same bytes.
"""
from __future__ import annotations

import io
import itertools
import json
import os
import struct
import tempfile
import warnings
from pathlib import Path
from xml.sax.saxutils import escape, quoteattr

K_TRUNC = "C16:specific-tags-copied-at-start-event-truncated-at-parser-chunk"
TAGS = ["Model", "FeatureDeclarations", "Feature", "AllSpots", "Spot", "AllTracks", "Track", "Edge", "FilteredTracks",
        "TrackID", "X"]
TM_TAGS = ["Log", "Settings", "GUIState", "DisplaySettings"]


def fhex(x):
    return struct.pack("<d", float(x)).hex()


# ----------------------------------------------------------------- rendering
def render_tree(t, deco=None) -> bytes:
    """exact rendering (no pretty printing: the text of an element is what the tree says); `deco` (a
    random.Random) sprinkles comments, processing instructions and tail text between children"""
    out = ['<?xml version="1.0" encoding="UTF-8"?>']
    if deco is not None and deco.random() < 0.3:
        out.append("<!-- before the root -->")

    def junk():
        if deco is None:
            return ""
        r = deco.random()
        if r < 0.12:
            return "<!-- a comment with <Spot ID='9'/> inside -->"
        if r < 0.2:
            return "<?proc Model AllSpots?>"
        if r < 0.35:
            return deco.choice(["\n  ", " ", "\t", "tail text"])
        return ""

    def rec(n):
        tag, attrs, text, kids = n
        a = "".join(f" {k}={quoteattr(v)}" for k, v in attrs)
        if tag.startswith("{"):      # a namespaced element: lxml reports the tag as "{uri}local"
            uri, local = tag[1:].split("}")
            tag = "ns0:" + local
            a += f" xmlns:ns0={quoteattr(uri)}"
        if not kids and text is None and (deco is None or deco.random() < 0.7):
            out.append(f"<{tag}{a}/>")
            return
        out.append(f"<{tag}{a}>")
        if text is not None:
            out.append(escape(text))
        elif deco is not None and deco.random() < 0.1:
            out.append("<!-- leading comment -->")
        for k in kids:
            # tail text must not become the parent's text: only after the first child / comment
            rec(k)
            out.append(junk())
        out.append(f"</{tag}>")
    rec(t)
    if deco is not None and deco.random() < 0.3:
        out.append("<!-- after the root -->")
    return "".join(out).encode("utf-8")


def texts_of(t, acc):
    for _, v in t[1]:
        acc.add(v)
    if t[2] is not None:
        acc.update(t[2].split())
    for k in t[3]:
        texts_of(k, acc)


def classify(text):
    try:
        return {"i": str(int(text)), "t": text}
    except ValueError:
        pass
    try:
        float(text)
        return {"f": text}
    except ValueError:
        return {"s": text}


def count_nodes(t):
    return 1 + sum(count_nodes(k) for k in t[3])


def model_request(case):
    acc = set()
    texts_of(case["tree"], acc)
    return {"op": "xml", "tree": case["tree"], "lex": [[s, classify(s)] for s in sorted(acc)], "md": case["md"],
            "anc": case["anc"]}


# ----------------------------------------------------------------- implementation observation
def canon_pyval(v):
    import numpy as np

    if isinstance(v, bool):
        return {"b": v}
    if isinstance(v, (int, np.integer)):
        return {"i": str(int(v))}
    if isinstance(v, (float, np.floating)):
        return {"f": fhex(v)}
    if isinstance(v, str):
        return {"s": v}
    if v is None:
        return {"none": True}
    if isinstance(v, list):
        return {"roi": [[fhex(x) for x in p] for p in v]}
    return {"other": repr(v)[:80]}


def canon_graph(g):
    nodes = [[repr(n) if not isinstance(n, int) else str(n), [[k, canon_pyval(v)] for k, v in d.items()]] for n, d in g.nodes(data=True)]
    edges = sorted([[str(a), str(b), [[k, canon_pyval(v)] for k, v in d.items()]] for a, b, d in g.edges(data=True)],
                   key=lambda e: (e[0], e[1]))
    return {"nodes": nodes, "edges": edges}


def canon_el(el):
    return [el.tag, [[k, v] for k, v in el.attrib.items()], el.text, [canon_el(c) for c in el if isinstance(c.tag, str)]]


def md_dict(md):
    out = {}
    for name, isint, dim in md:
        d = {"name": name}
        if isint is not None:
            d["isint"] = "true" if isint else "false"
        if dim is not None:
            d["dimension"] = dim
        out[name] = d
    return out


def guarded(f):
    try:
        return {"ok": f()}
    except StopIteration:
        return {"exc": "StopIteration"}
    except BaseException as ex:  # noqa: BLE001
        return {"exc": type(ex).__name__, "msg": str(ex)[:160]}


def observe(case):
    """everything the real code computes on the rendered tree"""
    import random

    import networkx as nx
    from lxml import etree as ET

    from geff.convert import _trackmate_xml as T

    warnings.simplefilter("ignore")
    deco = None if case.get("deco") is None else random.Random(case["deco"])
    xml = render_tree(case["tree"], deco)
    o = {}
    try:
        o["events"] = [[ev == "end", el.tag, [[k, v] for k, v in el.attrib.items()], el.text if ev == "end" else None]
                       for ev, el in ET.iterparse(io.BytesIO(xml), events=["start", "end"])]
    except BaseException as ex:  # noqa: BLE001
        return {"unparsable": f"{type(ex).__name__}: {ex}"[:200]}
    amd = md_dict(case["md"])

    def positioned(k):
        it = ET.iterparse(io.BytesIO(xml), events=["start", "end"])
        el = None
        for _ in range(k + 1):
            _, el = next(it)
        return it, el

    def cursor(k, f):
        it, el = positioned(k)

        def go():
            r = f(it, el)
            return r, sum(1 for _ in it)
        g = guarded(go)
        if "ok" in g:
            return {"ok": g["ok"][0], "left": g["ok"][1]}
        return g

    def spots(it, el):
        g = nx.DiGraph()
        seg = T._add_all_nodes(it, el, amd, g)
        return {"graph": canon_graph(g), "seg": bool(seg)}

    def tracks(it, el):
        g = nx.DiGraph()
        T._build_tracks(it, el, amd, g)
        return canon_graph(g)

    o["cursors"] = []
    for k in case["anc"]:
        _, el = positioned(k)
        o["cursors"].append({
            "units": sorted(T._get_units(el).items()),
            "features": cursor(k, lambda it, el: sorted((n, d.get("isint"), d.get("dimension")) for n, d in T._get_attributes_metadata(it, el).items())),
            "spots": cursor(k, spots), "tracks": cursor(k, tracks),
            "filtered": cursor(k, lambda it, el: [str(x) for x in T._get_filtered_tracks_ID(it, el)])})
    with tempfile.TemporaryDirectory(prefix="c16x_") as d:
        p = Path(d) / "doc.xml"
        p.write_bytes(xml)
        o["build"] = []
        units = {}
        for ds, dt in itertools.product((False, True), repeat=2):
            def bd(ds=ds, dt=dt):
                g, u, seg = T._build_data(p, ds, dt)
                return {"graph": canon_graph(g), "units": sorted(u.items()), "seg": bool(seg)}, dict(u)
            r = guarded(bd)
            if "ok" in r:
                units = r["ok"][1] if not (ds or dt) else units
                r = {"ok": r["ok"][0]}
            o["build"].append(r)
        o["version"] = guarded(lambda: T._get_trackmate_version(p))

        def tags(names):
            names = list(names)
            found = T._get_specific_tags(p, names, 3)
            return {"found": {k: canon_el(v) for k, v in found.items()}, "missing": names}, found
        t1 = guarded(lambda: tags(["FeatureDeclarations"]))
        t2 = guarded(lambda: tags(TM_TAGS))
        o["tags1"] = {"ok": t1["ok"][0]} if "ok" in t1 else t1
        o["tags2"] = {"ok": t2["ok"][0]} if "ok" in t2 else t2
        o["image"] = guarded(lambda: T._extract_image_path(t2["ok"][1].get("Settings") if "ok" in t2 else None))

        def props(seg):
            r = T._extract_props_metadata(p, units, seg)
            return {k[:-len("_props_metadata")]: [[n, m.get("name"), m.get("dtype"), m.get("unit"), bool(m.get("varlength", False))]
                                                  for n, m in v.items()] for k, v in r.items()}
        o["props"] = [guarded(lambda s=s: props(s)) for s in (False, True)]
    return o


# ----------------------------------------------------------------- comparison
def mval(v):
    """model value -> the canonical form of the implementation side"""
    if "i" in v:
        return {"i": v["i"]}
    if "fi" in v:
        return {"f": fhex(float(int(v["fi"])))}
    if "ft" in v:
        return {"f": fhex(float(v["ft"]))}
    if "roi" in v:
        return {"roi": [[fhex(float(x)) for x in p] for p in v["roi"]]}
    return v


def same_val(a, b):
    if "f" in a and "f" in b:
        fa = struct.unpack("<d", bytes.fromhex(a["f"]))[0]
        return a["f"] == b["f"] or (fa != fa and struct.unpack("<d", bytes.fromhex(b["f"]))[0] != struct.unpack("<d", bytes.fromhex(b["f"]))[0])
    if "roi" in a and "roi" in b:
        return len(a["roi"]) == len(b["roi"]) and all(
            len(p) == len(q) and all(same_val({"f": x}, {"f": y}) for x, y in zip(p, q)) for p, q in zip(a["roi"], b["roi"]))
    return a == b


def same_attrs(m, i):
    return len(m) == len(i) and all(a[0] == b[0] and same_val(mval(a[1]), b[1]) for a, b in zip(m, i))


def same_graph(m, i):
    mn, im = m["nodes"], i["nodes"]
    if [n[0] for n in mn] != [n[0] for n in im]:
        return "node ids / order"
    for a, b in zip(mn, im):
        if not same_attrs(a[1], b[1]):
            return f"attributes of node {a[0]}: model {a[1]} impl {b[1]}"
    me = sorted(m["edges"], key=lambda e: (e[0], e[1]))
    if [(e[0], e[1]) for e in me] != [(e[0], e[1]) for e in i["edges"]]:
        return "edge set"
    for a, b in zip(me, i["edges"]):
        if not same_attrs(a[2], b[2]):
            return f"attributes of edge {a[0]}->{a[1]}"
    return None


def same_outcome(m, i, cmp_ok, left=False):
    """model outcome vs implementation outcome -> None | 'unmodelled' | difference text"""
    if "exc" in m:
        if m["exc"].startswith("unmodelled"):
            return "unmodelled"
        return None if i.get("exc") == m["exc"] else f"model raises {m['exc']}, implementation {i.get('exc', 'returns')} {i.get('msg', '')}"
    if "exc" in i:
        return f"model returns, implementation raises {i['exc']}: {i.get('msg', '')}"
    if left and m["left"] != i["left"]:
        return f"events left in the iterator: model {m['left']}, implementation {i['left']}"
    return cmp_ok(m["ok"], i["ok"])


def image_str(m):
    if m is None:
        return None
    if "folder" in m and "name" in m:
        return str(Path(m["folder"]) / m["name"])
    return str(Path(m.get("folder", m.get("name"))))


def compare(case, o, m):
    """-> list of (stream name, detail); [] = agreement.  Also returns the number of unmodelled outcomes."""
    diffs, unm = [], 0
    if "err" in m:
        return [("driver", m["err"])], 0
    if "unparsable" in o:
        return [("render", o["unparsable"])], 0
    mev = [[e[0], e[1], e[2], e[3] if e[0] else None] for e in m["events"]]
    if mev != o["events"]:
        diffs.append(("events vs lxml iterparse", f"model {mev[:6]} impl {o['events'][:6]}"))
    if not m["walk_agrees"]:
        diffs.append(("buildDataEv vs buildDataTree (theorem C16X_build_data_tree)", ""))
    if m["version"] != m["version_tree"] or not m["tags_tree_agree"]:
        diffs.append(("event-level vs tree-level version/tags (theorems C16X_version / C16X_specific_tags)", ""))

    def chk(name, r):
        nonlocal unm
        if r == "unmodelled":
            unm += 1
        elif r is not None:
            diffs.append((name, r))

    for k, mc, ic in zip(case["anc"], m["cursors"], o["cursors"]):
        if sorted(map(tuple, mc["units"])) != [tuple(x) for x in ic["units"]]:
            diffs.append((f"_get_units @{k}", f"model {mc['units']} impl {ic['units']}"))
        # `isint` travels as Option Bool in the model: the implementation keeps the text; compare `== "true"`
        chk(f"_get_attributes_metadata @{k}", same_outcome(mc["features"], ic["features"], lambda a, b: None if sorted(
            {n: (i_, d) for n, i_, d in a}.items()) == sorted((n, (None if i_ is None else i_ == "true", d)) for n, i_, d in b)
            else f"model {a} impl {b}", left=True))
        chk(f"_add_all_nodes @{k}", same_outcome(mc["spots"], ic["spots"], lambda a, b: same_graph(a["graph"], b["graph"]) or (
            None if a["seg"] == b["seg"] else "segmentation flag"), left=True))
        chk(f"_build_tracks @{k}", same_outcome(mc["tracks"], ic["tracks"], same_graph, left=True))
        chk(f"_get_filtered_tracks_ID @{k}", same_outcome(mc["filtered"], ic["filtered"], lambda a, b: None if a == b else f"model {a} impl {b}", left=True))
    for idx, (mb, ib) in enumerate(zip(m["build"], o["build"])):
        chk(f"_build_data flags#{idx}", same_outcome(mb, ib, lambda a, b: same_graph(a["graph"], b["graph"]) or (
            None if a["seg"] == b["seg"] else "segmentation flag") or (
            None if sorted(map(tuple, a["units"])) == [tuple(x) for x in b["units"]] else f"units: model {a['units']} impl {b['units']}")))
    if o["version"].get("ok") != m["version"]:
        diffs.append(("_get_trackmate_version", f"model {m['version']} impl {o['version']}"))
    for key in ("tags1", "tags2"):
        mt, it = m[key], o[key]
        if "ok" not in it:
            diffs.append((f"_get_specific_tags {key}", f"impl raises {it}"))
        elif {k: v for k, v in mt["found"]} != it["ok"]["found"] or mt["missing"] != it["ok"]["missing"]:
            diffs.append((f"_get_specific_tags {key}", f"model {str(mt)[:300]} impl {str(it['ok'])[:300]}"))
    chk("_extract_image_path", same_outcome(m["image"], o["image"], lambda a, b: None if image_str(a) == b else f"model {a} impl {b}"))
    for seg, mp, ip in zip((False, True), m["props"], o["props"]):
        chk(f"_extract_props_metadata seg={seg}", same_outcome(mp, ip, lambda a, b: None if a == b else f"model {a} impl {b}"))
    return diffs, unm


# ----------------------------------------------------------------- generators
def default_attrs(tag, i, variant=0):
    """attributes by tag and pre-order index (deterministic variety for the exhaustive stream)"""
    if tag == "Model":
        return [["spatialunits", "um"]] if i % 2 else [["timeunits", "s"], ["extra", "1"]]
    if tag == "Feature":
        a = [["feature", ["ID", "Q", "TRACK_ID", "SPOT_SOURCE_ID"][(i + variant) % 4]], ["isint", "true" if (i + variant) % 3 else "false"]]
        return a[1:] if (i + variant) % 7 == 6 else a
    if tag == "Spot":
        a = [["ID", str(1 + i % 3)], ["Q", ["1.5", "2", "x"][(i + variant) % 3]]]
        if (i + variant) % 4 == 1:
            a.append(["ROI_N_POINTS", "2"])
        return a[1:] if (i + variant) % 5 == 4 else a
    if tag == "Track":
        return [["TRACK_ID", str(i % 2)]] if (i + variant) % 5 else [["name", "t"]]
    if tag == "Edge":
        return [["SPOT_SOURCE_ID", str(1 + i % 3)], ["SPOT_TARGET_ID", str(1 + (i + 1) % 3)]] if (i + variant) % 6 else [["SPOT_SOURCE_ID", "1"]]
    if tag == "TrackID":
        return [["TRACK_ID", str(i)]] if (i + variant) % 4 else []
    if tag in ("X", "FilteredTracks"):
        return [["TRACK_ID", str(40 + i)]] if (i + variant) % 3 == 0 else []
    return []


def shapes(n):
    """all ordered trees with n nodes, as nested lists of children"""
    if n == 1:
        return [[]]
    out = []

    def forests(m):
        if m == 0:
            return [[]]
        res = []
        for first in range(1, m + 1):
            for t in shapes(first):
                for rest in forests(m - first):
                    res.append([t] + rest)
        return res
    return forests(n - 1)


def label(shape, tags, variant):
    it = iter(range(10 ** 6))

    def rec(s):
        i = next(it)
        tag = tags[i]
        text = "0.5 1.5 2.5 3.5" if tag == "Spot" and (i + variant) % 2 else None
        return [tag, default_attrs(tag, i, variant), text, [rec(c) for c in s]]
    return rec(shape)


MD_POOL = [[], [["Q", False, "NONE"], ["ID", True, "NONE"]], [["TRACK_ID", True, "NONE"], ["SPOT_SOURCE_ID", True, "NONE"], ["SPOT_TARGET_ID", True, "NONE"]],
           [["Q", True, "NONE"]], [["Q", None, "NONE"]], [["ROI_N_POINTS", False, "NONE"]]]


def exhaustive_trees(nmax, rng, sample_last=None):
    """a root element R with every forest of <= nmax elements over the tag alphabet below it (the largest
    size is sampled when `sample_last` is smaller than its count)"""
    for n in range(1, nmax + 2):
        allc = [(s, c) for c in itertools.product(TAGS, repeat=n - 1) for s in shapes(n)]
        if sample_last is not None and n == nmax + 1 and len(allc) > sample_last:
            allc = rng.sample(allc, sample_last)
        for idx, (s, c) in enumerate(allc):
            t = label(s, ("R",) + tuple(c), idx % 5)
            yield {"tree": t, "md": MD_POOL[idx % len(MD_POOL)], "anc": list(start_indices(t)), "deco": None, "stream": "exhaustive"}


def start_indices(t):
    """indices of the start events in the event list, pre-order"""
    out, pos = [], 0

    def rec(n):
        nonlocal pos
        out.append(pos)
        pos += 1
        for k in n[3]:
            rec(k)
        pos += 1
    rec(t)
    return out


def doc_tree(doc):
    """the abstract document of harness/corr/C16.py in TrackMate's standard layout, as a tree"""
    def feats(key):
        out = []
        for f in doc[key]:
            a = [["feature", f[0]], ["name", f[0].title()], ["shortname", f[0][:4]]]
            if f[2] is not None:
                a.append(["dimension", f[2]])
            if f[1] is not None:
                a.append(["isint", "true" if f[1] else "false"])
            out.append(["Feature", a, None, []])
        return out
    fd = ["FeatureDeclarations", [], None, [["SpotFeatures", [], None, feats("sf")], ["EdgeFeatures", [], None, feats("ef")],
                                            ["TrackFeatures", [], None, feats("tf")]]]
    frames = []
    for frame, grp in itertools.groupby(doc["spots"], key=lambda s: s["frame"]):
        sp = []
        for s in grp:
            a = []
            if s.get("id") is not None:
                a.append(["ID", str(s["id"])])
            if s.get("name") is not None:
                a.append(["name", s["name"]])
            a += [[k, str(v)] for k, v in s["f"].items()]
            text = None
            if s.get("roi") is not None:
                a.append(["ROI_N_POINTS", str(s["roi"]["n"])])
                if s["roi"]["pts"] is not None:
                    text = " ".join(v for p in s["roi"]["pts"] for v in p)
            sp.append(["Spot", a, text, []])
        frames.append(["SpotsInFrame", [["frame", str(frame)]], None, sp])
    tracks = []
    for t in doc["tracks"]:
        a = [["name", t.get("name", "T")]]
        if t.get("id") is not None:
            a.append(["TRACK_ID", str(t["id"])])
        a += [[k, str(v)] for k, v in t.get("f", {}).items()]
        tracks.append(["Track", a, None, [["Edge", [["SPOT_SOURCE_ID", str(e["s"])], ["SPOT_TARGET_ID", str(e["t"])]] +
                                           [[k, str(v)] for k, v in e.get("f", {}).items()], None, []] for e in t["edges"]]])
    model_kids = [fd, ["AllSpots", [["nspots", str(len(doc["spots"]))]], None, frames], ["AllTracks", [], None, tracks]]
    if doc.get("filtered") is not None:
        model_kids.append(["FilteredTracks", [], None, [["TrackID", [["TRACK_ID", str(t)]], None, []] for t in doc["filtered"]]])
    units = []
    if doc.get("space") is not None:
        units.append(["spatialunits", doc["space"]])
    if doc.get("time") is not None:
        units.append(["timeunits", doc["time"]])
    kids = []
    if doc.get("log"):
        kids.append(["Log", [], "TrackMate log text & more\nsecond line", []])
    kids.append(["Model", units, None, model_kids])
    st = doc.get("settings")
    if st is not None:
        sk = []
        if st.get("image", True):
            sk.append(["ImageData", [["filename", st.get("filename", "")], ["folder", st.get("folder", "")]], None, []])
        sk.append(["BasicSettings", [["xstart", "0"]], None, [["Deep", [], "t", [["Deeper", [["a", "b"]], None, []]]]]])
        kids.append(["Settings", [], None, sk])
    if doc.get("gui"):
        kids.append(["GUIState", [["state", "ConfigureViews"]], None, []])
    return ["TrackMate", [["version", doc["version"]]] if doc.get("version") else [], None, kids]


def all_nodes(t, acc=None):
    acc = [] if acc is None else acc
    acc.append(t)
    for k in t[3]:
        all_nodes(k, acc)
    return acc


PERTURB = ["drop-section", "repeat-section", "swap-sections", "empty-section", "insert-unknown", "insert-known-tag", "drop-attribute",
           "nest-spot", "edge-outside-track", "feature-first-child", "settings-before-model", "model-in-log", "track-id-on-filtered",
           "text-on-section", "nested-trackmate", "second-feature-declarations", "second-feature-declarations", "namespaced-element", "none", "none"]


def perturb(t, rng):
    """unusual but well-formed documents: sections absent / repeated / reordered / empty, unknown elements at
    every level, known tags in odd places, attributes missing"""
    kinds = rng.sample(PERTURB, rng.randint(1, 3))
    t = json.loads(json.dumps(t))
    model = next((k for k in t[3] if k[0] == "Model"), None)
    for kind in kinds:
        nodes = all_nodes(t)
        if kind == "drop-section" and model and model[3]:
            model[3].pop(rng.randrange(len(model[3])))
        elif kind == "repeat-section" and model and model[3]:
            s = rng.choice(model[3])
            model[3].insert(rng.randint(0, len(model[3])), json.loads(json.dumps(s)))
        elif kind == "swap-sections" and model and len(model[3]) >= 2:
            i, j = rng.sample(range(len(model[3])), 2)
            model[3][i], model[3][j] = model[3][j], model[3][i]
        elif kind == "empty-section" and model and model[3]:
            rng.choice(model[3])[3] = []
        elif kind == "insert-unknown":
            for _ in range(rng.randint(1, 4)):
                n = rng.choice(nodes)
                n[3].insert(rng.randint(0, len(n[3])), [rng.choice(["Foo", "Analyzers", "X"]), [["TRACK_ID", "77"]] if rng.random() < 0.3 else
                                                       [["k", "v"]], rng.choice([None, "txt", " 1 2 "]),
                                                       [["Inner", [], None, []]] if rng.random() < 0.5 else []])
        elif kind == "insert-known-tag":
            n = rng.choice(nodes)
            tag = rng.choice(TAGS[:-1])
            n[3].insert(rng.randint(0, len(n[3])), [tag, default_attrs(tag, rng.randrange(20), rng.randrange(5)), None, []])
        elif kind == "drop-attribute":
            cand = [n for n in nodes if n[1]]
            if cand:
                n = rng.choice(cand)
                n[1].pop(rng.randrange(len(n[1])))
        elif kind == "nest-spot":
            sp = [n for n in nodes if n[0] == "Spot"]
            if len(sp) >= 2:
                a, b = rng.sample(sp, 2)
                a[3].append(json.loads(json.dumps(b)))
        elif kind == "edge-outside-track":
            at = [n for n in nodes if n[0] == "AllTracks"]
            if at:
                at[0][3].insert(rng.randint(0, len(at[0][3])), ["Edge", [["SPOT_SOURCE_ID", "1"], ["SPOT_TARGET_ID", "2"]], None, []])
        elif kind == "feature-first-child":
            fd = [n for n in nodes if n[0] == "FeatureDeclarations"]
            if fd:
                fd[0][3].insert(0, ["Feature", [["feature", "FIRST"], ["isint", "true"]], None, []])
        elif kind == "settings-before-model":
            st = [k for k in t[3] if k[0] == "Settings"]
            if st:
                t[3].remove(st[0])
                t[3].insert(0, st[0])
        elif kind == "model-in-log":
            t[3].insert(0, ["Log", [], None, [["Model", [["spatialunits", "inch"]], None, [["AllSpots", [], None, [["Spot", [["ID", "99"]], None, []]]]]]]])
        elif kind == "track-id-on-filtered":
            ft = [n for n in nodes if n[0] == "FilteredTracks"]
            if ft and not any(k == "TRACK_ID" for k, _ in ft[0][1]):
                ft[0][1].append(["TRACK_ID", "5"])
        elif kind == "text-on-section" and model:
            rng.choice(model[3] or [model])[2] = rng.choice([" ", "\n   ", "text"])
        elif kind == "second-feature-declarations" and model:
            # a later FeatureDeclarations section REPLACES the feature table (attrs_md is reassigned): declare one feature
            # with the other type, so that the spots behind it are converted differently
            idx = [i for i, k in enumerate(model[3]) if k[0] == "FeatureDeclarations"]
            pos = (idx[-1] + 1) if idx else 0
            model[3].insert(pos, ["FeatureDeclarations", [], None, [["SpotFeatures", [], None, [
                ["Feature", [["feature", rng.choice(["QUALITY", "FRAME", "POSITION_X"])], ["isint", rng.choice(["true", "false"])],
                             ["dimension", "NONE"]], None, []]]]]])
        elif kind == "namespaced-element":
            # lxml reports "{uri}Model": not one of the tags the converter looks for, whatever the local name
            n = rng.choice(nodes)
            local = rng.choice(["Model", "AllSpots", "Spot", "FilteredTracks", "TrackMate", "Settings"])
            n[3].insert(rng.randint(0, len(n[3])), ["{urn:x}" + local, default_attrs(local, rng.randrange(20), rng.randrange(5)), None,
                                                   [["{urn:x}Spot", [["ID", "55"]], None, []]] if rng.random() < 0.5 else []])
        elif kind == "nested-trackmate":
            n = rng.choice(nodes)
            n[3].append(["TrackMate", rng.choice([[], [["version", ""]], [["version", "0.1"]]]), None, []])
    return t, kinds


def random_tree_case(rng, random_doc):
    doc = random_doc(rng)
    t, kinds = perturb(doc_tree(doc), rng)
    starts = start_indices(t)
    nodes = all_nodes(t)
    # ancestors: every section-like element plus a few random ones
    anc = [s for s, n in zip(starts, nodes) if n[0] in ("Model", "FeatureDeclarations", "AllSpots", "AllTracks", "FilteredTracks", "TrackMate")]
    anc += rng.sample(starts, min(3, len(starts)))
    md = [[f[0], f[1], f[2]] for f in doc["sf"] + doc["ef"] + doc["tf"]] if rng.random() < 0.8 else rng.choice(MD_POOL)
    return {"tree": t, "md": md, "anc": sorted(set(anc)), "deco": rng.randrange(10 ** 6) if rng.random() < 0.6 else None,
            "stream": "random:" + "+".join(sorted(kinds))}


# ----------------------------------------------------------------- chunk-boundary oracle (model independent)
def chunk_case(pad, nfeat=40, roi=True):
    return {"chunk": True, "pad": pad, "nfeat": nfeat, "roi": roi}


def chunk_xml(c):
    feats = "".join(f'<Feature feature="F{i}" name="F{i}" shortname="F{i}" dimension="NONE" isint="false"/>' for i in range(c["nfeat"]))
    pos = "".join(f'<Feature feature="POSITION_{x}" name="{x}" shortname="{x}" dimension="POSITION" isint="false"/>' for x in "XYZ")
    roi = ' ROI_N_POINTS="2"' if c["roi"] else ""
    spot = lambda i: (f'<Spot ID="{i}" name="s{i}" POSITION_X="1.0" POSITION_Y="2.0" POSITION_Z="0.0" POSITION_T="{i}.0" FRAME="{i}" F0="0.5"{roi}>'  # noqa: E731
                      + ("0.0 0.5 1.0 1.5" if c["roi"] else "") + "</Spot>")
    return ('<?xml version="1.0" encoding="UTF-8"?>\n<TrackMate version="7.11.1"><Log>' + "x" * c["pad"] + "</Log>"
            '<Model spatialunits="um" timeunits="s"><FeatureDeclarations><SpotFeatures>' + feats + pos +
            '<Feature feature="POSITION_T" name="T" shortname="T" dimension="TIME" isint="false"/>'
            '<Feature feature="FRAME" name="Frame" shortname="Frame" dimension="NONE" isint="true"/>'
            '</SpotFeatures><EdgeFeatures><Feature feature="SPOT_SOURCE_ID" name="s" shortname="s" dimension="NONE" isint="true"/>'
            '<Feature feature="SPOT_TARGET_ID" name="t" shortname="t" dimension="NONE" isint="true"/></EdgeFeatures>'
            '<TrackFeatures><Feature feature="TRACK_ID" name="id" shortname="id" dimension="NONE" isint="true"/></TrackFeatures>'
            '</FeatureDeclarations><AllSpots><SpotsInFrame frame="0">' + spot(0) + '</SpotsInFrame><SpotsInFrame frame="1">' + spot(1) +
            '</SpotsInFrame></AllSpots><AllTracks><Track name="T0" TRACK_ID="0"><Edge SPOT_SOURCE_ID="0" SPOT_TARGET_ID="1"/></Track>'
            '</AllTracks><FilteredTracks><TrackID TRACK_ID="0"/></FilteredTracks></Model>'
            '<Settings><ImageData filename="a.tif" folder="/x"/></Settings></TrackMate>').encode()


def observe_chunk(c):
    """DOM parse of the bytes = what the document declares; `_extract_props_metadata` and the full conversion =
    what the converter makes of it"""
    from geff.convert import _trackmate_xml as T
    from geff.convert import from_trackmate_xml_to_geff

    warnings.simplefilter("ignore")
    xml = chunk_xml(c)
    import xml.etree.ElementTree as PET

    root = PET.fromstring(xml)
    declared = [f.attrib["feature"] for f in root.find("Model").find("FeatureDeclarations").find("SpotFeatures").findall("Feature")]
    o = {"declared": declared}
    with tempfile.TemporaryDirectory(prefix="c16c_") as d:
        p = Path(d) / "doc.xml"
        p.write_bytes(xml)
        r = guarded(lambda: list(T._extract_props_metadata(p, {"spatialunits": "um", "timeunits": "s"}, False)["node_props_metadata"]))
        o["props"] = r
        o["convert"] = guarded(lambda: from_trackmate_xml_to_geff(p, Path(d) / "o.geff") or "ok")
        if "ok" in o["convert"]:
            from geff.core_io import read_to_memory

            md = read_to_memory(Path(d) / "o.geff")["metadata"]
            o["units"] = {k: m.unit for k, m in md.node_props_metadata.items()}
    return o


def chunk_verdict(o):
    """-> None | failure text (specification: a well-formed document converts, and every declared feature that
    carries values keeps its declared unit)"""
    if "exc" in o["convert"]:
        return f"well-formed document raises {o['convert']['exc']}: {o['convert'].get('msg', '')}"
    if "exc" in o["props"]:
        return f"_extract_props_metadata raises {o['props']['exc']}"
    lost = [f for f in o["declared"] if f not in o["props"]["ok"]]
    if lost:
        return f"{len(lost)} of {len(o['declared'])} declared spot features are lost from the properties metadata (first: {lost[0]})"
    for k in ("POSITION_X", "POSITION_Y", "ROI_coords"):
        if k in o.get("units", {}) and o["units"][k] != "um":
            return f"unit of {k} is {o['units'][k]!r}, the document declares 'um'"
    return None


# ----------------------------------------------------------------- the streams
def run_streams(ck, drv, common, random_doc, corpus_dir):
    cases = []
    for f in sorted((corpus_dir / "xml").glob("*.json")):
        cases.append(json.loads(f.read_text()))
    n_corpus = len(cases)
    tree_cases = [c for c in cases if "tree" in c]
    chunk_cases = [c for c in cases if c.get("chunk")]
    nmax = 3 if ck.quick else 4
    tree_cases += list(exhaustive_trees(nmax, ck.rng, sample_last=3000 if ck.quick else 30000))
    for _ in range(500 if ck.quick else 5000):
        tree_cases.append(random_tree_case(ck.rng, random_doc))
    # chunk stream: pads that put the 32 KiB read boundary before / inside / behind FeatureDeclarations and Settings
    base = len(chunk_xml(chunk_case(0)))
    for pad in [0, 100, 32768 - 3600, 32768 - 2500, 32768 - 1500, 32768 - 600, 32768 - 200, 32768 + 50, 65536 - 2000, 65536 - 700,
                32768 - base + 120, 32768 - base + 60, 32768 - base + 20] + [ck.rng.randrange(28000, 33000) for _ in range(6 if ck.quick else 60)]:
        if pad >= 0:
            chunk_cases.append(chunk_case(pad, roi=(pad % 2 == 0)))
    obs = common.pmap(observe, tree_cases, chunksize=64)
    answers = drv.ask([model_request(c) for c in tree_cases])
    if answers is None:
        ck.broken.append({"what": "driver Drivers/C16.lean (op xml)", "detail": drv.broken})
    hist, n_unm, n_cmp = {}, 0, 0
    doc_hist = {"standard-layout-exact": 0, "of-which-wfB": 0, "not-standard-or-not-exact": 0}
    for i, (c, o) in enumerate(zip(tree_cases, obs)):
        ck.case({"xml_layer": c["stream"], "tree": json.dumps(c["tree"])[:3000], "md": c["md"], "deco": c.get("deco")},
                "xml-" + c["stream"].split(":")[0] + ("-deco" if c.get("deco") is not None else ""), nontrivial=count_nodes(c["tree"]) > 1)
        if answers is None:
            continue
        try:
            diffs, unm = compare(c, o, answers[i])
        except Exception as ex:  # noqa: BLE001
            diffs, unm = [("comparison raised", f"{type(ex).__name__}: {ex}")], 0
        n_unm += unm
        n_cmp += 1
        dj = answers[i].get("doc")
        if dj is None:
            doc_hist["not-standard-or-not-exact"] += 1
            if c["stream"] == "random:none":
                ck.corr_broken("C16-xml:docOfTree answers none on an unperturbed document of the regular stream (the end-to-end "
                               "theorems of GeffProps.C16XmlDoc would not apply to it)", {"xml_case": c}, None, None)
        else:
            doc_hist["standard-layout-exact"] += 1
            doc_hist["of-which-wfB"] += bool(dj["wf"])
            if not dj["agrees"]:
                ck.corr_broken("C16-xml:theorem C16X_build_data_doc contradicted by evaluation", {"xml_case": c}, None, dj)
        b0 = answers[i]["build"][0] if "build" in answers[i] else {}
        hist_key = "build:" + (b0.get("exc", "ok") if isinstance(b0, dict) else "?")
        hist[hist_key] = hist.get(hist_key, 0) + 1
        for name, detail in diffs[:2]:
            ck.corr_broken(f"C16-xml:{name}: {detail}"[:600], {"xml_case": c}, None, None)
    cobs = common.pmap(observe_chunk, chunk_cases) if chunk_cases else []
    n_trunc = 0
    for c, o in zip(chunk_cases, cobs):
        v = chunk_verdict(o)
        ck.case({"xml_layer": "chunk", **c}, "xml-chunk-" + ("FAIL" if v else "ok"), nontrivial=True)
        if v:
            n_trunc += 1
            ck.fail(K_TRUNC, f"Log of {c['pad']} bytes puts lxml's 32 KiB read boundary inside FeatureDeclarations: {v}",
                    {"xml_chunk_case": c}, {k: o[k] for k in ("props", "convert") if k in o}, "every declared feature; the conversion succeeds")
    ck.extra["xml_layer"] = {"corpus_cases": n_corpus, "tree_cases": len(tree_cases), "compared": n_cmp, "unmodelled_outcomes": n_unm,
                             "exhaustive_upto_elements_below_root": nmax, "build_outcomes_model": hist, "docOfTree_on_generated_trees": doc_hist,
                             "chunk_cases": len(chunk_cases), "chunk_truncations": n_trunc}


def replay_case(rp_case):
    """-> (text, failed) for a replay of a case of this module"""
    if "xml_chunk_case" in rp_case:
        o = observe_chunk(rp_case["xml_chunk_case"])
        v = chunk_verdict(o)
        return json.dumps({"case": rp_case["xml_chunk_case"], "observed": {k: o[k] for k in ("props", "convert") if k in o}, "verdict": v},
                          default=str)[:3000], v is not None
    c = rp_case["xml_case"]
    o = observe(c)
    return json.dumps({"xml": render_tree(c["tree"]).decode()[:3000], "observed": o}, default=str)[:6000], False
