"""C04, history stream — validate(s1); foreign edit; validate(s2); …  on ONE path / ONE store object.

The single-shot streams of `C04.py` build every abstract target at a *fresh* location and validate it
once.  The property, however, speaks about every call of the validator: its verdict must be the one
for what the store holds at the time of the call, whatever was validated (opened, read) at the same
location earlier in the process.  This stream explores that dimension.

Specification of the stream (what every step is judged by):

    `validateStructure` is a FUNCTION OF THE STORE CONTENT ALONE.  In Lean it is a pure function
    `Target -> Out Unit`, and `C04_sound_complete` / `C04_error_class` are stated for every target; so
    for a history  c_0, c_1, …, c_k  of contents of one location the specified outcome of the i-th
    validation is `validateStructure (abs c_i)` — it does not mention c_0 … c_{i-1}, the kind of edit
    that led from c_{i-1} to c_i, the spelling of the location (str, Path, store object) or the entry
    point used before.

A history is a list of steps on one location.  Step 0 creates the content; every later step is an edit
by a *foreign writer* (never by geff) followed by validation through every entry point the property
names (`validate_structure`, `GeffReader(validate=True)`, `geff validate` for string paths), called in
an order that varies from step to step:

  locations   disk    : a directory `g.zarr`; per step handed over as str, pathlib.Path or LocalStore
                        (one LocalStore object kept for the whole history, or a fresh one)
              nested  : `outer.zarr/tracks.geff` inside a larger zarr hierarchy (str path)
              memory  : one MemoryStore object for the whole history
              storepath: StorePath(mem, "inner") into one MemoryStore object
  edits       rebuild      : delete everything (shutil.rmtree / dict.clear) and write the new content with
                             the raw zarr API at the same location (the zarr format may change)
              zarr-inplace : open the group with plain zarr (mode r+), replace the attributes, delete /
                             create exactly the members that differ
              file-sync    : the new content is written elsewhere, then copied over file by file
                             (changed files overwritten, vanished files removed) — shutil / os only
              file-swap    : the new content is written elsewhere, the old directory is renamed away and
                             the new one renamed into place
              dict-sync    : the same as file-sync on the key/value dict of a MemoryStore
  contents    the conformant bases, their single faults from the catalogue of `C04.py` (tree and metadata
              faults), another conformant geff altogether, random conformant stores, and the root cases
              (path removed, empty directory, array at the root, zarr group without geff metadata)

Verdict per step: the independent plain-Python oracle `C04.oracle2` on the CURRENT abstract content
(this is what `ck.fail` relies on); the Lean model is asked for the same content (correspondence).
A failing step is re-run single-shot (same content at a fresh location): if it fails there too it is
reported under the single-shot key of `C04.classify` (same class as the catalogue stream, known findings
match); otherwise the failure depends on the history and is reported as `C04:history:<entry point>:<kind>`
with the shortest failing sub-history found ([i-1, i], else the prefix 0…i) as replayable case.
"""
from __future__ import annotations

import copy
import json
import os
import shutil
import tempfile
from pathlib import Path

from harness import common
from harness.corr import C04 as M

DISK_KINDS = ("path", "pathobj", "local")
DISK_EDITS = ("rebuild", "zarr-inplace", "file-sync", "file-swap")
MEM_EDITS = ("rebuild", "zarr-inplace", "dict-sync")
EPS = ("vs", "reader", "cli")


# ================================================================= abstract histories
def step(root, attrs, fmt, kind, edit="rebuild", exists=True, strenc="vlen", order=EPS, fresh_store=False, label=""):
    return {"label": label, "fmt": fmt, "kind": kind, "edit": edit, "exists": exists, "strenc": strenc,
            "root": root, "attrs": attrs, "order": list(order), "fresh_store": fresh_store}


def step_target(s):
    """the abstract target (as `C04.py` understands it) that a step leaves at the location"""
    return {"fmt": s["fmt"], "store": s["kind"], "exists": s["exists"], "strenc": s["strenc"],
            "root": s["root"], "attrs": s["attrs"]}


def family_of(kind):
    return "disk" if kind in DISK_KINDS else kind


# ================================================================= the location and its foreign writers
class Location:
    def __init__(self, family, td):
        from zarr.storage import MemoryStore

        self.family, self.td = family, Path(td)
        self.mem = MemoryStore() if family in ("memory", "storepath") else None
        self.p = None
        if family == "disk":
            self.p = self.td / "loc" / "g.zarr"
        elif family == "nested":
            self.p = self.td / "loc" / "outer.zarr" / "tracks.geff"
        self.local = None
        self.n_alt = 0

    def handle(self, s):
        from zarr.storage import LocalStore, StorePath

        k = s["kind"]
        if k in ("path", "nested"):
            return str(self.p)
        if k == "pathobj":
            return self.p
        if k == "local":
            if s.get("fresh_store") or self.local is None:
                st = LocalStore(self.p)
                if s.get("fresh_store"):
                    return st
                self.local = st
            return self.local
        if k == "storepath":
            return StorePath(self.mem, "inner")
        return self.mem

    # ---- writing a content somewhere with the raw zarr API (C04.build)
    def _build_at(self, s, base: Path):
        """materialise the step's content below `base` with `C04.build`; returns the directory that
        corresponds to the location (may not exist)"""
        t = step_target(s)
        t["store"] = "nested" if self.family == "nested" else "path"
        base.mkdir(parents=True, exist_ok=True)
        M.build(t, base)
        return base / "g.zarr" if self.family == "disk" else base / "outer.zarr" / "tracks.geff"

    def _build_mem(self, s):
        t = step_target(s)
        t["store"] = self.family
        h = M.build(t)
        return h.store if self.family == "storepath" else h

    def _zarr_inplace_ok(self, prev, s):
        return (prev is not None and prev["exists"] and s["exists"] and M.is_group(prev["root"]) and M.is_group(s["root"])
                and prev["fmt"] == s["fmt"] and prev["strenc"] == s["strenc"])

    def apply(self, prev, s):
        """make the location hold the content of step `s` (previous content: step `prev` or None);
        returns the edit actually used"""
        import zarr
        from zarr.storage import StorePath

        edit = s["edit"]
        if prev is None:
            edit = "create"
        elif edit == "zarr-inplace" and not self._zarr_inplace_ok(prev, s):
            edit = "rebuild"
        elif edit in ("file-sync", "file-swap") and self.mem is not None:
            edit = "dict-sync"
        elif edit == "dict-sync" and self.mem is None:
            edit = "file-sync"

        if edit == "zarr-inplace":
            dest = self.p if self.mem is None else (StorePath(self.mem, "inner") if self.family == "storepath" else self.mem)
            g = zarr.open_group(dest, mode="r+")
            if prev["attrs"] != s["attrs"]:
                g.attrs.put(copy.deepcopy(s["attrs"]))
            _sync_tree(g, prev["root"], s["root"], s["fmt"], s["strenc"])
            return edit

        if self.mem is not None:
            new = self._build_mem(s)._store_dict
            d = self.mem._store_dict
            if edit == "dict-sync":
                for k in [k for k in d if k not in new]:
                    del d[k]
                for k, v in new.items():
                    if k not in d or d[k].to_bytes() != v.to_bytes():
                        d[k] = v
            else:
                d.clear()
                d.update(new)
            return edit

        top = self.td / "loc"
        if edit in ("create", "rebuild"):
            if top.exists():
                shutil.rmtree(top)
            self._build_at(s, top)
            return edit
        self.n_alt += 1
        alt = self.td / f"alt{self.n_alt}"
        src = self._build_at(s, alt)
        dst = self.p
        if edit == "file-swap":
            if dst.exists():
                os.rename(dst, alt / "old")
            if src.exists():
                dst.parent.mkdir(parents=True, exist_ok=True)
                os.rename(src, dst)
        else:
            _fs_sync(src, dst)
        shutil.rmtree(alt)
        return edit


def _sync_tree(grp, old, new, fmt, strenc):
    """plain zarr: delete / create exactly the members in which two abstract group nodes differ"""
    old_m = {k: v for k, v in old["g"]}
    new_m = {k: v for k, v in new["g"]}
    for name, ch in old_m.items():
        if name not in new_m or (new_m[name] != ch and not (M.is_group(ch) and M.is_group(new_m[name]))):
            del grp[name]
    for name, ch in new["g"]:
        if name in old_m and old_m[name] == ch:
            continue
        if name in old_m and M.is_group(ch) and M.is_group(old_m[name]):
            _sync_tree(grp[name], old_m[name], ch, fmt, strenc)
        else:
            M._fill(grp, {"g": [[name, ch]]}, fmt, strenc, False)


def _fs_sync(src: Path, dst: Path):
    """make directory `dst` equal to `src` with file operations only (like rsync --delete)"""
    if not src.exists():
        if dst.exists():
            shutil.rmtree(dst)
        return
    dst.mkdir(parents=True, exist_ok=True)
    want = {q.relative_to(src) for q in src.rglob("*")}
    for q in sorted(dst.rglob("*"), reverse=True):
        if q.relative_to(dst) not in want or (q.is_dir() != (src / q.relative_to(dst)).is_dir()):
            if q.is_dir() and not q.is_symlink():
                shutil.rmtree(q)
            elif q.exists():
                q.unlink()
    for q in sorted(src.rglob("*")):
        r = dst / q.relative_to(src)
        if q.is_dir():
            r.mkdir(exist_ok=True)
        elif not r.exists() or r.read_bytes() != q.read_bytes():
            shutil.copyfile(q, r)


# ================================================================= implementation observation
def observe(s, handle):
    import warnings

    import geff
    from geff import GeffReader

    out = {}
    for ep in s["order"]:
        if ep == "vs":
            out["vs"] = M.run_quiet(geff.validate_structure, handle)
        elif ep == "reader":
            with warnings.catch_warnings():
                warnings.simplefilter("ignore")
                try:
                    r = GeffReader(handle, validate=True)
                    out["reader"] = "ok"
                    out["reader_names"] = [sorted(r.node_prop_names), sorted(r.edge_prop_names)]
                except Exception as e:  # noqa: BLE001
                    out["reader"] = M.exc_class(e)
        elif ep == "cli" and s["kind"] in ("path", "nested"):
            from typer.testing import CliRunner

            from geff._cli import app

            r = CliRunner().invoke(app, ["validate", handle])
            out["cli"] = "ok" if r.exit_code == 0 else ("exit%d:" % r.exit_code) + (
                M.exc_class(r.exception) if r.exception is not None else "?")
    return out


def run_history(h):
    """run one history in this process; [{"im": observation, "edit": edit used}] per step, or {"build": …}"""
    fam = family_of(h["steps"][0]["kind"])
    res = []
    with tempfile.TemporaryDirectory(prefix="c04h_") as td:
        loc = Location(fam, td)
        prev = None
        for i, s in enumerate(h["steps"]):
            try:
                used = loc.apply(prev, s)
                handle = loc.handle(s)
            except Exception as e:  # noqa: BLE001  the harness's own writer failed
                return {"build": f"step {i}: {type(e).__name__}: {str(e)[:300]}"}
            res.append({"im": observe(s, handle), "edit": used})
            prev = s
    return {"steps": res}


def run_fresh(h):
    """the same in a fresh forked process (no process state of earlier histories)"""
    import multiprocessing as mp

    with mp.get_context("fork").Pool(1) as pool:
        return pool.apply(run_history, (h,))


# ================================================================= contents
def _fault_pool(bname):
    root, attrs = M.bases()[bname]
    pool = [("base", root, attrs)]
    pool += [("tree|" + lab, r, attrs) for lab, r in M.tree_faults(root)]
    pool += [("meta|" + lab, root, a) for lab, a in M.meta_faults(root, attrs)]
    return pool


# faults driven through the full cross product of locations x formats x edits (on the small base `no-axes`)
PICKS = ["meta|node:extra-entry", "meta|node:drop-entry:a", "meta|node:dtype-float64:a", "meta|axes=[ghost]",
         "meta|axes=[name]", "meta|no-geff-key", "meta|set:directed#0", "meta|node:flip-varlength:a",
         "tree|delete:nodes", "tree|delete:nodes/props/a", "tree|dtype-uint16:nodes/ids", "tree|dtype-int32:nodes/props/a/values",
         "tree|shape-len+1:nodes/props/name/missing", "tree|array->group:edges/ids", "tree|add-group:nodes/props/extra"]


def _disk_patterns():
    """(kinds of steps 0,1,2…; fresh_store) patterns for the disk family"""
    return [(("path",), False), (("pathobj",), False), (("local",), False), (("local",), True),
            (("path", "pathobj", "local"), False), (("pathobj", "path", "path"), False)]


def _orders():
    return [("vs", "reader", "cli"), ("reader", "vs", "cli"), ("cli", "vs", "reader"), ("vs", "cli", "reader")]


def mk_history(label, contents, kinds, fmts, edits, fresh=False, strenc="vlen", orders=None):
    """contents: [(label, root, attrs) | ("missing",) | …]; kinds / fmts / edits cycle over the steps"""
    steps = []
    orders = orders or _orders()
    for i, c in enumerate(contents):
        kind = kinds[i % len(kinds)]
        if c[0] == "@missing":
            lab, root, attrs, exists = "missing", None, {}, False
        else:
            (lab, root, attrs), exists = c, True
        steps.append(step(root, attrs, fmts[i % len(fmts)], kind, edits[i % len(edits)] if i else "create", exists, strenc,
                          orders[i % len(orders)], fresh, lab))
    return {"label": label, "steps": steps}


QUICK_PICKS = ["meta|node:extra-entry", "meta|node:drop-entry:a", "meta|no-geff-key", "tree|delete:nodes/props/a",
               "tree|dtype-int32:nodes/props/a/values", "tree|shape-len+1:nodes/props/name/missing"]


def combinations(quick):
    """(kinds per step, fresh LocalStore per step, zarr format, edit): every location pattern x every edit x both
    formats; the quick tier gives every (pattern, edit) pair one format, alternating (the picks shift it, so both
    formats occur for every pair)"""
    out = []
    pe = [(kinds, fresh, e) for kinds, fresh in _disk_patterns() for e in DISK_EDITS]
    pe += [(("memory",), False, e) for e in MEM_EDITS]
    pe += [(("nested",), False, e) for e in ("zarr-inplace", "file-sync")]
    pe += [(("storepath",), False, e) for e in ("zarr-inplace", "dict-sync")]
    for j, (kinds, fresh, e) in enumerate(pe):
        for fmt in ((2 + j % 2,) if quick else (2, 3)):
            out.append((kinds, fresh, fmt, e))
    return out


def exhaustive(quick):
    """base -> fault -> base  and  fault -> base -> fault, for the picked faults (one per class of change: metadata
    only, member added / deleted, array retyped / reshaped, node kind changed) through every location pattern x
    edit x zarr format; a round-robin sample of the whole single-fault catalogue of three bases through the same
    combinations; the root cases (removed, emptied, array, plain group) and back"""
    out = []
    pool = {lab: (lab, r, a) for lab, r, a in _fault_pool("no-axes")}
    base = pool["base"]
    combos = combinations(quick)
    k = 0
    for pi, lab in enumerate(QUICK_PICKS if quick else PICKS):
        if lab not in pool:
            raise KeyError(f"history stream: pick {lab} is not in the catalogue")
        f = pool[lab]
        for kinds, fresh, fmt, e in combos:
            k += 1
            if quick and pi % 2:
                fmt = 5 - fmt
            seq = [base, f, base] if k % 2 else [f, base, f]
            out.append(mk_history(f"hist|no-axes|{lab}|{'/'.join(kinds)}{'*' if fresh else ''}|v{fmt}|{e}", seq, kinds, (fmt,), (e,), fresh,
                                  strenc="fixed" if k % 5 == 0 else "vlen", orders=_orders()[k % 4:] + _orders()[:k % 4]))
    # the whole catalogue, sampled round-robin over the combinations
    stride = {"typical": 61 if quick else 3, "empty-graph": 23 if quick else 2, "minimal": 9 if quick else 1}
    for bname, st in stride.items():
        fp = _fault_pool(bname)
        b = fp[0]
        for j in range(1, len(fp), st):
            k += 1
            kinds, fresh, fmt, e = combos[k % len(combos)]
            seq = [b, fp[j], b] if k % 2 else [fp[j], b, fp[j]]
            out.append(mk_history(f"hist|{bname}|{fp[j][0]}|{'/'.join(kinds)}{'*' if fresh else ''}|v{fmt}|{e}", seq, kinds, (fmt,), (e,), fresh,
                                  orders=_orders()[k % 4:] + _orders()[:k % 4]))
    # root cases in histories: removed / emptied / replaced by an array or a plain group, and back
    mini = ("base",) + M.bases()["minimal"]
    specials = [("@missing",), ("empty-directory", None, {}), ("array-at-root", M.A("int64", [3]), {}),
                ("plain-group-no-geff", M.G(("a", M.A("int64", [3]))), {})]
    edits3 = ("rebuild", "file-sync", "file-swap")
    for sp in specials:
        for kinds, fresh in _disk_patterns() + [(("nested",), False), (("memory",), False)]:
            if kinds[0] == "memory" and sp[0] in ("@missing",):
                continue
            k += 1
            for fi, fmt in enumerate((2, 3)):
                for ei, e in enumerate(edits3):
                    if quick and fi * 3 + ei != k % 6:    # quick: one (format, edit) per case, rotating
                        continue
                    out.append(mk_history(f"hist|root|{sp[0]}|{'/'.join(kinds)}|v{fmt}|{e}", [base, sp, mini, sp, base], kinds, (fmt,), (e,), fresh))
    return out


def random_history(rng, pools, names):
    fam = rng.choice(("disk", "disk", "disk", "memory", "memory", "nested", "storepath"))
    n = rng.randint(2, 6)
    bname = rng.choice(names)
    pool = pools[bname]
    fmt0 = rng.choice((2, 3))
    strenc = rng.choice(("vlen", "vlen", "fixed"))
    steps = []
    for i in range(n):
        x = rng.random()
        exists = True
        if x < 0.30:
            lab, root, attrs = pool[0]
        elif x < 0.80:
            lab, root, attrs = rng.choice(pool)
        elif x < 0.87:
            other = rng.choice(names)
            lab, root, attrs = (f"other-base:{other}",) + M.bases()[other]
        elif x < 0.93:
            t = M.random_conformant(rng)
            lab, root, attrs = "random-conformant", t["root"], t["attrs"]
        else:
            lab, root, attrs = rng.choice([("empty", None, {}), ("array-at-root", M.A("int64", [3]), {}),
                                           ("plain-group-no-geff", M.G(("a", M.A("int64", [3]))), {}), ("missing", None, {})])
            if lab == "missing":
                if fam in ("memory", "storepath"):
                    lab = "empty"
                else:
                    exists = False
        kind = rng.choice(DISK_KINDS) if fam == "disk" else fam
        edit = rng.choice(DISK_EDITS if fam in ("disk", "nested") else MEM_EDITS)
        fmt = fmt0 if (fam == "nested" or rng.random() < 0.8) else rng.choice((2, 3))
        order = list(EPS)
        rng.shuffle(order)
        steps.append(step(root, attrs, fmt, kind, edit if i else "create", exists, strenc, order, rng.random() < 0.3, lab))
    return {"label": f"hist-random|{bname}|{fam}", "steps": steps}


def corpus():
    d = common.VERIF / "harness" / "corpus" / "C04" / "hist"
    for f in sorted(d.glob("*.json")):
        j = json.loads(f.read_text())
        yield {"label": "hist-corpus|" + j.get("label", f.stem), "steps": j["history"]["steps"]}


# ================================================================= judging
def judge(h, res):
    """[(step index, key, what, history_dependent)] — every way a step's observation falsifies the
    specification of ITS OWN content"""
    bad = []
    for i, (s, r) in enumerate(zip(h["steps"], res["steps"])):
        t = step_target(s)
        want, why = M.oracle2(t)
        for key, what in M.classify(h["label"] + "|" + s["label"], t, r["im"], want, why):
            bad.append((i, key, what))
    return bad


def history_key(key):
    p = key.split(":")
    return "C04:history:" + ":".join(p[1:3])


def sub_history(h, idx):
    steps = [copy.deepcopy(h["steps"][i]) for i in idx]
    return {"label": h["label"] + "|steps=" + ",".join(map(str, idx)), "steps": steps}


MAX_CLASSIFIED = 150     # failing steps that are re-run single-shot (the rest is only counted)
MAX_MINIMISED = 2        # failing histories per key that are minimised in a fresh process


def report_all(ck, hs, results):
    """turn the failing steps of all histories into ck.fail calls (classified: single-shot class or
    history-dependent; the first few per key minimised)"""
    bad = []
    for h, res in zip(hs, results):
        if "steps" in res:
            seen = set()
            for i, key, what in judge(h, res):
                if (i, key) not in seen:
                    seen.add((i, key))
                    bad.append((h, res, i, key, what))
    ck.extra["history_failing_steps"] = len(bad)
    if not bad:
        return
    bad = bad[:MAX_CLASSIFIED]
    # the same content, validated once at a fresh location
    singles = {}
    for h, _, i, _, _ in bad:
        if i > 0:
            t = dict(step_target(h["steps"][i]), reader=True)
            singles.setdefault(json.dumps(t, sort_keys=True), t)
    obs = common.pmap(M.impl_obs, list(singles.values()), chunksize=2)
    single_obs = dict(zip(singles.keys(), obs))
    n_min = {}
    for h, res, i, key, what in bad:
        s = h["steps"][i]
        t = dict(step_target(s), reader=True)
        want, why = M.oracle2(t)
        single = single_obs[json.dumps(t, sort_keys=True)] if i > 0 else None
        if i == 0 or key in [k for k, _ in M.classify(s["label"], t, single, want, why)]:
            # not a matter of the history: the same content fails single-shot (class of the catalogue stream)
            ck.fail(key, what, {"label": h["label"] + "|" + s["label"], "target": t}, res["steps"][i]["im"], want)
            continue
        hk = history_key(key)
        case, ob = None, None
        if n_min.get(hk, 0) < MAX_MINIMISED:
            n_min[hk] = n_min.get(hk, 0) + 1
            for idx in ([i - 1, i], list(range(i + 1))):
                sh = sub_history(h, idx)
                r2 = run_fresh(sh)
                if "steps" in r2 and any(k == key and j == len(idx) - 1 for j, k, _ in judge(sh, r2)):
                    case = {"label": sh["label"], "history": sh, "step": len(idx) - 1}
                    ob = [x["im"] for x in r2["steps"]]
                    break
            if case is None:   # fails only inside the worker that ran other histories before
                case = {"label": h["label"], "history": h, "step": i, "note": "not reproduced in a fresh process"}
        if case is None:
            case = {"label": h["label"], "history": sub_history(h, list(range(i + 1))), "step": i}
        if ob is None:
            ob = [x["im"] for x in res["steps"][: i + 1]]
        prev = case["history"]["steps"][case["step"] - 1]
        pw = M.oracle2(step_target(prev))[0]
        ck.fail(hk, f"after a validation of the same {'path' if family_of(s['kind']) in ('disk', 'nested') else 'store object'} "
                    f"(then: {prev['label']} -> {pw}) and a foreign edit ({res['steps'][i]['edit']}): {what}; "
                    f"the same content at a fresh location gives {single.get('vs')}",
                case, ob, [M.oracle2(step_target(x))[0] for x in case["history"]["steps"]])


# ================================================================= the stream
def run_stream(ck, drv):
    hs = list(corpus())
    ex = exhaustive(ck.quick)
    hs += ex
    nrand = 100 if ck.quick else 2000
    names = ["typical", "no-axes", "empty-graph", "minimal", "empty-groups", "empty-axes"]
    pools = {b: _fault_pool(b) for b in names}
    hs += [random_history(ck.rng, pools, names) for _ in range(nrand)]
    results = common.pmap(run_history, hs, chunksize=4)
    reqs, where = [], []
    for hi, h in enumerate(hs):
        for si, s in enumerate(h["steps"]):
            reqs.append(M.model_req(step_target(s)))
            where.append((hi, si))
    model = drv.ask(reqs) if drv is not None else None
    if model is None:
        ck.broken.append({"what": "driver Drivers/C04.lean (history stream)", "detail": getattr(drv, "broken", None)})
    mo_at = dict(zip(where, model)) if model is not None else {}
    n_steps = n_trans = 0
    trans = {}
    for hi, (h, res) in enumerate(zip(hs, results)):
        if "build" in res:
            ck.corr_broken("C04:history:cannot-materialise", {"label": h["label"], "history": h}, res["build"], None)
            continue
        prev_want = None
        for si, (s, r) in enumerate(zip(h["steps"], res["steps"])):
            t = step_target(s)
            want = M.oracle(t)
            n_steps += 1
            ck.case({"history": h["label"], "step": si, "target": t, "edit": r["edit"]}, f"history:{family_of(s['kind'])}:{r['edit']}:{want}",
                    nontrivial=True)
            if si:
                n_trans += 1
                tk = f"{prev_want}->{want}"
                trans[tk] = trans.get(tk, 0) + 1
            prev_want = want
            mo = mo_at.get((hi, si))
            if mo is not None:
                if "err" in mo:
                    ck.corr_broken("C04:history:driver", {"label": h["label"], "step": si}, r["im"], mo)
                else:
                    if mo["out"] != r["im"].get("vs"):
                        ck.corr_broken("C04:history:validateStructure", {"label": h["label"], "history": h, "step": si}, r["im"].get("vs"), mo["out"])
                    if mo["out"] != want:
                        ck.corr_broken("C04:history:model-vs-python-oracle", {"label": h["label"], "step": si, "target": t}, want, mo["out"])
                    if "reader" in r["im"] and mo["reader"] == "ok" and r["im"]["reader"] == "ok" and \
                            r["im"]["reader_names"] != [mo["node"], mo["edge"]]:
                        ck.corr_broken("C04:history:readerInit-names", {"label": h["label"], "history": h, "step": si},
                                       r["im"]["reader_names"], [mo["node"], mo["edge"]])
    report_all(ck, hs, results)
    ck.extra["histories"] = {"histories": len(hs), "exhaustive": len(ex), "random": nrand, "validated_steps": n_steps,
                             "transitions": n_trans, "verdict_transitions": trans}
    ck.rule += ("; history stream: sequences validate(c0); foreign edit; validate(c1); … on one path (str / Path / LocalStore, "
                "nested group) or one MemoryStore / StorePath, zarr formats 2 and 3, edits by plain zarr in place, by rebuilding, by "
                "file operations (sync, directory swap) and on the store dict, contents from the single-fault catalogue in both "
                "directions (conformant->faulty->conformant and the reverse), every step judged by the oracle on the current content")
    ck.assumptions.append("history stream: the specification of every step is validateStructure(abs(current content)) — the Lean "
                          "model is a pure function of the store content, so no earlier step may influence the outcome")


# ================================================================= replay
def replay_case(c):
    h = c["history"]
    res = run_history(h)
    if "build" in res:
        print("REPLAY: the history cannot be materialised:", res["build"])
        return 1
    bad = judge(h, res)
    for i, (s, r) in enumerate(zip(h["steps"], res["steps"])):
        want, why = M.oracle2(step_target(s))
        print(json.dumps({"step": i, "content": s["label"], "handed over as": s["kind"], "zarr_format": s["fmt"], "edit": r["edit"],
                          "impl": r["im"], "specified (current content)": want, "clause": why}, default=str))
    for i, key, what in bad:
        print(f"  step {i} [{key if i == 0 else history_key(key)}] {what}")
    print("REPLAY: property holds on this history" if not bad else "REPLAY: property FAILS on this history")
    return 0 if not bad else 1
