"""C11 — variable-length values are encoded and decoded without loss; ragged input normalises
independently of the order of its elements.

Implementation (working tree): geff.core_io._serialization.serialize_vlen_property_data /
deserialize_vlen_property_data, geff.core_io._utils._get_common_type_dims /
construct_var_len_props, and the same through a real zarr store (write_arrays + GeffReader).
Model: lean/GeffModel/Vlen.lean (+ NpCast.lean) through Drivers/C11.lean; theorems GeffProps.C11.
Oracle (independent of the model, plain Python/numpy): layout arithmetic, element-wise bit-exact
round trip, expected normal form via np.result_type/astype/reshape, order independence by running
the implementation on permutations of the same input.
Library tie: every entry of the Lean canCastSafe / promote / resultType definitions is re-derived
from the installed numpy and diffed on every run.
"""
from __future__ import annotations

import itertools
import json
import math
import struct

import numpy as np

from harness import common

PROP = "C11"

NUM = ["bool", "int8", "int16", "int32", "int64", "uint8", "uint16", "uint32", "uint64",
       "float16", "float32", "float64"]
REP = {**{n: n for n in NUM}, "str": "<U64", "bytes": "S64", "object": "O"}
STORE_DTYPES = ["bool", "int8", "int16", "int32", "int64", "uint8", "uint16", "uint32", "uint64",
                "float32", "float64"]


# ----------------------------------------------------------------- canonical encoding
def dname(dt) -> str:
    dt = np.dtype(dt)
    if dt.kind == "U":
        return "str"
    if dt.kind == "S":
        return "bytes"
    if dt.kind == "O":
        return "object"
    return dt.name if dt.name in NUM else "other"


def tok(x) -> str:
    return struct.pack(">d", float(x)).hex()


def untok(h: str) -> float:
    return struct.unpack(">d", bytes.fromhex(h))[0]


def enc_val(x):
    if isinstance(x, (bool, np.bool_)):
        return bool(x)
    if isinstance(x, (int, np.integer)):
        v = int(x)
        return v if abs(v) < 2 ** 53 else str(v)
    if isinstance(x, (float, np.floating)):
        return {"f": tok(x)}
    if isinstance(x, str):
        return {"s": x}
    if isinstance(x, bytes):
        return {"s": x.decode("latin1")}
    return {"s": "py:" + repr(x)}


def enc_arr(a: np.ndarray):
    return {"dtype": dname(a.dtype), "shape": [int(s) for s in a.shape],
            "flat": [enc_val(x) for x in a.ravel().tolist()]}


def width(dt) -> int | None:
    dt = np.dtype(dt)
    return dt.itemsize // 4 if dt.kind == "U" else dt.itemsize if dt.kind == "S" else None


def dec_val(v):
    if isinstance(v, dict):
        return untok(v["f"]) if "f" in v else v["s"]
    if isinstance(v, str):
        return int(v)
    return v


def build(desc):
    """JSON description of one entry -> the Python object handed to geff."""
    if desc is None:
        return None
    if "py" in desc:
        return desc["py"]
    d = desc["np"]
    vals = [dec_val(v) for v in d["flat"]]
    if d["dtype"] == "str":
        dt = np.dtype(f"<U{d.get('width') or max([len(v) for v in vals] + [1])}")
    elif d["dtype"] == "bytes":
        vals = [v.encode("latin1") for v in vals]
        dt = np.dtype(f"S{d.get('width') or max([len(v) for v in vals] + [1])}")
    elif d["dtype"] == "object":
        dt = np.dtype("O")
    else:
        dt = np.dtype(d["dtype"])
    a = np.empty(len(vals), dtype=dt)
    for i, v in enumerate(vals):
        a[i] = v
    return relayout(a.reshape(d["shape"]), d.get("layout"))


LAYOUTS = ["C", "F", "T", "strided", "neg", "swap", "ro", "view"]


def relayout(a: np.ndarray, layout):
    """the same logical array (shape, dtype up to byte order, C-order contents) in another memory
    layout.  The memory layout is below the model: `flat` is always the logical C-order content."""
    nd = a.ndim
    if layout in (None, "C"):
        return a
    if nd == 0 and layout in ("F", "T", "neg"):         # (np.asfortranarray etc. would make it 1-d)
        layout = "view"
    if layout == "F":                                   # Fortran order
        return np.asfortranarray(a)
    if layout == "T":                                   # transposed view of a C array
        return np.ascontiguousarray(a.T).T
    if layout == "view":                                # 0-d view / first two axes swapped
        if nd == 0:
            big = np.zeros(3, dtype=a.dtype)
            big[1] = a
            return big[1:2].reshape(())
        if nd == 1:
            return np.concatenate([a, a])[a.shape[0]:]
        return np.ascontiguousarray(np.swapaxes(a, 0, 1)).swapaxes(0, 1)
    if layout == "strided":                             # big[1::2, 1::2, ...]
        if nd == 0:
            return relayout(a, "view")
        big = np.zeros(tuple(2 * n + 1 for n in a.shape), dtype=a.dtype)
        v = big[tuple(slice(1, 2 * n + 1, 2) for n in a.shape)]
        v[...] = a
        return v
    if layout == "neg":                                 # negative strides on every axis
        if nd == 0:
            return a
        sl = (slice(None, None, -1),) * nd
        return a[sl].copy()[sl]
    if layout == "swap":                                # non-native byte order
        return a.astype(a.dtype.newbyteorder())
    if layout == "ro":                                  # read-only
        b = a.copy()
        b.setflags(write=False)
        return b
    raise ValueError(layout)


def canon(a: np.ndarray) -> np.ndarray:
    """native byte order, C-contiguous copy: the logical array"""
    if a.dtype.kind == "O":
        return a
    return np.asarray(a, dtype=a.dtype.newbyteorder("="), order="C")    # (ascontiguousarray would make 0-d 1-d)


def same_dtype(a, b) -> bool:
    return np.dtype(a).newbyteorder("=") == np.dtype(b).newbyteorder("=")


def np_desc(a: np.ndarray):
    e = enc_arr(a)
    if width(a.dtype) is not None:
        e["width"] = width(a.dtype)
    return {"np": e}


def same_array(a, b) -> bool:
    """logical equality: shape, dtype up to byte order, C-order contents bit for bit"""
    if not (isinstance(a, np.ndarray) and isinstance(b, np.ndarray)):
        return False
    if a.shape != b.shape or not same_dtype(a.dtype, b.dtype):
        return False
    if a.dtype.kind == "O":
        return a.ravel().tolist() == b.ravel().tolist()
    return canon(a).tobytes() == canon(b).tobytes()


def exc_name(e: BaseException) -> str:
    return type(e).__name__


# ----------------------------------------------------------------- serialise / deserialise
def run_ser(case):
    """-> (observation, [failure...], model requests)"""
    from geff.core_io._serialization import deserialize_vlen_property_data as de
    from geff.core_io._serialization import serialize_vlen_property_data as ser

    elems = [build(d) for d in case["elems"]]
    vals = np.empty(len(elems), dtype=object)
    for i, e in enumerate(elems):
        vals[i] = e
    miss = None if case.get("missing") is None else np.asarray(case["missing"], dtype=bool)
    fails = []
    is_arr = [isinstance(e, np.ndarray) for e in elems]
    homog = all(is_arr) and len({(e.ndim, e.dtype) for e in elems}) <= 1
    # same logical dtype in different byte orders: numpy calls these dtypes different; either
    # outcome is accepted and the (byte-order-free) model is not consulted
    mixed_bo = (not homog) and all(is_arr) and len({(e.ndim, e.dtype.newbyteorder("=")) for e in elems}) <= 1
    obs = {"noncontig": sum(1 for e in elems if isinstance(e, np.ndarray) and not e.flags.c_contiguous)}
    if mixed_bo:
        obs["skip_model"] = True
    try:
        v, m, d = ser({"values": vals, "missing": miss})
    except Exception as ex:  # noqa: BLE001
        obs["ser"] = {"exc": exc_name(ex)}
        if mixed_bo:
            return obs, fails
        if homog:
            fails.append(("C11:encode-raises", f"serialize raised {exc_name(ex)} on a homogeneous object array", obs["ser"], "ok"))
        elif exc_name(ex) != "ValueError":
            fails.append(("C11:encode-wrong-exception", f"serialize raised {exc_name(ex)} (documented: ValueError)", obs["ser"], "ValueError"))
        return obs, fails
    obs["ser"] = {"ok": {"values": enc_arr(v), "data": enc_arr(d)}}
    if not homog and not mixed_bo:
        fails.append(("C11:accepts-inhomogeneous", "serialize accepted entries of differing rank/dtype or a non-array", obs["ser"], "ValueError"))
        return obs, fails
    if m is not miss:
        fails.append(("C11:missing-not-passed-through", "serialize changed the missing array", str(m), str(miss)))
    # ---- layout oracle (plain Python arithmetic)
    off, rows, flat = 0, [], []
    for e in elems:
        rows.append([off, *e.shape])
        flat.extend(e.ravel().tolist())
        off += math.prod(e.shape)
    vrows = v.tolist() if v.ndim == 2 else []
    if v.dtype != np.uint64 or v.ndim != 2 or v.shape[0] != len(elems) or \
            (len(elems) > 0 and v.shape != (len(elems), elems[0].ndim + 1)):
        fails.append(("C11:values-table-shape", f"values table has dtype {v.dtype} shape {v.shape}", obs["ser"], None))
    if vrows != rows:
        key = "C11:offsets-not-contiguous" if [r[1:] for r in vrows] == [r[1:] for r in rows] else "C11:values-table-wrong"
        fails.append((key, "offset/shape table differs from the contiguous layout", vrows, rows))
    for r in vrows:
        if r[0] + math.prod(r[1:]) > d.shape[0]:
            fails.append(("C11:slice-out-of-bounds", "a slice reaches beyond the data array", r, int(d.shape[0])))
    exp_d = np.concatenate([e.ravel() for e in elems]) if elems else np.array([], dtype="int64")
    if d.ndim != 1 or d.shape[0] != off or not same_array(d, exp_d):
        fails.append(("C11:data-not-concatenation", "data is not the concatenation of the raveled elements", enc_arr(d), enc_arr(exp_d)))
    # ---- decode
    try:
        back = de(v, m, d)
    except Exception as ex:  # noqa: BLE001
        obs["de"] = {"exc": exc_name(ex)}
        fails.append(("C11:decode-raises", f"deserialize raised {exc_name(ex)} on the serializer's output", obs["de"], "ok"))
        return obs, fails
    bv = back["values"]
    obs["de"] = {"ok": [enc_arr(x) if isinstance(x, np.ndarray) else None for x in bv]}
    if len(bv) != len(elems) or not all(same_array(x, e) for x, e in zip(bv, elems)):
        fails.append(("C11:roundtrip-mismatch", "decode(encode(x)) differs from x in shape, dtype or contents",
                      obs["de"], [enc_arr(e) for e in elems]))
    if back["missing"] is not m:
        fails.append(("C11:missing-not-passed-through", "deserialize changed the missing array", None, None))
    return obs, fails


def ser_requests(case, obs):
    """the model collapses unicode/bytes widths into one `str`/`bytes` dtype: object arrays mixing
    widths (numpy: different dtypes -> ValueError) are judged by the oracle only"""
    ws = {d["np"].get("width") for d in case["elems"] if d is not None and "np" in d and d["np"]["dtype"] in ("str", "bytes")}
    if len(ws) > 1 or obs.get("skip_model"):
        return []
    reqs = [{"op": "ser", "elems": [d["np"] if (d is not None and "np" in d) else None for d in case["elems"]]}]
    if "ok" in obs.get("ser", {}):
        reqs.append({"op": "de", "values": obs["ser"]["ok"]["values"], "data": obs["ser"]["ok"]["data"]})
    return reqs


def run_de(case):
    """deserialize on an arbitrary (possibly malformed) table"""
    from geff.core_io._serialization import deserialize_vlen_property_data as de

    v = np.asarray(case["values"]["flat"], dtype=np.uint64).reshape(case["values"]["shape"])
    d = build({"np": case["data"]})
    fails = []
    rows = v.tolist() if v.ndim == 2 else None
    dl = int(d.shape[0])

    def row_ok(r):
        if len(r) < 1:
            return False
        p = math.prod(r[1:])
        return max(0, min(p, dl - r[0])) == p          # the clipped slice holds exactly prod(shape) items
    well = rows is not None and all(row_ok(r) for r in rows)
    try:
        back = de(v, None, d)["values"]
        obs = {"ok": [enc_arr(x) for x in back]}
        if rows is not None and not well:
            fails.append(("C11:decode-accepts-out-of-bounds", "a slice outside the data array was decoded", obs, "ValueError"))
        elif rows is not None:
            fl = enc_arr(d)["flat"]
            for r, x in zip(rows, back):
                if list(x.shape) != r[1:] or enc_arr(x)["flat"] != fl[r[0]: r[0] + math.prod(r[1:])] or not same_dtype(x.dtype, d.dtype):
                    fails.append(("C11:decode-wrong-slice", "decoded element is not the addressed slice", enc_arr(x), r))
    except Exception as ex:  # noqa: BLE001
        obs = {"exc": exc_name(ex)}
        if well and rows:
            fails.append(("C11:decode-raises", f"deserialize raised {exc_name(ex)} on an in-bounds table", obs, "ok"))
    return obs, fails


# ----------------------------------------------------------------- normalisation
def as_item(obj):
    """what np.asarray sees: model item"""
    if obj is None:
        return None
    try:
        return enc_arr(np.asarray(obj))
    except ValueError:
        return "inhomogeneous"


def construct_obs(objs):
    from geff.core_io._utils import construct_var_len_props as cv

    try:
        p = cv(objs)
    except Exception as ex:  # noqa: BLE001
        return {"exc": exc_name(ex)}, None
    vals, miss = p["values"], p["missing"]
    flags = [bool(x) for x in miss] if miss is not None else [False] * len(vals)
    out = []
    for x, f in zip(vals, flags):
        if not isinstance(x, np.ndarray):
            out.append(None)
            continue
        e = enc_arr(x)
        if f:
            e["flat"] = ["?"] * len(e["flat"])
        out.append(e)
    return {"ok": {"values": out, "flags": flags, "missing": None if miss is None else flags}}, p


def expected_normal_form(objs):
    """independent statement of the documented result, or the exception class"""
    arrs = []
    for o in objs:
        if o is None:
            arrs.append(None)
        else:
            try:
                arrs.append(np.asarray(o))
            except ValueError:
                return {"exc": "ValueError"}
    present = [a for a in arrs if a is not None]
    if present:
        dt = common_dtype({a.dtype for a in present})
        if dt is None:
            return {"exc": "ValueError"}
        if dt == "quirk":
            return {"quirk": True}
        nd = max(a.ndim for a in present)
    else:
        dt, nd = np.dtype("int64"), 1
    vals = []
    for a in arrs:
        if a is None:
            vals.append(np.empty((0,) * nd, dtype=dt))
        else:
            vals.append(a.astype(dt).reshape((1,) * (nd - a.ndim) + a.shape))
    return {"ok": (dt, nd, vals, [a is None for a in arrs])}


def common_dtype(dts):
    """the dtype all of `dts` promote to — a function of the *set*.  numpy 2.5's many-argument
    result_type is order dependent on {float16, str/bytes, object} (raises for some orders, object
    for others): such sets are reported as "quirk" and get no normal-form verdict."""
    kinds = {d.kind for d in dts}
    if "O" in kinds and (kinds & {"U", "S"}) and np.dtype("float16") in dts:
        return "quirk"
    try:
        return np.result_type(*sorted(dts, key=str))
    except TypeError:
        return None


def run_construct(case):
    """case = {"items":[desc..], "perms": bool} -> obs, fails"""
    from geff.core_io._utils import _get_common_type_dims as gc

    objs = [build(d) for d in case["items"]]
    fails = []
    obs, p = construct_obs(objs)
    exp = expected_normal_form(objs)
    try:
        dt, nd = gc(objs)
        obs_c = {"ok": [dname(dt), int(nd)]}
    except Exception as ex:  # noqa: BLE001
        obs_c = {"exc": exc_name(ex)}
    res = {"construct": obs, "common": obs_c,
           "noncontig": sum(1 for o in objs if isinstance(o, np.ndarray) and not o.flags.c_contiguous)}
    if "quirk" in exp:
        res["numpy_quirk"] = True
    elif "exc" in exp:
        if "ok" in obs:
            fails.append(("C11:normalises-incompatible", "input without a common dtype / ragged entry was normalised", obs, exp))
        elif obs["exc"] != "ValueError":
            fails.append(("C11:normalise-wrong-exception", f"raised {obs['exc']} (documented: ValueError)", obs, exp))
    else:
        dt, nd, vals, flags = exp["ok"]
        if "exc" in obs:
            fails.append(("C11:rejects-cast-compatible",
                          f"{obs['exc']} although all entries cast safely to {dt}", obs, {"dtype": str(dt), "ndim": nd}))
        else:
            got = p["values"]
            gflags = obs["ok"]["flags"]
            if any(not isinstance(x, np.ndarray) for x in got) or len({(x.dtype.newbyteorder("="), x.ndim) for x in got}) > 1:
                fails.append(("C11:normalise-mixed-dtype-or-rank", "entries of the result differ in dtype or rank", obs, None))
            elif gflags != flags or ((p["missing"] is None) != (not any(flags))):
                fails.append(("C11:missing-flags-wrong", "missing flags differ from the None positions", gflags, flags))
            else:
                for x, e, f in zip(got, vals, flags):
                    ok = (x.shape == e.shape and same_dtype(x.dtype, e.dtype)) if f else same_array(x, e)
                    if not ok:
                        fails.append(("C11:normalise-wrong-contents",
                                      "entry differs from the input after the safe common cast and leading-axis padding",
                                      enc_arr(x), enc_arr(e)))
                        break
            if "ok" in obs_c and obs_c["ok"] != [dname(dt), nd]:
                fails.append(("C11:common-type-wrong", "_get_common_type_dims differs from result_type / max rank", obs_c, [dname(dt), nd]))
    # ---- order independence, on the implementation alone
    if case.get("perms"):
        n = len(objs)
        idxs = list(range(n))
        seen = set()
        for perm in itertools.permutations(idxs):
            key = json.dumps([case["items"][i] for i in perm], sort_keys=True)
            if key in seen:
                continue
            seen.add(key)
            if list(perm) == idxs:
                continue
            o2, _ = construct_obs([objs[i] for i in perm])
            if ("ok" in o2) != ("ok" in obs) or ("exc" in o2 and o2["exc"] != obs["exc"]):
                fails.append(("C11:order-dependent", f"permutation {list(perm)} of the same entries: {summ(o2)} vs {summ(obs)}",
                              {"perm": list(perm), "got": summ(o2)}, summ(obs)))
                break
            if "ok" in obs:
                want = {"values": [obs["ok"]["values"][i] for i in perm], "flags": [obs["ok"]["flags"][i] for i in perm],
                        "missing": obs["ok"]["missing"] if obs["ok"]["missing"] is None else [obs["ok"]["flags"][i] for i in perm]}
                if o2["ok"] != want:
                    fails.append(("C11:order-dependent", f"permutation {list(perm)} normalises differently",
                                  {"perm": list(perm), "got": o2["ok"]}, want))
                    break
        res["perms"] = len(seen)
    return res, fails


def summ(o):
    if "exc" in o:
        return o["exc"]
    v = o["ok"]["values"]
    return "ok:" + (v[0]["dtype"] + f"/rank{len(v[0]['shape'])}" if v and v[0] else "empty")


def canon_model_construct(mo):
    if "ok" in mo:
        for e, f in zip(mo["ok"]["values"], mo["ok"]["flags"]):
            if f:
                e["flat"] = ["?"] * len(e["flat"])
    return mo


# ----------------------------------------------------------------- through a zarr store
def run_store(case):
    """construct -> write_arrays -> raw zarr arrays + GeffReader.build -> compare"""
    import geff_spec
    import zarr
    from geff.core_io import write_arrays
    from geff.core_io._base_read import GeffReader

    objs = [build(d) for d in case["items"]]
    fails = []
    obs, p = construct_obs(objs)
    if p is None:
        return {"construct": obs}, fails
    n = len(objs)
    store = zarr.storage.MemoryStore()
    md = geff_spec.GeffMetadata(geff_version="1.0.0", directed=True, node_props_metadata={}, edge_props_metadata={})
    try:
        write_arrays(store, np.arange(n, dtype=np.int64), {"v": p}, np.zeros((0, 2), dtype=np.int64), None, md,
                     zarr_format=case.get("fmt", 2))
        g = zarr.open_group(store, mode="r")
        pv = g["nodes/props/v"]
        v = np.asarray(pv["values"][...])
        d = np.asarray(pv["data"][...])
        stored_missing = [bool(x) for x in pv["missing"][...]] if "missing" in pv else None
        r = GeffReader(store)
        r.read_node_props()
        mem = r.build()
        back = mem["node_props"]["v"]
    except Exception as ex:  # noqa: BLE001
        o = {"exc": exc_name(ex), "msg": str(ex)[:200]}
        fails.append(("C11:store-raises", f"writing/reading a normalised var-length property raised {exc_name(ex)}", o, "ok"))
        return {"store": o, "construct": obs}, fails
    o = {"values": enc_arr(v), "data": enc_arr(d), "missing": stored_missing}
    vals = p["values"]
    flags = obs["ok"]["flags"]
    bv = back["values"]
    for i, (x, e) in enumerate(zip(bv, vals)):
        ok = (x.shape == e.shape and dname(x.dtype) == dname(e.dtype)) if flags[i] else (
            x.shape == e.shape and dname(x.dtype) == dname(e.dtype)
            and (x.ravel().tolist() == e.ravel().tolist() if x.dtype.kind in "US" else
                 same_array(x, e)))
        if not ok:
            fails.append(("C11:store-roundtrip-mismatch", f"entry {i} read back from the store differs", enc_arr(x), enc_arr(e)))
            break
    if len(bv) != len(vals):
        fails.append(("C11:store-roundtrip-mismatch", "number of entries differs", len(bv), len(vals)))
    bm = back["missing"]
    if (obs["ok"]["missing"] is None) != (bm is None) or (bm is not None and [bool(x) for x in bm] != flags):
        fails.append(("C11:store-missing-mismatch", "missing mask read back differs", None if bm is None else [bool(x) for x in bm], obs["ok"]["missing"]))
    return {"store": o, "construct": obs}, fails


def _elem_ok(x, e, flag):
    if not isinstance(x, np.ndarray):
        return False
    if x.shape != e.shape or dname(x.dtype) != dname(e.dtype):
        return False
    if flag:
        return True
    if x.dtype.kind in "US":
        return x.ravel().tolist() == e.ravel().tolist()
    return same_array(x, e)


def _scribble(x):
    """the caller edits a decoded element in place; returns False when it is not writeable"""
    if not isinstance(x, np.ndarray) or x.size == 0:
        return False
    try:
        if x.dtype.kind == "b":
            x[...] = ~x
        elif x.dtype.kind in "US":
            x[...] = "Z"
        elif x.dtype.kind == "f":
            x[...] = -12345.5
        else:
            x[...] = 77 if int(x.ravel()[0]) != 77 else 78
    except ValueError:
        return False
    return True


def run_multistore(case):
    """several var-length properties — same-named node and edge properties among them — in one store;
    read with read_to_memory, geff.read and a GeffReader whose build() is called repeatedly with
    different masks while the caller edits earlier results in place.  Every decoded element must equal
    the stored (normalised) value of the node/edge it is attached to; earlier results must not change
    when a later build runs."""
    import copy

    import geff
    import geff_spec
    import zarr
    from geff.core_io import write_arrays
    from geff.core_io._base_read import GeffReader, read_to_memory

    fails = []
    res = {"props": {}}
    n = case["n_nodes"]
    edges = np.asarray(case["edges"], dtype=np.int64).reshape(-1, 2)
    node_ids = np.arange(10, 10 + n, dtype=np.int64)          # ids differ from positions
    edge_ids = node_ids[edges] if len(edges) else np.zeros((0, 2), dtype=np.int64)
    expected, written = {}, {"node": {}, "edge": {}}
    for side in ("node", "edge"):
        for name, items in case[f"{side}_props"].items():
            obs, pr = construct_obs([build(d) for d in items])
            res["props"][f"{side}/{name}"] = {"construct": obs}
            if pr is None:
                return res, fails
            written[side][name] = pr
            expected[(side, name)] = ([canon(x).copy() if x.dtype.kind != "O" else x for x in pr["values"]], obs["ok"]["flags"])
    store = zarr.storage.MemoryStore()
    md = geff_spec.GeffMetadata(geff_version="1.0.0", directed=True, node_props_metadata={}, edge_props_metadata={})

    def check(mem, what, later):
        """compare an InMemoryGeff with the stored values of the ids it carries"""
        nid = [int(x) - 10 for x in mem["node_ids"]]
        pos = {tuple(e): i for i, e in enumerate(edge_ids.tolist())}
        try:
            eidx = [pos[tuple(int(v) for v in e)] for e in mem["edge_ids"]]
        except KeyError:
            fails.append(("C11:store-roundtrip-mismatch", f"{what}: an edge that was not written", None, None))
            return
        for (side, name), (vals, flags) in expected.items():
            idx = nid if side == "node" else eidx
            got = mem[f"{side}_props"].get(name)
            if got is None:
                fails.append(("C11:store-roundtrip-mismatch", f"{what}: {side} property {name} missing", None, None))
                continue
            gv = got["values"]
            if len(gv) != len(idx):
                fails.append(("C11:store-roundtrip-mismatch", f"{what}: {side} property {name} has {len(gv)} entries for {len(idx)} ids", None, None))
                continue
            gm = got["missing"]
            for j, i in enumerate(idx):
                if not _elem_ok(gv[j], vals[i], flags[i]) or (bool(gm[j]) if gm is not None else False) != flags[i]:
                    key = "C11:store-rebuild-mismatch" if later else "C11:store-roundtrip-mismatch"
                    fails.append((key, f"{what}: {side} property {name!r}, entry of id position {i} differs from the stored value",
                                  enc_arr(gv[j]) if isinstance(gv[j], np.ndarray) else repr(gv[j]), enc_arr(vals[i])))
                    return

    def freeze(mem):
        out = {}
        for side in ("node", "edge"):
            for name, pd in mem[f"{side}_props"].items():
                out[(side, name)] = [canon(x).copy() if isinstance(x, np.ndarray) and x.dtype.kind != "O" else copy.deepcopy(x)
                                     for x in pd["values"]]
        return out

    def unchanged(mem, frozen):
        for (side, name), vals in frozen.items():
            for x, f in zip(mem[f"{side}_props"][name]["values"], vals):
                if isinstance(x, np.ndarray) and not (x.shape == f.shape and (
                        x.ravel().tolist() == f.ravel().tolist() if x.dtype.kind in "USO" else canon(x).tobytes() == f.tobytes())):
                    return False
        return True

    try:
        write_arrays(store, node_ids, written["node"] or None, edge_ids, written["edge"] or None, md,
                     zarr_format=case.get("fmt", 2))
        g = zarr.open_group(store, mode="r")
        for side in ("node", "edge"):
            for name in written[side]:
                pv = g[f"{side}s/props/{name}"]
                res["props"][f"{side}/{name}"]["store"] = {"values": enc_arr(np.asarray(pv["values"][...])),
                                                          "data": enc_arr(np.asarray(pv["data"][...]))}
        # ---- one-shot readers
        check(read_to_memory(store), "read_to_memory", False)
        gx, _ = geff.read(store)
        for (side, name), (vals, flags) in expected.items():
            for i in range(len(vals)):
                if flags[i]:
                    continue
                attrs = gx.nodes[int(node_ids[i])] if side == "node" else gx.edges[int(edge_ids[i][0]), int(edge_ids[i][1])]
                if name not in attrs or not _elem_ok(np.asarray(attrs[name]), vals[i], False):
                    fails.append(("C11:store-roundtrip-mismatch", f"geff.read (networkx): {side} property {name!r} of element {i} differs",
                                  enc_arr(np.asarray(attrs.get(name))) if name in attrs else None, enc_arr(vals[i])))
                    break
        # ---- one reader, several builds, the caller edits earlier results in between
        r = GeffReader(store)
        r.read_node_props()
        r.read_edge_props()
        earlier = []                                            # (InMemoryGeff, frozen copy)
        for b, spec in enumerate(case["builds"]):
            nm = None if spec.get("node_mask") is None else np.asarray(spec["node_mask"], dtype=bool)
            em = None if spec.get("edge_mask") is None else np.asarray(spec["edge_mask"], dtype=bool)
            before = [(m, freeze(m)) for m, _ in earlier]
            mem = r.build(node_mask=nm, edge_mask=em)
            for m, fr in before:
                if not unchanged(m, fr):
                    fails.append(("C11:store-earlier-result-changed", f"build #{b} changed the arrays of an earlier result", None, None))
                    break
            check(mem, f"build #{b} (masks {spec.get('node_mask')}, {spec.get('edge_mask')})", b > 0)
            earlier.append((mem, None))
            if spec.get("edit"):
                for side in ("node", "edge"):
                    for pd in mem[f"{side}_props"].values():
                        for x in pd["values"]:
                            _scribble(x)
    except Exception as ex:  # noqa: BLE001
        o = {"exc": exc_name(ex), "msg": str(ex)[:200]}
        fails.append(("C11:store-raises", f"writing/reading var-length properties raised {exc_name(ex)}: {str(ex)[:120]}", o, "ok"))
        res["exc"] = o
    return res, fails


# ----------------------------------------------------------------- generators
def fill(dtype: str, shape, k: int) -> np.ndarray:
    """deterministic, dtype-spanning contents"""
    n = math.prod(shape)
    if dtype == "bool":
        a = np.array([(k + i) % 3 == 0 for i in range(n)], dtype=bool)
    elif dtype.startswith("int") or dtype.startswith("uint"):
        info = np.iinfo(dtype)
        pool = [0, 1, info.max, info.min, info.max - 1, 7, info.min + 1 if info.min < 0 else 2, 100]
        a = np.array([pool[(k + i) % len(pool)] for i in range(n)], dtype=dtype)
    elif dtype.startswith("float"):
        pool = [0.0, -0.0, 1.5, -2.25, float("inf"), float("nan"), 1e-3, 65504.0, float(np.finfo(dtype).tiny)]
        a = np.array([pool[(k + i) % len(pool)] for i in range(n)], dtype=dtype)
    elif dtype == "str":
        pool = ["", "a", "bc", "é✓", "long string"]
        a = np.array([pool[(k + i) % len(pool)] for i in range(n)], dtype="<U11")
    else:
        raise ValueError(dtype)
    return a.reshape(shape)


def shapes_of_rank(r, extents=(0, 1, 2)):
    return [list(s) for s in itertools.product(extents, repeat=r)]


def gen_ser_exhaustive(ck):
    """sequences of 1..3 arrays of one rank 0..3, every extent 0..2; dtype and missing pattern rotate
    through all values (thorough: rank<=2 crossed with all dtypes)"""
    dts = NUM + ["str"]
    k = 0
    for r in range(0, 4):
        shp = shapes_of_rank(r)
        for n in (1, 2, 3):
            seqs = itertools.product(shp, repeat=n)
            for si, seq in enumerate(seqs):
                if r == 3 and n == 3 and ck.quick and (si + ck.seed) % 2 != 0:
                    continue
                dlist = dts if (not ck.quick and (r <= 2 or n <= 2)) else [dts[k % len(dts)]]
                for dt in dlist:
                    k += 1
                    pats = list(itertools.product([False, True], repeat=n))
                    pat = pats[k % (len(pats) + 1)] if k % (len(pats) + 1) < len(pats) else None
                    yield {"kind": "ser", "elems": [np_desc(fill(dt, s, k + j)) for j, s in enumerate(seq)],
                           "missing": None if pat is None else list(pat)}


def gen_ser_invalid(rng, n):
    dts = NUM + ["str"]
    for i in range(n):
        m = rng.randint(1, 4)
        elems = []
        r0, d0 = rng.randint(0, 3), rng.choice(dts)
        for j in range(m):
            r, d = r0, d0
            x = rng.random()
            if x < 0.25:
                r = rng.randint(0, 3)
            elif x < 0.5:
                d = rng.choice(dts)
            elif x < 0.6:
                elems.append({"py": rng.choice([[1, 2], 3, 2.5, "s", None])} if rng.random() < 0.8 else None)
                continue
            elems.append(np_desc(fill(d, [rng.randint(0, 2) for _ in range(r)], i + j)))
        yield {"kind": "ser", "elems": elems, "missing": None}
    yield {"kind": "ser", "elems": [], "missing": None}


def gen_ser_random(rng, n):
    dts = NUM + ["str"]
    for i in range(n):
        m = rng.randint(0, 12)
        r, d = rng.randint(0, 3), rng.choice(dts)
        elems = [np_desc(fill(d, [rng.choice([0, 1, 2, 3, 5]) for _ in range(r)], rng.randint(0, 99))) for _ in range(m)]
        miss = None if rng.random() < 0.4 else [rng.random() < 0.3 for _ in range(m)]
        yield {"kind": "ser", "elems": elems, "missing": miss}


def gen_de_tables(rng, n):
    """malformed / adversarial offset tables against a small data array"""
    for i in range(n):
        dt = rng.choice(["int64", "float32", "uint8", "bool"])
        dl = rng.randint(0, 8)
        data = enc_arr(fill(dt, [dl], i))
        rows_n = rng.randint(0, 4)
        mode = rng.random()
        if mode < 0.1:
            tab = {"shape": [rows_n], "flat": [rng.randint(0, 5) for _ in range(rows_n)]}
        else:
            w = rng.randint(0, 3) if mode < 0.2 else rng.randint(1, 4)
            flat = []
            for _ in range(rows_n):
                row = [rng.randint(0, dl + 2)] + [rng.choice([0, 1, 1, 2, 3]) for _ in range(max(w - 1, 0))]
                flat += row[:w]
            tab = {"shape": [rows_n, w], "flat": flat}
        yield {"kind": "de", "values": tab, "data": data}


ALPHABET = None


def alphabet():
    global ALPHABET
    if ALPHABET is None:
        ALPHABET = [
            None,
            {"py": 5}, {"py": 2.5}, {"py": True},
            {"py": [1, 2]}, {"py": [1.5]}, {"py": []}, {"py": [[1, 2], [3, 4]]}, {"py": [[]]}, {"py": [[[7]]]},
            {"py": [True, False]},
            np_desc(np.array([1, -128], dtype=np.int8)), np_desc(np.array([[200]], dtype=np.uint8)),
            np_desc(np.array([0.5], dtype=np.float16)), np_desc(np.array([2 ** 63 + 1025, 3], dtype=np.uint64)),
            np_desc(np.array(-(2 ** 63) + 513, dtype=np.int64)), np_desc(np.array([[1.25, -0.0]], dtype=np.float32)),
            np_desc(np.array([70000], dtype=np.uint32)), np_desc(np.array([-300], dtype=np.int16)),
            np_desc(np.array([60000, 1], dtype=np.uint16)),
            np_desc(np.arange(6, dtype=np.int32).reshape(2, 3) - 2),
            np_desc((np.arange(8, dtype=np.float64).reshape(2, 2, 2) - 3) / 4),
        ]
    return ALPHABET


STR_ITEMS = [{"py": ["ab"]}, {"py": ["abcd", "c"]}, {"py": "xyz"}, {"py": [[1, 2], [3]]},
             {"np": {"dtype": "bytes", "shape": [1], "flat": [{"s": "ab"}]}}, {"py": [None, 1]}]


def gen_construct_exhaustive(ck):
    A = alphabet()
    kmax = 3
    for k in range(0, kmax + 1):
        for combo in itertools.combinations_with_replacement(range(len(A)), k):
            yield {"kind": "construct", "items": [A[i] for i in combo], "perms": True}
    # length 4: a seeded sample (quick) / every 3rd (thorough)
    allc = list(itertools.combinations_with_replacement(range(len(A)), 4))
    step = 12 if ck.quick else 2
    for j, combo in enumerate(allc):
        if (j + ck.seed) % step == 0:
            yield {"kind": "construct", "items": [A[i] for i in combo], "perms": True}
    # strings / bytes / object / ragged entries: oracle + order independence (model: partly unmodelled)
    B = A[:6] + [A[13]] + STR_ITEMS
    for k in (1, 2, 3):
        for combo in itertools.combinations_with_replacement(range(len(B)), k):
            if any(i >= 7 for i in combo):
                yield {"kind": "construct", "items": [B[i] for i in combo], "perms": True}


def gen_construct_random(rng, n):
    for i in range(n):
        m = rng.randint(1, 10)
        items = []
        kinds = rng.choice([NUM, NUM, ["int64", "float64", "bool"], ["int8", "uint8", "float16", "int16"], ["uint64", "int64", "uint32"]])
        for _ in range(m):
            x = rng.random()
            if x < 0.2:
                items.append(None)
            elif x < 0.45:
                r = rng.randint(0, 3)
                shape = [rng.randint(0, 2) for _ in range(r)]
                base = rng.choice([0, 1, -3, 2 ** 53 + 1, 2 ** 62 + 3, -(2 ** 63), 2 ** 63 - 1, 2.5, 1e300, True])

                def mk(sh):
                    if not sh:
                        return base
                    return [mk(sh[1:]) for _ in range(sh[0])]
                items.append({"py": mk(shape)})
            else:
                r = rng.randint(0, 3)
                items.append(np_desc(fill(rng.choice(kinds), [rng.randint(0, 2) for _ in range(r)], rng.randint(0, 50))))
        yield {"kind": "construct", "items": items, "perms": m <= 5}


def gen_store(rng, n):
    for i in range(n):
        m = rng.randint(1, 6)
        dt = rng.choice(STORE_DTYPES + ["str"])
        r = rng.randint(0, 3)
        items = []
        for _ in range(m):
            if rng.random() < 0.2:
                items.append(None)
            else:
                rr = rng.randint(0, r)
                items.append(np_desc(fill(dt, [rng.randint(0, 2) for _ in range(rr)], rng.randint(0, 50))))
        if all(x is None for x in items):
            items.append(np_desc(fill(dt, [1] * r, 3)))
        yield {"kind": "store", "items": items, "fmt": 2 + (i % 2)}


def gen_multistore(rng, n):
    """stores with several var-length properties, same-named node and edge properties included"""
    for i in range(n):
        nn = rng.randint(1, 5)
        pool = [(a, b) for a in range(nn) for b in range(nn) if a != b]
        rng.shuffle(pool)
        edges = [list(e) for e in pool[: rng.randint(1, min(5, len(pool)))]] if pool else []
        ne = len(edges)

        def prop(count, dt, r):
            items = []
            for _ in range(count):
                if rng.random() < 0.2:
                    items.append(None)
                else:
                    rr = rng.randint(max(0, r - 1), r)
                    d = np_desc(fill(dt, [rng.randint(0, 3) for _ in range(rr)], rng.randint(0, 50)))
                    d["np"]["layout"] = rng.choice(LAYOUTS)
                    items.append(d)
            if all(x is None for x in items):
                items[0] = np_desc(fill(dt, [2] * r, 3))
            return items

        node_props, edge_props = {}, {}
        dts = STORE_DTYPES + ["str"]
        mode = i % 4
        dt, r = rng.choice(dts), rng.randint(1, 3)
        node_props["v"] = prop(nn, dt, r)
        if ne:
            if mode == 0:                      # same name, same dtype and rank
                edge_props["v"] = prop(ne, dt, r)
            elif mode == 1:                    # same name, other dtype and rank
                edge_props["v"] = prop(ne, rng.choice(dts), rng.randint(1, 3))
            elif mode == 2:                    # same name + further properties on both sides
                edge_props["v"] = prop(ne, rng.choice(dts), r)
                edge_props["w"] = prop(ne, rng.choice(dts), rng.randint(0, 2))
                node_props["w"] = prop(nn, rng.choice(dts), rng.randint(0, 2))
            else:                              # different names only
                edge_props["e"] = prop(ne, rng.choice(dts), rng.randint(1, 3))
                node_props["u"] = prop(nn, rng.choice(dts), rng.randint(0, 3))

        def mask(k):
            x = rng.random()
            return None if x < 0.35 else [rng.random() < 0.6 for _ in range(k)] if x < 0.9 else [True] * k

        builds = [{"node_mask": mask(nn), "edge_mask": mask(ne), "edit": rng.random() < 0.7} for _ in range(rng.randint(2, 3))]
        if i % 5 == 0:
            builds = [{"node_mask": None, "edge_mask": None, "edit": True}, {"node_mask": None, "edge_mask": None, "edit": True},
                      {"node_mask": mask(nn), "edge_mask": None, "edit": False}]
        yield {"kind": "multistore", "n_nodes": nn, "edges": edges, "node_props": node_props, "edge_props": edge_props,
               "builds": builds, "fmt": 2 + (i % 2)}


def layout_variants(cases, nvar):
    """every case as generated (C layout) plus `nvar` copies in which each element array is presented
    in another memory layout with the same logical contents (rotating through LAYOUTS[1:])."""
    import copy

    alt = LAYOUTS[1:]
    noswap = [x for x in alt if x != "swap"]
    k = 0
    for c in cases:
        yield c
        key = "elems" if c["kind"] == "ser" else "items" if c["kind"] in ("construct", "store") else None
        if c["kind"] == "multistore":                   # (chooses its layouts itself)
            continue
        if c["kind"] == "de":
            for v in range(nvar):
                k += 1
                c2 = copy.deepcopy(c)
                c2["data"]["layout"] = [x for x in alt if x not in ("F", "T")][k % 5]
                yield c2
            continue
        descs = c[key]
        if not any(d is not None and "np" in d for d in descs):
            continue
        for v in range(nvar):
            k += 1
            c2 = copy.deepcopy(c)
            if c["kind"] == "construct" and len(descs) > 2:
                c2["perms"] = False                     # order independence is the C-layout run's job
            all_swap = c["kind"] == "ser" and k % 5 == 0
            for j, d in enumerate(c2[key]):
                if d is not None and "np" in d:
                    pool = noswap if c["kind"] == "ser" else alt
                    d["np"]["layout"] = "swap" if all_swap else pool[(k + 3 * j) % len(pool)]
            yield c2


def layouts_of(case):
    if case["kind"] == "multistore":
        return [d["np"].get("layout", "C") for side in ("node", "edge") for items in case[f"{side}_props"].values()
                for d in items if d is not None]
    if case["kind"] == "de":
        return [case["data"].get("layout", "C")]
    key = "elems" if case["kind"] == "ser" else "items"
    return [d["np"].get("layout", "C") for d in case[key] if d is not None and "np" in d]


def corpus():
    d = common.VERIF / "harness" / "corpus" / PROP
    for f in sorted(d.glob("*.json")):
        yield json.loads(f.read_text())


# ----------------------------------------------------------------- numpy library tie
def numpy_tables(ck, drv):
    """re-derive canCastSafe / promote / resultType from the installed numpy and diff with Lean"""
    names = list(REP)
    back = dname
    ans = drv.ask([{"op": "tables"}])
    if ans is None or "err" in ans[0]:
        ck.broken.append({"what": "driver Drivers/C11.lean (tables)", "detail": drv.broken or ans})
        return
    t = ans[0]
    lean_names = t["names"]
    if lean_names != names:
        ck.corr_broken("C11:numpy-table-names", None, names, lean_names)
        return
    n_entries = 0
    for i, a in enumerate(names):
        for j, b in enumerate(names):
            n_entries += 2
            cc = bool(np.can_cast(np.dtype(REP[a]), np.dtype(REP[b]), casting="safe"))
            if cc != t["cancast"][i][j]:
                ck.corr_broken("C11:numpy-table canCastSafe", [a, b], cc, t["cancast"][i][j])
            try:
                pr = back(np.promote_types(np.dtype(REP[a]), np.dtype(REP[b])))
            except TypeError:
                pr = None
            if pr != t["promote"][i][j]:
                ck.corr_broken("C11:numpy-table promote", [a, b], pr, t["promote"][i][j])
    seqs = []
    for k in range(1, len(names) + 1):
        if k <= 4 or not ck.quick or k >= len(names) - 1:
            seqs.extend(itertools.combinations(names, k))
    if ck.quick:
        seqs.extend(tuple(ck.rng.sample(names, ck.rng.randint(5, 13))) for _ in range(1500))
    seqs.extend(itertools.product(names, repeat=2))
    seqs.extend(itertools.product(names, repeat=3))
    ans = drv.ask([{"op": "result", "ds": list(s)} for s in seqs])
    if ans is None:
        ck.broken.append({"what": "driver Drivers/C11.lean (result)", "detail": drv.broken})
        return
    n_quirk = 0
    for s, a in zip(seqs, ans):
        n_entries += 1
        try:
            r = back(np.result_type(*[np.dtype(REP[x]) for x in s]))
        except TypeError:
            r = None
        if a.get("r") != r:
            if common_dtype({np.dtype(REP[x]) for x in s}) == "quirk":
                n_quirk += 1          # numpy itself is order dependent here; Lean has the non-failing answer
                continue
            ck.corr_broken("C11:numpy-table resultType", list(s), r, a)
    ck.extra["numpy_result_type_order_dependent_sequences_skipped"] = n_quirk
    ck.extra["numpy_table_entries_checked"] = n_entries
    ck.extra["numpy_version"] = np.__version__


# ----------------------------------------------------------------- the check
def _work(case):
    k = case["kind"]
    if k == "ser":
        return run_ser(case)
    if k == "de":
        return run_de(case)
    if k == "construct":
        return run_construct(case)
    if k == "store":
        return run_store(case)
    if k == "multistore":
        return run_multistore(case)
    raise ValueError(k)


def nontrivial(case):
    k = case["kind"]
    if k == "ser":
        return len(case["elems"]) >= 1
    if k == "de":
        return len(case["values"]["flat"]) > 0
    if k == "multistore":
        return True
    return sum(1 for x in case["items"] if x is not None) >= 1


def tag_of(case, obs):
    k = case["kind"]
    if k == "ser":
        s = obs["ser"]
        return "ser:" + ("ok" if "ok" in s else s["exc"])
    if k == "de":
        return "de:" + ("ok" if "ok" in obs else obs["exc"])
    if k == "construct":
        c = obs["construct"]
        return "construct:" + (summ(c) if "ok" in c else c["exc"])
    if k == "multistore":
        same = bool(set(case["node_props"]) & set(case["edge_props"]))
        return "multistore:" + ("exc" if "exc" in obs else "ok") + (":same-name" if same else "")
    return "store:" + ("ok" if "values" in obs.get("store", {}) else "exc")


def run(ck: common.Check):
    ck.prove(["GeffProps.C11", "GeffProps.C11Gen"])
    ck.rule = ("cases = corpus + (ser/de) every sequence of 1..3 arrays of one rank 0..3 with every extent 0..2, dtype "
               "(12 numeric + str) and missing pattern rotating [rank-3 triples sampled 1/2 in quick] + invalid "
               "(mixed rank/dtype/non-array) sequences + adversarial offset tables for the decoder + (normalise) every "
               "multiset of <=3 entries (and a sample of 4) over a 20-entry alphabet of None/scalars/nested lists/typed "
               "arrays, each run in every distinct permutation + seeded random longer sequences + a sample through a "
               "zarr store (formats 2 and 3) + stores with several var-length properties, same-named node and edge properties "
               "(same / other dtype and rank) among them, read by read_to_memory, geff.read (networkx) and a GeffReader whose "
               "build() runs 2-3 times with different node/edge masks while the caller edits earlier results in place; every "
               "generated case is run as generated (C-contiguous arrays) and again with each "
               "element array in another memory layout with the same logical contents (Fortran order, transposed and "
               "axis-swapped views, strided slices, negative strides, non-native byte order, read-only, 0-d/offset views; "
               "1 variant per case in quick, 2 in thorough, rotating); non-trivial = at least one (non-None) entry; distinct = distinct canonical JSON")
    cases = list(corpus())
    n_corpus = len(cases)
    gen = []
    gen += list(gen_ser_exhaustive(ck))
    gen += list(gen_ser_invalid(ck.rng, 400 if ck.quick else 4000))
    gen += list(gen_ser_random(ck.rng, 500 if ck.quick else 8000))
    gen += list(gen_de_tables(ck.rng, 800 if ck.quick else 8000))
    gen += list(gen_construct_exhaustive(ck))
    gen += list(gen_construct_random(ck.rng, 800 if ck.quick else 12000))
    gen += list(gen_store(ck.rng, 120 if ck.quick else 1500))
    gen += list(gen_multistore(ck.rng, 400 if ck.quick else 4000))
    cases += list(layout_variants(gen, 1 if ck.quick else 2))
    ck.extra["corpus_cases"] = n_corpus
    lay_hist: dict = {}
    for c in cases:
        for l in layouts_of(c):
            lay_hist[l] = lay_hist.get(l, 0) + 1
    ck.extra["layout_histogram_elements"] = lay_hist

    results = common.pmap(_work, cases, chunksize=64)

    drv = ck.driver()
    numpy_tables(ck, drv)
    reqs, where = [], []
    for idx, (c, (obs, fails)) in enumerate(zip(cases, results)):
        k = c["kind"]
        if k == "ser":
            for r in ser_requests(c, obs):
                reqs.append(r)
                where.append((idx, r["op"]))
        elif k == "de":
            reqs.append({"op": "de", "values": {"dtype": "uint64", **c["values"]}, "data": c["data"]})
            where.append((idx, "de"))
        elif k in ("construct", "store"):
            items = [as_item(build(d)) for d in c["items"]]
            reqs.append({"op": "construct", "items": items})
            where.append((idx, "construct"))
            if k == "construct":
                reqs.append({"op": "common", "items": items})
                where.append((idx, "common"))
            else:
                reqs.append({"op": "roundtrip", "items": items})
                where.append((idx, "roundtrip"))
        elif k == "multistore":
            for side in ("node", "edge"):
                for name, descs in c[f"{side}_props"].items():
                    reqs.append({"op": "roundtrip", "items": [as_item(build(d)) for d in descs]})
                    where.append((idx, ("mroundtrip", f"{side}/{name}")))
    answers = drv.ask(reqs)
    if answers is None:
        ck.broken.append({"what": "driver Drivers/C11.lean", "detail": drv.broken})
    n_perm = 0
    n_noncontig = 0
    n_unmodelled = 0
    for idx, (c, (obs, fails)) in enumerate(zip(cases, results)):
        ck.case(c, tag_of(c, obs), nontrivial=nontrivial(c))
        n_perm += obs.get("perms", 0) if isinstance(obs, dict) else 0
        n_noncontig += obs.get("noncontig", 0) if isinstance(obs, dict) else 0
        for key, what, observed, expected in fails:
            ck.fail(key, what, c, observed, expected)
    if answers is not None:
        for (idx, op), mo in zip(where, answers):
            c, (obs, _) = cases[idx], results[idx]
            if "err" in mo:
                ck.corr_broken("C11:driver", c, obs, mo)
                continue
            if "unmodelled" in mo:
                n_unmodelled += 1
                ck.histogram["model:unmodelled"] = ck.histogram.get("model:unmodelled", 0) + 1
                continue
            if op == "ser":
                if mo != obs["ser"]:
                    ck.corr_broken("C11:serializeVlen", c, obs["ser"], mo)
            elif op == "de":
                io = obs["de"] if c["kind"] == "ser" else obs
                if mo != io:
                    ck.corr_broken("C11:deserializeVlen", c, io, mo)
            elif op == "common":
                if mo != obs["common"]:
                    ck.corr_broken("C11:getCommonTypeDims", c, obs["common"], mo)
            elif op == "construct":
                if canon_model_construct(mo) != obs["construct"]:
                    ck.corr_broken("C11:constructVarLenProps", c, obs["construct"], mo)
            elif op == "roundtrip" or isinstance(op, tuple):
                pobs = obs if op == "roundtrip" else obs["props"][op[1]]
                st = pobs.get("store", {})
                obs = pobs
                if "values" in st:
                    # stored table and data = model's encode of the model's normal form
                    flags = obs["construct"]["ok"]["flags"]
                    rank0_missing = any(f and not e["shape"] for f, e in zip(flags, obs["construct"]["ok"]["values"]))
                    same = mo.get("values") == st["values"] and (
                        rank0_missing or (mo.get("data", {}).get("flat") == st["data"]["flat"]
                                          and mo["data"]["dtype"] == st["data"]["dtype"]))
                    if not same:
                        ck.corr_broken("C11:store-layout", c, st, {k: mo.get(k) for k in ("values", "data")})
    ck.extra["permutations_run"] = n_perm
    ck.extra["non_c_contiguous_elements_presented"] = n_noncontig
    ck.extra["model_unmodelled"] = n_unmodelled
    ck.assumptions += [
        "numpy's dtype inference (np.asarray of nested lists/scalars), astype along safe casts and result_type are "
        "modelled (tables re-derived from the installed numpy on every run), not verified",
        "an entry of the user's sequence is modelled as what np.asarray makes of it (dtype, shape, C-order contents)",
        "number -> string casts and dtypes outside bool/int/uint/float/str/bytes/object are outside the model "
        "(`unmodelled`); they are covered by the Python oracle (normal form, order independence) only",
        "contents of a missing rank-0 entry are uninitialised memory (np.empty(())): compared on shape and dtype only",
        "offset arithmetic is modelled in unbounded naturals (no uint64 overflow)",
        "the memory layout of an array (strides, contiguity, byte order, writability) is below the model: `flat` is the "
        "logical C-order content (`a.ravel().tolist()`), dtypes are compared up to byte order; the harness presents every "
        "element in several layouts so that a layout-dependent flattening is observed as wrong contents",
        "zarr storage/codec identity per dtype is exercised (formats 2 and 3, MemoryStore), not verified",
        "the reader (GeffReader, read_to_memory, geff.read) is below the C11 model (it is C09's subject): the store stream "
        "checks only that every decoded element equals the stored normal form of the node/edge id it is attached to, for "
        "several properties incl. same-named node and edge properties, across repeated builds with in-place edits of "
        "earlier results (no buffer shared between results, earlier results unchanged by later builds)",
    ]


def replay(rp):
    c = rp["case"]
    obs, fails = _work(c)
    print(json.dumps({"case": c, "observed": obs, "failures": [{"key": f[0], "what": f[1]} for f in fails]}, default=str)[:4000])
    want = rp.get("key")
    hit = [f for f in fails if want is None or f[0] == want]
    print("REPLAY: property FAILS on this input" if hit else "REPLAY: property holds on this input")
    return 1 if hit else 0
