"""C19 — primitive stream: the primitives of lean/GeffModel/PyDoSeg.lean (what the source-translated
segmentation checks, Gen/Segmentation.lean, call) against real Python / numpy, one primitive at a
time and ALSO at the points the guards of geff's source exclude (negative and too-large indices and
time points, an axis beyond the rank, `None` where a list is expected, lists of different lengths,
a missing dictionary key) — so that "a removed guard makes numpy's wrap-around / the exception
reachable in the generated code" rests on primitives that are compared with numpy there.

Bounded-exhaustive over small inputs; exceptions are compared by class (numpy's AxisError is an
IndexError).  A disagreement is a broken correspondence (`C19:prim:<f>`), never a violation by
itself."""
from __future__ import annotations

import itertools
from collections import defaultdict
from fractions import Fraction

import numpy as np

DYS = [(m, e) for e in (0, 1, 2) for m in (-5, -4, -3, -2, -1, 0, 1, 2, 3, 4, 5, 7, 8)]


def fl(d):
    return d[0] / 2 ** d[1]


def exc(ex):
    for c in (IndexError, KeyError, TypeError, ValueError, AttributeError):
        if isinstance(ex, c):
            return {"exc": c.__name__}
    return {"exc": type(ex).__name__}


def outcome(f):
    try:
        return {"ok": f()}
    except Exception as ex:  # noqa: BLE001
        return exc(ex)


VOLS = [([2], [5, 6]), ([2, 3], [1, 2, 3, 4, 5, 1]), ([1, 2, 2], [7, 7, 8, 9]), ([3, 1], [4, 4, 2]), ([0, 2], [])]


def cases():
    for shape, flat in VOLS:
        v = {"shape": shape, "flat": flat}
        for idx in itertools.product(*[range(-n - 1, n + 2) for n in shape]):
            yield {"f": "npIndex", **v, "idx": list(idx)}
        for axis in range(len(shape) + 2):
            n = shape[axis] if axis < len(shape) else 2
            for t in range(-n - 2, n + 2):
                if 0 in shape and not -n <= t < n:
                    # numpy does not bounds-check np.take on a zero-size array (it returns an empty array); the
                    # model raises IndexError there.  Unreachable behind the guard; left out of the comparison.
                    continue
                yield {"f": "npUniqueTake", **v, "t": t, "axis": axis}
    for d in DYS:
        yield {"f": "pyInt", "x": list(d)}
        yield {"f": "dyTruthy", "x": list(d)}
    small = [(-1, 0), (0, 0), (1, 1), (3, 1), (2, 0)]
    for la in range(4):
        for lb in range(4):
            for xs in itertools.product(small, repeat=la):
                for shape in itertools.product((0, 1, 2), repeat=lb):
                    yield {"f": "allZipStrict", "xs": [list(x) for x in xs], "shape": list(shape)}
    for la in range(3):
        for lb in range(3):
            for a in itertools.product(small[:4], repeat=la):
                for b in itertools.product(small[1:4], repeat=lb):
                    yield {"f": "mapZipStrict", "a": [list(x) for x in a], "b": [list(x) for x in b]}
    for n in range(5):
        for ks in itertools.product((-1, 0, 2), repeat=n):
            yield {"f": "dd", "appends": [[k, 10 * i + 1] for i, k in enumerate(ks)], "reads": [-1, 0, 1, 2]}
            yield {"f": "dictSetKey", "keys": list(ks)}
    for x in (None, [], [False], [True], [False, True], [False, False]):
        yield {"f": "optlist", "x": x}
    for l in ([], [4], [4, 5], [1, 2, 3]):
        for i in range(5):
            yield {"f": "listGet", "l": l, "i": i}
    for keys in ([], ["seg_id"], ["a", "seg_id"], ["seg_id", "a", "seg_id"]):
        for k in ("seg_id", "a", "zz"):
            yield {"f": "dict", "keys": keys, "k": k}
    kinds = [(None, None), ("time", None), ("time", [1, 0]), ("space", [1, 0]), ("time", [1, 1])]
    yield {"f": "pyIndexOf", "axes": None, "i": 0}
    for n in (1, 2, 3):
        for combo in itertools.product(kinds, repeat=n):
            for i in range(n):
                yield {"f": "pyIndexOf", "axes": [{"type": t, "max": m} for t, m in combo], "i": i}


def python_obs(c):
    f = c["f"]
    if f in ("npIndex", "npUniqueTake"):
        seg = np.asarray(c["flat"], dtype="int64").reshape(c["shape"])
        if f == "npIndex":
            return outcome(lambda: int(seg[tuple(int(i) for i in c["idx"])]))
        return outcome(lambda: sorted(set(np.unique(np.take(seg, indices=c["t"], axis=c["axis"])).tolist())))
    if f == "pyInt":
        return int(fl(c["x"]))
    if f == "dyTruthy":
        return bool(fl(c["x"]))
    if f == "allZipStrict":
        xs = [fl(x) for x in c["xs"]]
        return outcome(lambda: all(0 <= x < dim for x, dim in zip(xs, c["shape"], strict=True)))
    if f == "mapZipStrict":
        a, b = [fl(x) for x in c["a"]], [fl(x) for x in c["b"]]
        return outcome(lambda: [str(Fraction(x * s)) for x, s in zip(a, b, strict=True)])
    if f == "dd":
        d = defaultdict(list)
        for k, v in c["appends"]:
            d[k].append(v)
        res = {"len": len(d), "keys": list(d.keys())}
        res["reads"] = [list(d[k]) for k in c["reads"]]
        return res
    if f == "dictSetKey":
        d = {}
        for k in c["keys"]:
            d[k] = c["keys"]
        return {"len": len(d), "keys": list(d)}
    if f == "optlist":
        x = c["x"]
        return {"truthy": bool(x), "len": outcome(lambda: len(x)), "iter": outcome(lambda: [bool(b) for b in x]),
                "any": outcome(lambda: any(x))}
    if f == "listGet":
        return outcome(lambda: c["l"][c["i"]])
    if f == "dict":
        d = {k: i for i, k in enumerate(c["keys"])}
        # the model's dict is an association list read from the front; a Python dict keeps the LAST value of a
        # repeated key — only presence and the exception are compared for repeated keys
        first = {}
        for i, k in enumerate(c["keys"]):
            first.setdefault(k, i)
        return {"contains": c["k"] in d, "get": outcome(lambda: (d[c["k"]], first[c["k"]])[1])}
    if f == "pyIndexOf":
        import geff_spec

        if c["axes"] is None:
            axes = None
        else:
            axes = []
            for a in c["axes"]:
                mx = None if a["max"] is None else fl(a["max"])
                # the name is a function of (type, max): pydantic's field-wise equality of Axis objects is then the
                # equality of the fields the model has
                axes.append(geff_spec.Axis(name=f"n-{a['type']}-{mx}", type=a["type"],
                                           min=None if mx is None else min(0.0, mx), max=mx))
        return outcome(lambda: axes.index(axes[c["i"]]))
    raise ValueError(f)


def canon_model(c, mo):
    f = c["f"]
    if f == "npUniqueTake" and isinstance(mo, dict) and "ok" in mo:
        return {"ok": sorted(set(mo["ok"]))}
    if f == "mapZipStrict" and isinstance(mo, dict) and "ok" in mo:
        return {"ok": [str(Fraction(int(m), 2 ** int(e))) for m, e in mo["ok"]]}
    return mo


def run(ck, drv, unstr):
    cs = list(cases())
    answers = drv.ask([{"op": "prim", **c} for c in cs])
    hist: dict = {}
    if answers is None:
        ck.broken.append({"what": "driver Drivers/C19.lean (primitive stream)", "detail": drv.broken})
        return
    for c, mo in zip(cs, answers):
        mo = unstr(mo)
        py = python_obs(c)
        if isinstance(mo, dict) and "err" in mo:
            ck.corr_broken("C19:driver", c, py, mo)
            continue
        mo = canon_model(c, mo)
        tag = c["f"] + (":exc" if isinstance(py, dict) and "exc" in py else "")
        hist[tag] = hist.get(tag, 0) + 1
        if mo != py:
            ck.corr_broken(f"C19:prim:{c['f']}", c, py, mo)
    ck.extra["primitive_stream"] = {"cases": len(cs), "histogram": hist}
