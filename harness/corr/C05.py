"""C05 — a failed or interrupted write never leaves a wrong graph that looks valid.

Implementation under test: write_arrays, write_dicts, geff.write (networkx / rustworkx /
spatial-graph) on MemoryStore, LocalStore, Path and str stores, zarr formats 2 and 3, with and
without foreign members, with and without a pre-existing geff and overwrite=True.

Per case (one worker each):
  1. the store is prepared (siblings, old geff) and snapshotted; the write is run once without a
     fault while every store mutation is recorded (program order);
  2. **fault injection at every mutation k**: the store is restored, the k-th mutation raises, and
     the surviving store is classified by the *real* validate_structure + read_to_memory;
  3. independent oracle (no Lean involved): the surviving store must be rejected, or read back as
     exactly the new graph (= what the fault-free run reads as), or — when a geff was there
     before — exactly as the old graph; foreign members must be byte-identical;
  4. invalid inputs (wrong lengths, metadata naming absent properties, unsupported dtypes,
     mismatched id dtypes) with structure validation on: the target must be rejected afterwards,
     and after a *validation* failure nodes/, edges/ and the geff attribute must be gone and the
     foreign part unchanged.
Correspondence with the Lean model (GeffModel/KV.lean + GeffModel/KVTorn.lean — the verdict of the final
validation is taken on the committed store — through Drivers/C05.lean): the recorded real
mutation sequence equals the model's `ops` (kind and key of every mutation), the outcome classes
agree, the final stores agree document by document, and the store surviving the fault at k equals
the model's store after the mutations that really executed (a prefix plus, for zarr's concurrent
batches, later members of the same phase — checked to be one of the model's `CrashSeq`); whenever
the real reader accepts a surviving store the model's `recognised` must be true.
"""
from __future__ import annotations

import hashlib
import json
import os
import shutil

from harness import common
from harness.corr import _kv as K

PROP = "C05"


# ----------------------------------------------------------------- running one case
def exc_class(e: BaseException) -> str:
    if isinstance(e, K.Injected):
        return "Injected"
    if isinstance(e, FileExistsError):
        return "FileExistsError"
    if isinstance(e, TypeError):
        return "TypeError"
    if type(e).__name__ in ("ContainsGroupError", "ContainsArrayError"):
        # zarr 3.4 derives these from ValueError; the model (KV.lean, exclusive create) names them, and a
        # create-on-existing-node is a different event from geff's own ValueError: keep them apart
        return "other:" + type(e).__name__
    if isinstance(e, ValueError):
        return "ValueError"
    return "other:" + type(e).__name__


def state_hash(abs_state) -> str:
    return hashlib.sha1(json.dumps(sorted(abs_state), sort_keys=True).encode()).hexdigest()[:16]


class Prepared:
    """a target with a reproducible pre-state"""

    def __init__(self, case, tmp):
        self.case = case
        self.t = K.Target(case["kind"], tmp)
        t = self.t
        fmt0 = case.get("old_fmt", case["fmt"])
        with K.quiet(t):
            if case.get("sib"):
                K.add_siblings(t, fmt0, case["sib"])
            if case.get("old") is not None:
                K.do_write("write_arrays", t.setup_handle(), case["old"], fmt0, overwrite=False)
        self.pre_snap = t.snapshot()
        self.pre_order = t.keys_in_order()
        if t.kind == "mem":
            self.pre_dict = dict(t.mem._store_dict)
        with K.quiet(t):
            self.pre_read = K.canon_read(t.reader()) if self.pre_snap is not None else {"reject": "absent"}

    def restore(self):
        t = self.t
        if t.kind == "mem":
            t.mem._store_dict.clear()
            t.mem._store_dict.update(self.pre_dict)
        else:
            if os.path.lexists(t.dir):
                shutil.rmtree(t.dir)
            if self.pre_snap is not None:
                os.makedirs(t.dir, exist_ok=True)
                for k, v in self.pre_snap.items():
                    p = os.path.join(t.dir, k)
                    os.makedirs(os.path.dirname(p), exist_ok=True)
                    with open(p, "wb") as fh:
                        fh.write(v)
        t.ensure_link()
        t.rec.log, t.rec.n, t.rec.fail_at = [], 0, None

    def attempt(self, fail_at=None):
        c, t = self.case, self.t
        t.rec.fail_at = fail_at
        try:
            K.do_write(c["entry"], t.handle(), c["new"], c["fmt"], c.get("overwrite", False),
                       c.get("validation", True))
            out = "ok"
        except BaseException as e:  # noqa: BLE001
            out = exc_class(e)
        K.drain()
        t.rec.fail_at = None
        return out

    def observe(self):
        t = self.t
        K.drain()
        with K.quiet(t):
            snap = t.snapshot()
            read = K.canon_read(t.reader()) if snap is not None else {"reject": "absent"}
            self.link_read = None
            if t.kind in K.SYMLINK_KINDS:
                # what the target reads as THROUGH the link (it may have been replaced by a directory)
                self.link_read = K.canon_read(t.link) if os.path.lexists(t.link) else {"reject": "absent"}
        return snap, read


def run_case(case):
    """worker: everything about one case that needs the implementation"""
    try:
        return _run_case(case)
    except BaseException as e:  # noqa: BLE001
        import traceback

        return {"case": case, "harness_error": f"{type(e).__name__}: {e}", "tb": traceback.format_exc()[-1500:]}


def _run_case(case):
    with K.tmpdir() as tmp:
        if case["kind"] in K.TILDE_KINDS:
            with K.home_env(tmp):
                res = _run_in(case, tmp)
                res["literal_tilde"] = os.path.exists(os.path.join(os.path.realpath(tmp), "~"))
                return res
        return _run_in(case, tmp)


def _run_in(case, tmp):
    fmt, kind = case["fmt"], case["kind"]
    res = {"case": case}
    if True:
        P = Prepared(case, tmp)
        res["pre"] = K.model_state(P.pre_snap, P.pre_order if kind == "mem" else None)
        res["pre_read_ok"] = "reject" not in P.pre_read
        res["pre_foreign"] = K.foreign_part(P.pre_snap)
        # model input: the documents of the new graph from a reference write
        inv = case["new"].get("invalid")
        flags = {}
        g = K.model_graph(case["new"], fmt, case["entry"])
        if g is None:
            # the write is rejected before / while the arrays are written
            g = K.model_graph({**case["new"], "invalid": None}, fmt, case["entry"])
            if inv in ("id-dtype-mismatch", "float-ids"):
                flags["idsOk"] = False
            elif inv in ("complex-prop", "complex-eprop", "vlen-mixed-rank", "vlen-mixed-dtype") and g is not None:
                side = "edgeProps" if inv == "complex-eprop" else "nodeProps"
                g[side] = (g[side] or []) + [
                    {"name": "cplx", "metaOk": False, "values": {"m": "-", "c": []}, "missing": None, "data": None}]
            elif inv == "axis-absent":
                g = None   # rejected between the last array and the metadata write: not an abort point of the model
        res["g"] = g
        res["flags"] = flags
        # fault-free run, recorded
        P.restore()
        out0 = P.attempt()
        ops = [list(x) for x in P.t.rec.log]
        snap0, read0 = P.observe()
        link0 = P.link_read
        res.update(out0=out0, ops=ops, final=K.abstract_state(snap0, P.t.keys_in_order() if kind == "mem" else None),
                   final_read_ok="reject" not in read0, final_geff=K.geff_part(snap0),
                   final_foreign=K.foreign_part(snap0), final_has_keys=snap0 is not None)
        # the reference reading of the new graph (fresh location, same entry point)
        ref_new = None
        if inv is None:
            tr = K.Target("mem")
            with K.quiet(tr):
                try:
                    K.do_write(case["entry"], tr.mem, case["new"], fmt, False, False)
                    ref_new = K.canon_read(tr.mem)
                except Exception:  # noqa: BLE001
                    ref_new = None
        res["ref_new_ok"] = ref_new is not None and "reject" not in ref_new
        res["final_is_new"] = (read0 == ref_new) if ref_new is not None else None
        # what the target reads as after the call, whatever made the call fail
        def classify(read, link_read=None):
            def one(rd):
                return ("reject" if "reject" in rd else "new" if (ref_new is not None and rd == ref_new)
                        else "old" if rd == P.pre_read else "WRONG")
            v = one(read)
            if link_read is not None:
                # symlinked target: the real directory and the view through the link must both be harmless
                vl = one(link_read)
                if vl == "WRONG" or v == "WRONG":
                    return "WRONG"
                if vl != v:
                    return "reject" if "reject" in (v, vl) else vl
            return v

        res["final_verdict"] = classify(read0, link0)
        # fault at every mutation
        points = []
        if case.get("faults", True):
            for k in range(len(ops)):
                P.restore()
                out = P.attempt(fail_at=k)
                executed = [list(x) for x in P.t.rec.log]
                snap, read = P.observe()
                verdict = classify(read, P.link_read)
                points.append({"k": k, "out": out, "verdict": verdict,
                               "reject": read.get("reject"),
                               "executed_after": executed[k + 1:],       # mutations that still ran after the failing one
                               "diverged": executed[:k + 1] != ops[:k + 1],
                               "state": state_hash(K.abstract_state(snap)),
                               "foreign_ok": K.foreign_preserved(res["pre_foreign"], K.foreign_part(snap), kind),
                               "read": read if verdict == "WRONG" else None})
        res["points"] = points
    return res


# ----------------------------------------------------------------- generators
def tiny(salt=0, props=True, small=False):
    if small:   # quick tier: one property with a missing mask (≈60 mutations in format 2)
        return {"id_dtype": "uint16", "ids": [3, 5, 9], "edges": [[3, 5], [5, 9]],
                "nprops": [{"name": "a", "kind": "f8", "missing": True}] if props else [], "eprops": [],
                "directed": True, "salt": salt}
    return {"id_dtype": "uint16", "ids": [3, 5, 9], "edges": [[3, 5], [5, 9]],
            "nprops": [{"name": "a", "kind": "f8", "missing": True}, {"name": "z", "kind": "zeros"}] if props else [],
            "eprops": [{"name": "w", "kind": "i4"}] if props else [], "directed": True, "salt": salt}


INVALID = ["len-node", "len-edge", "len-missing", "meta-absent-node", "meta-absent-edge",
           "id-dtype-mismatch", "float-ids", "complex-prop", "edge-2d-ids"]
# inputs that are written completely and then rejected by validate_structure (=> ValueError AND roll-back)
VALIDATION_FAILURES = ("len-node", "len-edge", "len-edge3", "len-missing", "len-emissing", "meta-absent-node",
                       "meta-absent-edge", "edge-2d-ids")
VLEN_INVALID = ["vlen-len+1", "vlen-len-1", "vlen-len0", "vlen-lenN", "vlen-missing-len", "vlen-mixed-rank",
                "vlen-mixed-dtype", "evlen-len+1", "evlen-len-1", "evlen-lenN", "evlen-missing-len", "axis-absent"]


def is_validation_failure(inv) -> bool:
    """written completely, then rejected by validate_structure (=> ValueError AND roll-back)"""
    return bool(inv) and (inv in VALIDATION_FAILURES or inv.startswith(("vlen-len", "evlen-len")) or
                          inv.endswith("vlen-missing-len"))


def really_invalid(bad, shape) -> bool:
    """combinations that are in fact valid inputs are not generated"""
    if shape == "empty":
        return bad not in ("vlen-len0", "vlen-mixed-rank", "vlen-mixed-dtype", "axis-absent")
    return bad != "vlen-lenN"


# the same defects on graphs without edges / without nodes (node side and edge side)
INVALID_SPARSE = ["len-node", "len-edge", "len-edge3", "len-emissing", "meta-absent-node", "meta-absent-edge",
                  "complex-prop", "complex-eprop"]


def sparse_graph(shape, salt=1):
    """edgeless (3 nodes, no edge), nodes-only with a node property, or completely empty graph"""
    ids = [] if shape == "empty" else [3, 5, 9]
    nprops = [{"name": "a", "kind": "f8"}] if shape == "nodes-only" else []
    return {"id_dtype": "uint16", "ids": ids, "edges": [], "nprops": nprops, "eprops": [], "directed": True, "salt": salt}


def gen_cases(ck):
    rng = ck.rng
    cases = []
    # bounded-exhaustive matrix on tiny graphs: format x store kind x pre-state x entry
    kinds = ["mem", "local", "path", "tilde-str"] if ck.quick else list(K.KINDS + K.TILDE_KINDS)
    nvar = 0
    for fmt in (2, 3):
        for kind in kinds:
            for pre in ("empty", "foreign", "old", "old+foreign"):
                for entry in ("write_arrays", "api_nx"):
                    if ck.quick and entry == "api_nx" and (kind in ("local", "tilde-str") or pre == "foreign"):
                        continue
                    if ck.quick and kind == "tilde-str" and (fmt == 3 or "foreign" in pre):
                        continue
                    new = tiny(1, small=ck.quick) if entry == "write_arrays" else K.spatial_spec(rng, salt=1)
                    nvar += 1
                    cases.append({"fmt": fmt, "kind": kind,
                                  "sib": K.SIB_VARIANTS[nvar % len(K.SIB_VARIANTS)] if "foreign" in pre else False,
                                  "old": tiny(5, props=True, small=ck.quick) if "old" in pre else None,
                                  "entry": entry, "new": new, "overwrite": "old" in pre, "validation": True,
                                  "stream": "matrix"})
    # seeded random structured cases
    nrand = 12 if ck.quick else 200
    for i in range(nrand):
        entry = rng.choice(["write_arrays", "write_arrays", "write_dicts", "api_nx", "api_rx", "api_sg"])
        if entry == "api_sg":
            new = K.spatial_spec(rng, salt=i)
            while len(new["edges"]) == 0:
                new = K.spatial_spec(rng, salt=i)
        elif entry in ("api_nx", "api_rx", "write_dicts"):
            new = K.random_spec(rng, backend_ok=True, salt=i) if rng.random() < 0.6 else K.spatial_spec(rng, salt=i)
        else:
            new = K.random_spec(rng, salt=i)
        has_old = entry != "write_dicts" and rng.random() < 0.5
        cases.append({"fmt": rng.choice((2, 3)), "kind": rng.choice(K.KINDS + K.TILDE_KINDS),
                      "sib": rng.choice(K.SIB_VARIANTS) if rng.random() < 0.5 else False,
                      "old": K.random_spec(rng, small=True, salt=100 + i) if has_old else None,
                      "entry": entry, "new": new, "overwrite": has_old, "validation": True, "stream": "random"})
    # refused writes: a geff is there, no overwrite (no mutation may happen at all)
    for fmt in (2, 3):
        for kind in ("mem", "path", "tilde-str", "tilde-path"):
            for entry in ("write_arrays", "write_dicts"):
                if entry == "write_dicts" and kind in ("mem", "path") and ck.quick:
                    continue
                cases.append({"fmt": fmt, "kind": kind, "sib": False, "old": tiny(5, small=True), "entry": entry,
                              "new": tiny(1, small=True), "overwrite": False, "validation": True, "stream": "refused",
                              "faults": False})
    # invalid inputs, validation on (+ faults during the clean-up for a subset)
    for bad in INVALID:
        for fmt in (2, 3):
            for kind in (("mem", "path") if ck.quick else ("mem", "local", "path")):
                for pre in ("foreign", "old+foreign", "empty"):
                    if ck.quick and pre == "empty" and kind != "mem":
                        continue
                    entry = "write_arrays"
                    nvar += 1
                    cases.append({"fmt": fmt, "kind": kind,
                                  "sib": K.SIB_VARIANTS[nvar % len(K.SIB_VARIANTS)] if "foreign" in pre else False,
                                  "old": tiny(5) if "old" in pre else None, "entry": entry,
                                  "new": {**tiny(1), "invalid": bad}, "overwrite": "old" in pre,
                                  "validation": True, "stream": "invalid",
                                  "faults": (not ck.quick) or (bad in ("len-node", "meta-absent-edge") and kind == "mem")})
    # roll-back next to every kind of unrelated content (array only, group only, nested group with arrays,
    # group + array, root attributes only), on the kinds where delete_geff may remove the whole root
    for fmt in (2, 3):
        for kind in (("path", "tilde-path") if ck.quick else ("path", "str", "tilde-str", "tilde-path", "mem", "local")):
            for var in K.SIB_VARIANTS:
                for bad, pre in (("len-node", "foreign"), ("meta-absent-edge", "old+foreign")):
                    if ck.quick and kind == "tilde-path" and (bad, fmt) not in (("len-node", 2), ("meta-absent-edge", 3)):
                        continue
                    cases.append({"fmt": fmt, "kind": kind, "sib": var, "old": tiny(5, small=True) if "old" in pre else None,
                                  "entry": "write_arrays", "new": {**tiny(1, small=True), "invalid": bad},
                                  "overwrite": "old" in pre, "validation": True, "stream": "rollback", "faults": False})
    # invalid node-side and edge-side inputs on edgeless / nodes-only / empty graphs: rejected AND rolled back
    for bad in INVALID_SPARSE:
        for shape in ("edgeless", "nodes-only", "empty"):
            for fmt in (2, 3):
                for kind in (("mem",) if ck.quick else ("mem", "path", "local")):
                    if ck.quick and ((fmt == 3) != (shape == "nodes-only")) and bad not in ("len-edge3", "meta-absent-edge"):
                        continue
                    cases.append({"fmt": fmt, "kind": kind, "sib": "group" if kind != "mem" else False, "old": None,
                                  "entry": "write_arrays", "new": {**sparse_graph(shape), "invalid": bad},
                                  "overwrite": False, "validation": True, "stream": "invalid-sparse", "faults": False})
    # variable-length properties with the wrong number of entries / wrong missing-mask length / inhomogeneous
    # elements, node side and edge side, and an axis without node property (rejected after all arrays are written)
    nv = 0
    for bad in VLEN_INVALID:
        for shape in ("normal", "edgeless", "empty"):
            if not really_invalid(bad, shape):
                continue
            for fmt in (2, 3):
                for kind in (("mem",) if ck.quick else ("mem", "path")):
                    nv += 1
                    if ck.quick and nv % 2 == 0:
                        continue
                    base = tiny(1, small=True) if shape == "normal" else sparse_graph(shape)
                    cases.append({"fmt": fmt, "kind": kind, "sib": False, "old": None, "entry": "write_arrays",
                                  "new": {**base, "invalid": bad}, "overwrite": False, "validation": True,
                                  "stream": "invalid-vlen", "faults": False})
    # the target is a symbolic link to the geff directory (latest.geff -> real.geff): refused / overwrite /
    # roll-back / late rejection / faults; the store is classified at the real directory and through the link
    for fmt in (2, 3):
        for kind in K.SYMLINK_KINDS:
            if ck.quick and (kind == "symlink-path") != (fmt == 3):
                continue
            o, n_ = tiny(5, small=True), tiny(1, small=True)
            for new, ow, old, faults in ((n_, False, o, False), (n_, True, o, True), (n_, False, None, False),
                                         ({**n_, "invalid": "axis-absent"}, True, o, False),
                                         ({**n_, "invalid": "len-node"}, True, o, False),
                                         ({**n_, "invalid": "meta-absent-edge"}, False, None, False)):
                cases.append({"fmt": fmt, "kind": kind, "sib": False, "old": old, "entry": "write_arrays", "new": new,
                              "overwrite": ow, "validation": True, "stream": "symlink", "faults": faults})
    # corpus
    d = common.VERIF / "harness" / "corpus" / PROP
    corpus = [json.loads(f.read_text()) for f in sorted(d.glob("*.json"))] if d.is_dir() else []
    # (history cases of the corpus are run by the history stream, harness/corr/_c05_hist.py)
    return [c for c in corpus if c.get("stream") != "history"] + cases


# ----------------------------------------------------------------- model side
def model_request(res):
    c = res["case"]
    g = dict(res["g"])
    g.update(res.get("flags", {}))
    inv = c["new"].get("invalid")
    validation_fails = is_validation_failure(inv)
    g["valid"] = not validation_fails
    return {"op": "trace", "fmt": c["fmt"], "kind": K.model_kind(c["kind"]), "docs": K.docs_for(c["fmt"]),
            "pre": res["pre"], "g": g, "entry": K.model_entry(c["entry"]),
            "overwrite": c.get("overwrite", False), "validate": c.get("validation", True), "states": False}


def in_crash_seq(phases, k, executed_after_idx):
    """is `prefix k + the later mutations with the given trace indices` one of the model's CrashSeq?"""
    bounds, acc = [], 0
    for n in phases:
        bounds.append((acc, acc + n))
        acc += n
    applied = list(range(k)) + list(executed_after_idx)
    for pi, (lo, hi) in enumerate(bounds):
        if lo <= k < hi or (k == hi == acc and pi == len(bounds) - 1):
            inside = [i for i in applied if i >= lo]
            if any(i >= hi for i in inside) or any(i < lo for i in executed_after_idx):
                return False
            if pi in (0, 3):   # delete phases: nothing of the phase, or its first mutation and any later ones
                return not inside or inside[0] == lo
            return True
    return not executed_after_idx


def match_executed(ops, k, after):
    """indices in the fault-free trace of the mutations that still executed after the failing one"""
    idx, j = [], k + 1
    for a in after:
        while j < len(ops) and ops[j] != a:
            j += 1
        if j >= len(ops):
            return None
        idx.append(j)
        j += 1
    return idx


# ----------------------------------------------------------------- the check
def run(ck: common.Check):
    ck.prove(["GeffProps.C05", "GeffProps.C05Links", "GeffProps.C05Hist"])
    ck.rule = ("case = (zarr format, store kind, foreign members?, pre-existing geff?, entry point, graph, overwrite, "
               "invalid-input kind); streams: corpus, bounded matrix on 3-node graphs (format x kind x pre-state x "
               "{write_arrays, geff.write}), seeded random graphs (0-6 nodes, 0-3 node / 0-2 edge properties of "
               "9 kinds incl. var-length, strings, all-fill arrays, missing masks) through all 5 entry points, refused "
               "writes (also on home-relative ~/… targets), 9 kinds of invalid input, roll-back next to 5 kinds of unrelated "
               "content (array / group / nested group / both / root attributes), 8 kinds of invalid node- and edge-side input on "
               "edgeless, nodes-only and empty graphs, 12 kinds of invalid variable-length input / axis without property, targets that are "
               "symbolic links to the geff directory; the target is classified after EVERY failed call; every case is run once per store mutation with that mutation "
               "failing (all k, not a sample); a case is non-trivial when the write performs at least one mutation")
    cases = gen_cases(ck)
    results = common.pmap(run_case, cases, chunksize=1)
    drv = ck.driver()
    # (symbolic links are not a store kind of the model: rmtree refuses them)
    good = [r for r in results if "harness_error" not in r and r.get("g") is not None
            and r["case"]["kind"] not in K.SYMLINK_KINDS]
    answers = drv.ask([model_request(r) for r in good]) if good else []
    if answers is None:
        ck.broken.append({"what": "driver Drivers/C05.lean", "detail": drv.broken})
        answers = [None] * len(good)
    model_of = {id(r): a for r, a in zip(good, answers)}
    n_points = n_wrong = n_batch = n_traces = 0
    no_model = len([r for r in results if "harness_error" not in r and r.get("g") is None])
    verdicts: dict[str, int] = {}
    for r in results:
        c = r["case"]
        if "harness_error" in r:
            ck.broken.append({"what": "corr C05:harness", "detail": {"case": c, "error": r["harness_error"], "tb": r.get("tb")}})
            continue
        pre_tag = ("ow" if c.get("old") is not None and c.get("overwrite") else
                   "refuse" if c.get("old") is not None else "fresh")
        tag = f"{c.get('stream', 'corpus')}/{c['entry']}/{pre_tag}" + (
            "/" + c["new"]["invalid"] if c["new"].get("invalid") else "")
        ck.case({k: v for k, v in c.items()}, tag=tag, nontrivial=bool(r["ops"]))
        inv = c["new"].get("invalid")
        # ---- oracle on the fault-free run
        if r.get("literal_tilde"):
            ck.fail("C05:tilde-not-expanded", "a home-relative target was handed to zarr unexpanded (literal '~' directory created)",
                    c, None, "everything under the expanded path")
        if r["out0"] != "ok" and (r["final_verdict"] == "WRONG" or (r["final_verdict"] == "old" and not r["pre_read_ok"])):
            # a write that fails for ANY reason (rejected input, exceptions raised by zarr itself, …)
            ck.fail("C05:failed-write-wrong-graph", f"{c['entry']} on a {c['kind']} store ended with {r['out0']} after "
                    f"{len(r['ops'])} store mutations and leaves a target that validate_structure + read_to_memory accept but that "
                    f"reads neither as the graph being written nor as the previous graph", c,
                    {"out": r["out0"], "mutations": len(r["ops"])}, "rejected | new graph | previous graph")
        if inv is None:
            if c.get("old") is not None and not c.get("overwrite"):
                if r["out0"] != "FileExistsError" or r["ops"]:
                    ck.fail("C05:refused-write-mutates", f"write onto an existing geff without overwrite gave {r['out0']} "
                            f"after {len(r['ops'])} store mutations", c, {"out": r["out0"], "ops": r["ops"][:5]},
                            "FileExistsError, no mutation")
            elif c["kind"] in K.SYMLINK_KINDS and r["out0"] != "ok":
                pass   # a write through a symbolic link may fail (rmtree refuses links); the target was classified above
            elif r["out0"] != "ok" or not r["final_is_new"]:
                ck.fail("C05:complete-write-not-new", f"fault-free write ended with {r['out0']} and does not read back as the graph written",
                        c, {"out": r["out0"], "reads_as_new": r["final_is_new"]}, "ok, reads as new graph")
        else:
            if r["out0"] == "ok":
                ck.fail("C05:invalid-input-accepted", f"structurally invalid input ({inv}) was written without error", c,
                        r["out0"], "exception")
            else:
                if r["final_read_ok"] and not (c.get("old") is not None and not r["ops"]):
                    ck.fail("C05:invalid-input-leaves-valid-looking-store",
                            f"after the rejected write ({inv}: {r['out0']}) the target is accepted by validate_structure + read_to_memory",
                            c, {"out": r["out0"]}, "rejected")
                # the roll-back claims apply when the call really failed in validation (ValueError)
                is_vf = is_validation_failure(inv) and r["out0"] == "ValueError"
                if is_vf:
                    left = sorted(k for k in r["final_geff"])
                    if any(not k.endswith("#geff") for k in left):
                        ck.fail("C05:cleanup-leaves-nodes-edges", f"after the validation failure ({inv}) keys remain: {left[:6]}",
                                c, left[:12], "no key under nodes/ or edges/")
                    if any(k.endswith("#geff") for k in left):
                        ck.fail("C05:cleanup-leaves-metadata", f"after the validation failure ({inv}) the geff attribute is still there",
                                c, left[:12], "no geff attribute")
                    pf, ff = r["pre_foreign"], r["final_foreign"]
                    if K.foreign_members(pf) != K.foreign_members(ff):
                        diff = sorted(k for k in set(pf) | set(ff) if pf.get(k) != ff.get(k) and k != "#rootattrs")
                        ck.fail("C05:cleanup-destroys-foreign-member", f"the roll-back after the validation failure ({inv}) on a "
                                f"{c['kind']} store destroyed / changed unrelated members of the container: {diff[:6]}",
                                c, diff[:12], "unrelated members byte-identical")
                    elif pf != ff and (K.foreign_members(pf) or c["kind"] in ("mem", "local")):
                        # (a str/Path root that holds nothing but the geff is removed as a whole, with its attributes)
                        ck.fail("C05:cleanup-changes-foreign-attributes", f"the roll-back after the validation failure ({inv}) changed "
                                f"foreign root attributes", c, [pf.get("#rootattrs"), ff.get("#rootattrs")], "unchanged")
        # ---- oracle on every fault point
        for p in r["points"]:
            n_points += 1
            verdicts[p["verdict"]] = verdicts.get(p["verdict"], 0) + 1
            cc = {**c, "fail_at": p["k"]}
            if p["verdict"] == "WRONG" or (p["verdict"] == "old" and not r["pre_read_ok"]):
                n_wrong += 1
                ck.fail("C05:crash-point-wrong-graph",
                        f"storage failure at mutation {p['k']} ({r['ops'][p['k']]}) of {c['entry']} leaves a store that is accepted "
                        f"but reads neither as the new nor as the previous graph", cc, p.get("read"), "reject | new | old")
            if p["out"] == "ok" and p["verdict"] not in ("new",):
                ck.fail("C05:fault-swallowed", f"the storage failure at mutation {p['k']} was swallowed: the call returned normally "
                        f"but the store reads as {p['verdict']}", cc, p["verdict"], "exception, or the complete new graph")
            if not p["foreign_ok"]:
                ck.fail("C05:crash-destroys-foreign-member", f"storage failure at mutation {p['k']} changed foreign members", cc, None,
                        "foreign members byte-identical")
        # ---- correspondence with the model
        m = model_of.get(id(r))
        if m is None:
            continue
        if "err" in m:
            ck.corr_broken("C05:driver", c, r["out0"], m)
            continue
        mops = [[o[0], o[1]] for o in m["ops"]]
        if mops != r["ops"] or m["outcome"] != r["out0"]:
            first = next((i for i, (a, b) in enumerate(zip(r["ops"], mops)) if a != b), min(len(mops), len(r["ops"])))
            ck.corr_broken("C05:writeOps", c, {"out": r["out0"], "n": len(r["ops"]), "at": first, "op": r["ops"][first:first + 2]},
                           {"out": m["outcome"], "n": len(mops), "op": mops[first:first + 2]})
            continue
        n_traces += 1
        mfinal = [[k, b] for k, b in m["final"]]
        rfinal = r["final"]
        if (sorted(mfinal) != sorted(rfinal)) or (c["kind"] == "mem" and mfinal != rfinal):
            ck.corr_broken("C05:final-store", c, [x for x in rfinal if x not in mfinal][:4], [x for x in mfinal if x not in rfinal][:4])
        # every fault point: the real surviving store = model store after the mutations that really ran
        pre_abs = [[K_key(k), b] for k, b in r["pre"]]
        for p in r["points"]:
            k = p["k"]
            if p["diverged"]:
                ck.corr_broken("C05:trace-diverges-before-fault", {**c, "fail_at": k}, None, None)
                continue
            idx = match_executed(r["ops"], k, p["executed_after"])
            if idx is None:
                # after the failure the implementation did something the fault-free run never does
                ck.corr_broken("C05:unexpected-mutations-after-fault", {**c, "fail_at": k}, p["executed_after"][:6], None)
                continue
            if idx:
                n_batch += 1
            if not in_crash_seq(m["phases"], k, idx):
                ck.corr_broken("C05:not-a-CrashSeq", {**c, "fail_at": k}, {"executed_after": idx}, {"phases": m["phases"]})
            applied = [m["ops"][i] for i in list(range(k)) + idx]
            st = K.replay_ops(pre_abs, applied)
            if state_hash([[a, b] for a, b in st]) != p["state"]:
                ck.corr_broken("C05:crash-state", {**c, "fail_at": k}, p["state"], "model store differs")
            # recognised is necessary for acceptance (only prefix states are reported by the driver)
            if not idx and p["verdict"] in ("new", "old", "WRONG") and not m["rec"][k]:
                ck.corr_broken("C05:recognised-not-necessary", {**c, "fail_at": k}, p["verdict"], "model: not recognised")
    # ---- histories of writes, each with at most one fault, on one target (torn pre-states)
    from harness.corr import _c05_hist as HI

    htasks = HI.gen_tasks(ck)
    hresults = common.pmap(HI.run_task, htasks, chunksize=1)
    n_points += HI.judge(ck, hresults, drv)
    ck.extra.update(transitions=n_points, traces_validated_against_impl=n_traces, fault_points=n_points, fault_verdicts=verdicts, faults_with_concurrent_siblings=n_batch,
                    cases_total=len(cases), cases_without_model_input=no_model)
    ck.extra["explanation"] = (
        "proof about the op-sequence model (all graphs, all crash points, all sub-batch failure states); the model is tied to "
        "the implementation by exact comparison of recorded store-mutation traces and by fault injection at every mutation; "
        "array contents and the validation verdict on the graph's content are parameters of the model (the verdict on left-overs of "
        "interrupted writes is computed from the committed store), atomicity of one store mutation is assumed")
    ck.assumptions += [
        "a single store mutation (set / set_if_not_exists / delete) is atomic; LocalStore.delete_dir and the "
        "shutil.rmtree of a str/Path root are single atomic operations (they are not sequences of store mutations)",
        "reading is a function of the geff attribute and of the keys under nodes/ and edges/ (geffView); "
        "`recognised` is a necessary condition for validate_structure + read_to_memory to accept (checked at every fault point)",
        "on MemoryStore-like stores delete_dir removes keys in store (insertion) order; the first key of nodes/ of a store "
        "written by geff is the nodes/ids metadata document (proved for the model: C05_written_is_delete_safe)",
        "the verdict of validate_structure on the content of the graph is an input of the model (G.valid); what it makes of "
        "left-overs of an interrupted write is modelled (GeffModel/KVTorn.lean: members of nodes/props, edges/props the call "
        "did not write => rejected); array contents are opaque documents, so a call whose metadata names a property it does "
        "not supply and that finds a left-over array of that name is outside the model",
        "writes across zarr formats (old geff v2, new v3 or vice versa) are outside the theorems (PreOK) — see C06 known finding",
    ]


def K_key(pk):
    """structured key -> zarr key string"""
    path, leaf, chunk = pk
    name = {"zgroup": ".zgroup", "zattrs": ".zattrs", "zarray": ".zarray", "json": "zarr.json"}.get(leaf, chunk)
    return "/".join(list(path) + [name])


def replay(rp):
    if "case" not in rp and rp.get("stream") == "history":
        rp = {"case": rp}          # a corpus file of the history stream is replayable as it is
    if "case" not in rp and rp.get("no_longer_checks"):
        # a `…-broken-…` file: correspondences that no longer checked (no failing input of the property)
        from harness.corr import _c05_hist as HI

        return HI.replay_broken(rp["no_longer_checks"])
    if rp["case"].get("stream") == "history":
        from harness.corr import _c05_hist as HI

        return HI.replay_case(rp["case"])
    c = dict(rp["case"])
    k = c.pop("fail_at", None)
    c["faults"] = k is not None
    r = run_case(c)
    if "harness_error" in r:
        print(r["harness_error"], r.get("tb"))
        return 2
    bad = False
    inv = c["new"].get("invalid")
    print(json.dumps({"out": r["out0"], "mutations": len(r["ops"]), "final_read_ok": r["final_read_ok"],
                      "final_is_new": r["final_is_new"], "final_verdict": r["final_verdict"],
                      "geff_keys_left": sorted(r["final_geff"])[:8],
                      "foreign_preserved": K.foreign_preserved(r["pre_foreign"], r["final_foreign"], c["kind"])}))
    if k is not None:
        p = r["points"][k]
        print(json.dumps({"fail_at": k, "op": r["ops"][k], "outcome": p["out"], "verdict": p["verdict"], "read": p["read"]}))
        bad = p["verdict"] == "WRONG" or (p["verdict"] == "old" and not r["pre_read_ok"]) or not p["foreign_ok"] or (
            p["out"] == "ok" and p["verdict"] != "new")
    if r.get("literal_tilde"):
        bad = True
    if r["out0"] != "ok" and (r["final_verdict"] == "WRONG" or (r["final_verdict"] == "old" and not r["pre_read_ok"])):
        bad = True
    if k is not None:
        pass
    elif inv is None:
        if c.get("old") is not None and not c.get("overwrite"):
            bad = bad or r["out0"] != "FileExistsError" or bool(r["ops"])
        else:
            bad = bad or ((r["out0"] != "ok" or not r["final_is_new"]) and not (
                c["kind"] in K.SYMLINK_KINDS and r["out0"] != "ok"))
    else:
        left = sorted(r["final_geff"])
        bad = bad or r["out0"] == "ok" or (r["final_read_ok"] and not (c.get("old") is not None and not r["ops"]))
        if is_validation_failure(inv) and r["out0"] == "ValueError":
            bad = bad or bool(left) or not K.foreign_preserved(r["pre_foreign"], r["final_foreign"], c["kind"])
    print("REPLAY: property FAILS on this input" if bad else "REPLAY: property holds on this input")
    return 1 if bad else 0
