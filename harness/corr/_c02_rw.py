"""C02 — two further dimensions of the second direction (independent writer -> library reader).

1. STRING VALUE CLASSES (`string_cases`, `blank_strings`).  A string property is a column of arbitrary strings; the
   classes a cast / width computation can get wrong are: every value empty (one element, several elements, N-D), empty
   values at the first / last / every position of a mixed column, empty values only under missing entries, non-ASCII.
   The bounded-exhaustive part enumerates ALL columns over {"", "b"} of length 1..3 (node and edge side) plus N-D and
   masked variants, each in both string encodings (fixed width, variable length UTF8 as the specification prescribes)
   and both zarr formats; the random part blanks string properties of the seeded random graphs.

2. READ / REWRITE HISTORIES (`rw_history_cases`, `rw_history_run`).  The property says a conformant store "is read by
   the library into exactly the graph it denotes" — the graph the store denotes AT THE MOMENT OF THE READ, whatever the
   process has read or written before.  A history keeps ONE location (a Path, a str, a LocalStore re-opened per call, one
   LocalStore object, one MemoryStore object) through 2-3 epochs.  Each epoch: a writer changes what is at the
   location, then the library reads it through a drawn subset (the last epoch: all) of its read entry points
   (GeffMetadata.read, validate_structure, read_to_memory with validation on / off, GeffReader…build, geff.read with
   the networkx and rustworkx backends).  Writers:
     indep    the independent zarr-only writer of C02.py lays out a graph: into the empty location, after removing the
              directory, through zarr's overwrite, or by swapping in a directory written elsewhere; the graph is an
              unrelated one or DERIVED from the previous one (same names with other dtypes / fixed <-> variable length,
              properties dropped / added, directedness flipped), any zarr format
     edit     the zarr API edits the store in place, keeping it conformant: flip `directed`, drop a property (group and
              metadata entry), add one, replace one by another dtype, mark an element missing
     library  geff's own write_arrays writes a graph at the location (fresh target or overwrite=True)
   After each writer step the store is dumped through the zarr API and decoded by the specification-only decoders
   (python here, Lean `denote` in the parent); every read of the epoch is compared with THAT graph.  When a read fails,
   the same read is repeated on a byte-for-byte copy of the store at a location the process has never seen: if the copy
   reads correctly, the failure depends on the history (key C02:read-depends-on-history), otherwise it is an ordinary
   direction-2 failure and is classified as such.
"""
from __future__ import annotations

import itertools
import os
import shutil

import numpy as np

from harness.corr import C01
from harness.corr import C02 as M
from harness.corr import _rw_shared as R

# ----------------------------------------------------------------- 1. string value classes
NONASCII = ["äö", "日本語", "😀", "ß́"]


def _ids(n, e, idt="uint8", first=3):
    nodes = [first + 2 * i for i in range(n)]
    edges = [x for i in range(e) for x in (nodes[i], nodes[i + 1])]
    return ({"dtype": idt, "shape": [n], "flat": nodes}, {"dtype": idt, "shape": [e, 2], "flat": edges})


def _str_prop(shape, flat, missing=None, width=None):
    w = width or max([len(s) for s in flat] + [1])
    return {"values": {"dtype": "str", "shape": list(shape), "flat": list(flat), "width": w},
            "missing": None if missing is None else {"dtype": "bool", "shape": [shape[0]], "flat": list(missing)}}


def _place(side, k, prop, extra=None):
    """a graph whose `side` ("node" / "edge") has `k` elements carrying the property `label` (+ optionally one more)"""
    n, e = (k, max(0, min(k - 1, 1))) if side == "node" else (k + 1, k)
    nid, eid = _ids(n, e)
    props = [["label", prop]] + ([extra] if extra else [])
    return {"node_ids": nid, "edge_ids": eid, "node_props": props if side == "node" else [], "edge_props": props if side == "edge" else []}


def string_columns():
    """(tag, side-independent property builder) — the bounded-exhaustive part"""
    out = []
    for k in (1, 2, 3):
        for col in itertools.product(["", "b"], repeat=k):
            kind = "all-empty" if not any(col) else "no-empty" if all(col) else "mixed"
            out.append((f"{kind}:k{k}", k, _str_prop([k], col)))
    for k in (1, 2):
        out.append((f"all-empty-2d:k{k}", k, _str_prop([k, 2], [""] * (2 * k))))
        out.append((f"mixed-2d:k{k}", k, _str_prop([k, 2], ["", "äö"] * k)))
        out.append((f"all-empty-3d:k{k}", k, _str_prop([k, 1, 2], [""] * (2 * k))))
    out.append(("all-empty:k0x0", 2, _str_prop([2, 0], [])))
    out.append(("all-empty-wide:k2", 2, _str_prop([2], ["", ""], width=7)))          # declared width does not matter
    out.append(("mixed-nonascii:k3", 3, _str_prop([3], ["", "日本語", "😀"])))
    # masks: every element missing (values padded with "" or with a dummy), empty strings exactly under / beside the mask
    out.append(("all-missing:k2", 2, _str_prop([2], ["", ""], missing=[True, True])))
    out.append(("all-missing:k1", 1, _str_prop([1], [""], missing=[True])))
    out.append(("present-empty-missing-full:k2", 2, _str_prop([2], ["", "zz"], missing=[False, True])))
    out.append(("present-full-missing-empty:k2", 2, _str_prop([2], ["zz", ""], missing=[False, True])))
    out.append(("all-empty-all-false-mask:k3", 3, _str_prop([3], ["", "", ""], missing=[False, False, False])))
    return out


def string_cases(rng, quick):
    cases = []
    i = 0
    for tag, k, prop in string_columns():
        for side in ("node", "edge"):
            for strings in ("fixed", "vlen"):
                i += 1
                # quick tier: the fixed width encoding (the library's own, also direction 1 / C01) in alternating formats
                for fmt in ((2, 3) if strings == "vlen" or not quick else (2 + i % 2,)):
                    for dummy in (["", "dummy"] if prop["missing"] is not None else [""]):
                        g = _place(side, k, prop)
                        enc = M.draw_encoding(rng, g)
                        enc.update(fmt=fmt, strings=strings, str_dummy=dummy, store="mem")
                        cases.append({"g": g, "enc": enc, "origin": f"strings:{tag}:{side}", "direction": 2})
    # a sample on path-based stores, and beside other properties (another string column that is NOT empty, a number)
    for i, (tag, k, prop) in enumerate(string_columns()):
        for strings in ("fixed", "vlen"):
            other = rng.choice([["name", _str_prop([k], [rng.choice(NONASCII + ["cell"]) for _ in range(k)])],
                                ["t", {"values": {"dtype": "float32", "shape": [k], "flat": ["3fc00000"] * k}, "missing": None}]])
            g = _place(rng.choice(["node", "edge"]), k, prop, other)
            enc = M.draw_encoding(rng, g)
            enc.update(strings=strings, str_dummy=rng.choice(["", "dummy"]), store=["path", "local", "mem"][i % 3])
            cases.append({"g": g, "enc": enc, "origin": f"strings:{tag}:beside", "direction": 2})
    return cases


def blank_strings(rng, g):
    """random stream: the same graph with its dense string properties blanked — entirely, or at a random subset of
    positions.  Returns None when the graph has no dense string property."""
    hit = False
    out = {**g}
    for key in ("node_props", "edge_props"):
        new = []
        for nm, p in g[key] or []:
            v = p["values"]
            if "obj" not in v and v["dtype"] == "str" and v["flat"]:
                hit = True
                mode = rng.random()
                flat = ["" if (mode < 0.6 or rng.random() < 0.5) else s for s in v["flat"]]
                p = {**p, "values": {**v, "flat": flat}}
            new.append([nm, p])
        out[key] = new
    return out if hit else None


def string_tag(case):
    return ":".join(case["origin"].split(":")[:2]) + f":{case['enc']['strings']}:v{case['enc']['fmt']}"


# ----------------------------------------------------------------- 2. read / rewrite histories
READS = ["meta", "validate", "mem", "mem-raw", "reader", "networkx", "rustworkx"]
LOCS = ["path", "path", "str", "str", "local", "local-shared", "mem"]
EDITS = ["flip-directed", "drop-prop", "add-prop", "retype-prop", "mark-missing"]


def no_vlen_str(g):
    """"variable length arrays cannot be of dtype string" (PropMetadata): an independent writer has no such property"""
    return {**g, **{key: [[nm, p] for nm, p in (g[key] or [])
                          if not ("obj" in p["values"] and any(e["dtype"] == "str" for e in p["values"]["obj"]))]
                    for key in ("node_props", "edge_props")}}


def fresh_graph(rng):
    while True:
        c = C01.random_case(rng, True)
        if C01.wf_case(c):
            return no_vlen_str(c["g"])


def derive_graph(rng, g):
    """a graph RELATED to `g`: same ids (or the same ids in another order), per property: kept, dropped, or replaced
    under the SAME NAME by a freshly drawn one (other dtype, other rank, fixed <-> variable length, other mask);
    sometimes a new property"""
    out = {"node_ids": g["node_ids"], "edge_ids": g["edge_ids"]}
    if rng.random() < 0.3 and g["node_ids"]["shape"][0] > 1:
        flat = list(g["node_ids"]["flat"])
        rng.shuffle(flat)
        out["node_ids"] = {**g["node_ids"], "flat": flat}
    for key, k in (("node_props", g["node_ids"]["shape"][0]), ("edge_props", g["edge_ids"]["shape"][0])):
        new = []
        for nm, p in g[key] or []:
            r = rng.random()
            if r < 0.25:
                new.append([nm, p])
            elif r < 0.8:
                new.append([nm, R.rand_prop(rng, k)])
        if rng.random() < 0.3:
            nm = R.rand_name(rng, 7)
            if R.valid_name(nm) and nm not in [x for x, _ in new]:
                new.append([nm, R.rand_prop(rng, k)])
        out[key] = new
    out = no_vlen_str(out)
    return out if C01.wf_case({"g": out}) else fresh_graph(rng)


def _hist_enc(rng, g, directed=None):
    enc = M.draw_encoding(rng, g)
    enc.update(vlen_values_dtype="uint64", str_dummy=rng.choice(["", "dummy"]))   # the int64 table is a recorded finding (direction 2)
    enc.pop("store", None)
    if directed is not None:
        enc["directed"] = directed
    return enc


def rw_history_cases(rng, n):
    out = []
    for i in range(n):
        loc = LOCS[i % len(LOCS)]
        g = fresh_graph(rng)
        enc = _hist_enc(rng, g)
        first = rng.choice(["indep", "indep", "indep", "library"])
        epochs = [{"writer": first, "how": "fresh", "g": g, "enc": enc}]
        for j in range(rng.choice([1, 1, 2])):
            w = rng.choice(["indep", "indep", "indep", "edit", "edit", "library"])
            if w == "edit":
                epochs.append({"writer": "edit", "edits": [rng.choice(EDITS) for _ in range(rng.choice([1, 1, 2]))], "seed": rng.getrandbits(32)})
                continue
            related = rng.random() < 0.6
            g2 = derive_graph(rng, g) if related else fresh_graph(rng)
            # stale metadata is invisible when nothing it says changes: flip directedness half of the time, keep the format
            # (an in-place re-export) or change it
            enc2 = _hist_enc(rng, g2, directed=(not enc["directed"]) if rng.random() < 0.5 else None)
            if rng.random() < 0.6:
                enc2["fmt"] = enc["fmt"]
            how = rng.choice(["overwrite"] if loc == "mem" else ["rmtree", "rmtree", "overwrite", "swap"])
            epochs.append({"writer": w, "how": how, "g": g2, "enc": enc2})
            g, enc = g2, enc2
        for k, ep in enumerate(epochs):
            if k == len(epochs) - 1:
                ep["reads"] = rng.sample(READS, len(READS))
            else:
                ep["reads"] = rng.sample(READS, rng.choice([1, 1, 2, 3, len(READS)]))
        out.append({"direction": "rw-history", "loc": loc, "epochs": epochs, "origin": "rw-history"})
    return out


def meta_projection(m):
    """what GeffMetadata.read returned, restricted to what decides the graph"""
    def pm(d):
        return sorted([k, v.identifier, str(v.dtype), bool(v.varlength)] for k, v in d.items())
    return {"directed": m.directed, "node_props": pm(m.node_props_metadata), "edge_props": pm(m.edge_props_metadata)}


def disk_meta_projection(d):
    """the same projection of the raw `geff` attribute as it is in the store (zarr API only); `varlength` defaults to false"""
    def pm(md):
        return sorted([k, v["identifier"], v["dtype"], bool(v.get("varlength", False))] for k, v in md.items())
    return {"directed": d["directed"], "node_props": pm(d["node_props_metadata"]), "edge_props": pm(d["edge_props_metadata"])}


def read_via(via, loc, want, disk_meta):
    """one read entry point of the library on `loc`; `want` = the graph the store denotes now (canonical JSON)"""
    import geff
    from geff.validate.structure import validate_structure

    try:
        if via == "meta":
            got = meta_projection(geff.GeffMetadata.read(loc))
            return {"via": via, "outcome": "ok", "diff": None if got == disk_meta else f"GeffMetadata.read returned {got}, the store holds {disk_meta}"}
        if via == "validate":
            validate_structure(loc)
            return {"via": via, "outcome": "ok", "diff": None}
        if via in ("mem", "mem-raw"):
            rd = M.observe_read(loc, via == "mem")
            if rd["outcome"] != "ok":
                return {"via": via, "outcome": rd["outcome"], "msg": rd.get("msg")}
            same = R.strip_width(rd["graph"]) == want
            return {"via": via, "outcome": "ok", "diff": None if same else "read_to_memory returned a graph different from the one the store denotes",
                    **({} if same else {"graph": R.strip_width(rd["graph"])})}
        if via == "reader":
            r = geff.GeffReader(loc)
            r.read_node_props()
            r.read_edge_props()
            o = r.build()
            got = R.strip_width(M.canon_graph(M.graph_of_inmem(o, o["metadata"].directed)))
            return {"via": via, "outcome": "ok", "diff": None if got == want else "GeffReader(...).build() returned a graph different from the one the store denotes",
                    **({} if got == want else {"graph": got})}
        if via in ("networkx", "rustworkx"):
            if not M.simple_graph(want):
                return {"via": via, "outcome": "skipped", "diff": None}
            bo = M.observe_backend(loc, via, want)
            if bo["outcome"] == "ok":
                # the graph object's own directedness
                return {"via": via, "outcome": "ok", "diff": bo["diff"]}
            return {"via": via, "outcome": bo["outcome"], "msg": bo.get("msg")}
    except BaseException as e:  # noqa: BLE001
        return {"via": via, "outcome": C01.exc_class(e), "msg": f"{type(e).__name__}: {e}"[:300]}
    raise ValueError(via)


def apply_edit(root, edit, rng):
    """one in-place edit through the zarr API that keeps the store conformant.  Returns False when it does not apply."""
    meta = {k: (dict(v) if isinstance(v, dict) else v) for k, v in dict(root.attrs["geff"]).items()}
    side = rng.choice(["node", "edge"])
    mkey = f"{side}_props_metadata"
    grp = root[f"{side}s"]
    n = root[f"{side}s/ids"].shape[0]
    names = sorted(meta[mkey])
    if edit == "flip-directed":
        meta["directed"] = not meta["directed"]
    elif edit == "drop-prop":
        if not names:
            return False
        k = rng.choice(names)
        del grp["props"][k]
        del meta[mkey][k]
    elif edit == "add-prop":
        k = "added_" + "".join(rng.choice("abcxyz") for _ in range(4))
        if k in names:
            return False
        props = grp.require_group("props")
        dt = rng.choice(["int8", "float64", "bool", "uint16"])
        props.create_group(k).create_array("values", data=(np.arange(n) % 2).astype(dt) if n else np.empty((0,), dtype=dt),
                                            chunks=(max(1, n),))
        meta[mkey][k] = {"identifier": k, "dtype": dt}
    elif edit == "retype-prop":
        dense = [k for k in names if not meta[mkey][k].get("varlength", False)]
        if not dense:
            return False
        k = rng.choice(dense)
        pg = grp["props"][k]
        old = pg["values"]
        dt = "float64" if meta[mkey][k]["dtype"] != "float64" else "int16"
        shape = old.shape
        del pg["values"]
        pg.create_array("values", data=(np.arange(int(np.prod(shape, dtype=np.int64))).reshape(shape) % 5).astype(dt) if 0 not in shape
                        else np.empty(shape, dtype=dt), chunks=tuple(max(1, d) for d in shape))
        meta[mkey][k] = {**meta[mkey][k], "dtype": dt}
    elif edit == "mark-missing":
        if not names or n == 0:
            return False
        k = rng.choice(names)
        pg = grp["props"][k]
        m = pg["missing"][...] if "missing" in pg else np.zeros((n,), dtype=bool)
        m[rng.randrange(n)] = True
        if "missing" in pg:
            del pg["missing"]
        pg.create_array("missing", data=m, chunks=(max(1, n),))
    else:
        raise ValueError(edit)
    root.attrs["geff"] = meta
    return True


def rw_history_run(h):
    import random
    import tempfile

    import zarr
    from geff.core_io import write_arrays

    kind = h["loc"]
    out = []
    with tempfile.TemporaryDirectory(prefix="verif-rw-", ignore_cleanup_errors=True) as td:
        p = os.path.join(td, "tracks.geff")
        shared = zarr.storage.MemoryStore() if kind == "mem" else zarr.storage.LocalStore(p) if kind == "local-shared" else None

        def lib_loc(path=p, obj=shared):
            """the location as the library is given it"""
            from pathlib import Path

            if kind in ("mem", "local-shared"):
                return obj
            return {"path": Path(path), "str": path, "local": zarr.storage.LocalStore(path)}[kind]

        def writer_loc():
            """the location as the independent writer addresses it: the plain path (its own handles), or the one
            MemoryStore object"""
            return shared if kind == "mem" else p

        def control_loc(k):
            """a byte-for-byte copy of the store at a location this process has never seen"""
            if kind == "mem":
                return lib_loc(obj=zarr.storage.MemoryStore(store_dict=dict(shared._store_dict)))
            q = os.path.join(td, f"control-{k}.geff")
            shutil.copytree(p, q)
            return lib_loc(path=q, obj=zarr.storage.LocalStore(q))

        cur_fmt = None
        for k, ep in enumerate(h["epochs"]):
            ob = {"epoch": k, "writer": ep["writer"], "how": ep.get("how"), "write": None, "reads": []}
            out.append(ob)
            try:
                if ep["writer"] == "indep":
                    g = R.build_geff(ep["g"])
                    how = ep["how"]
                    if how == "swap" and kind != "mem" and os.path.exists(p):
                        q = os.path.join(td, "incoming.geff")
                        M.indep_write(q, g, ep["enc"])
                        os.rename(p, os.path.join(td, f"old-{k}"))
                        os.rename(q, p)
                    else:
                        if how == "rmtree" and kind != "mem" and os.path.exists(p):
                            shutil.rmtree(p)
                        exists = bool(shared._store_dict) if kind == "mem" else os.path.exists(p)
                        M.indep_write(writer_loc(), g, {**ep["enc"], "overwrite": exists})
                    cur_fmt = ep["enc"]["fmt"]
                elif ep["writer"] == "library":
                    g = R.build_geff(ep["g"])
                    fmt = ep["enc"]["fmt"]
                    exists = bool(shared._store_dict) if kind == "mem" else os.path.exists(p)
                    over = False
                    if exists:
                        # geff's overwrite across zarr formats is C06's recorded finding: a fresh target there
                        if kind != "mem" and (ep.get("how") != "overwrite" or fmt != cur_fmt):
                            shutil.rmtree(p)
                        elif fmt != cur_fmt:
                            fmt = cur_fmt
                            over = True
                        else:
                            over = True
                    write_arrays(lib_loc(), g["node_ids"], g["node_props"], g["edge_ids"], g["edge_props"],
                                 C01.make_metadata({"directed": ep["enc"]["directed"]}), zarr_format=fmt, overwrite=over)
                    cur_fmt = fmt
                else:
                    rng = random.Random(ep["seed"])
                    root = zarr.open_group(writer_loc(), mode="r+")
                    ob["edits"] = [e for e in ep["edits"] if apply_edit(root, e, rng)]
                ob["write"] = "ok"
            except BaseException as e:  # noqa: BLE001
                ob["write"] = C01.exc_class(e)
                ob["msg"] = f"{type(e).__name__}: {e}"[:300]
                break
            # what is at the location now, through the zarr API only
            try:
                raw = writer_loc()
                ob["dump"] = R.dump_store(raw)
                dec = M.py_decode(raw)
                ob["py_decode"] = M.canon_graph(dec)
                disk_meta = disk_meta_projection(dict(zarr.open_group(raw, mode="r").attrs["geff"]))
            except BaseException as e:  # noqa: BLE001
                ob["py_decode"] = None
                ob["py_decode_err"] = f"{type(e).__name__}: {e}"[:300]
                break
            want = R.strip_width(ob["py_decode"])
            for via in ep["reads"]:
                rd = read_via(via, lib_loc(), want, disk_meta)
                if rd["outcome"] not in ("ok", "skipped") or rd.get("diff"):
                    try:
                        c = read_via(via, control_loc(f"{k}-{len(ob['reads'])}"), want, disk_meta)
                        rd["control"] = {"outcome": c["outcome"], "diff": c.get("diff"), "msg": c.get("msg")}
                    except BaseException as e:  # noqa: BLE001
                        rd["control"] = {"outcome": "control-failed", "msg": f"{type(e).__name__}: {e}"[:200]}
                ob["reads"].append(rd)
    return out


def read_bad(rd):
    return rd["outcome"] not in ("ok", "skipped") or bool(rd.get("diff"))


def history_depends(rd):
    """the same read on a copy of the store at a never-seen location is correct"""
    c = rd.get("control")
    return bool(c) and c["outcome"] == "ok" and not c.get("diff")


ENTRY = {"meta": "GeffMetadata.read", "validate": "validate_structure", "mem": "read_to_memory", "mem-raw": "read_to_memory(structure_validation=False)",
         "reader": "GeffReader(...).build()", "networkx": "geff.read(backend='networkx')", "rustworkx": "geff.read(backend='rustworkx')"}


def classify(rd, k):
    """failure class of one bad read of epoch k"""
    if k > 0 and history_depends(rd):
        return "C02:read-depends-on-history"
    via = rd["via"]
    if via == "meta":
        return "C02:metadata-read-differs-from-store"
    if via in ("networkx", "rustworkx"):
        return f"C02:backend-{via}-rejects-conformant" if rd["outcome"] != "ok" else f"C02:backend-{via}-shows-a-different-graph"
    if rd["outcome"] != "ok":
        return M.classify_read_failure(rd, None, None)
    return "C02:reader-returns-a-different-graph"


def history_tag(h, obs):
    ws = ">".join(ep["writer"] + ("/" + ep["how"] if ep.get("how") not in (None, "fresh") else "") for ep in h["epochs"])
    bad = any(read_bad(rd) for ob in obs for rd in ob["reads"])
    done = all(ob["write"] == "ok" for ob in obs) and len(obs) == len(h["epochs"])
    return f"rw:{h['loc']}:{ws}:" + ("read-fails" if bad else "ok" if done else "writer-failed")
