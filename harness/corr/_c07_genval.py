"""C07: correspondence stream for the SOURCE-TRANSLATED validator bodies (translator T17).

The real validator functions are called DIRECTLY on objects built without validation
(`Axis.model_construct(…)._validate_model()`, `PropMetadata._convert_dtype(v)`,
`RelatedObject.model_construct(…)._validate_model()`, `_validate_key_identifier_equality(d, c_type)`,
`GeffMetadata.model_construct(…)._validate_model_after()`, `validate_axis_type/space_unit/time_unit`) and
compared with the generated Lean functions of `Gen/Validators.lean` run by the driver (`op: genval`).
Bounded-exhaustive over small value sets; outcome class (and, where a value is returned, the value) compared.
This ties the primitives of `GeffModel/PyDoValidators.lean` (truthiness, `None` operands, numpy's answers,
the caught `TypeError`) to Python / numpy / pydantic."""
from __future__ import annotations

import itertools
import warnings

from harness.corr import meta_common as mc

NAN = float("nan")
INF = float("inf")


def _exc(e: Exception) -> str:
    if isinstance(e, ValueError):          # pydantic.ValidationError is a ValueError
        return "ValueError"
    return type(e).__name__


def cases():
    out = []
    nums = [None, 0.0, 1.0, 2.0, -0.0, NAN, INF]
    for mn, mx, sc, su, un, ty in itertools.product(nums, nums, [None, 2.0], [None, "", "um", "meter"],
                                                    [None, "", "meter", "bogus"], [None, "space", "time"]):
        out.append({"kind": "axis", "obj": {"name": "x", "type": ty, "unit": un, "min": mn, "max": mx, "scale": sc,
                                            "scaled_unit": su, "offset": None}})
    for ty, lp in itertools.product(["labels", "image", "other", ""], [None, "", "l"]):
        out.append({"kind": "related", "obj": {"type": ty, "path": "p", "label_prop": lp}})
    dicts = [{}, {"a": "a"}, {"a": "b"}, {"a": "a", "b": "b"}, {"a": "a", "b": "a"}, {"b": "a", "a": "b"}]
    for d, ct in itertools.product(dicts, ["node", "edge", "tracklet", "lineage", "nodes", ""]):
        out.append({"kind": "keys", "obj": d, "c_type": ct})
    axes = [None, [], ["x"], ["x", "y"], ["x", "x"]]
    hints = [None, ("x", "y", None, None), ("x", "q", None, None), ("q", "y", None, None), ("x", "y", None, "x"),
             ("x", "y", None, "q"), ("x", "y", "q", None), ("x", "y", "y", "x")]
    props = [{}, {"a": "a"}, {"a": "b"}]
    for ax, h, npd, epd in itertools.product(axes, hints, props, props):
        out.append({"kind": "meta", "axes": ax, "hints": h, "node": npd, "edge": epd})
    import geff_spec._valid_values as vv
    dts = list(vv.VALID_DTYPES) + ["<U5", "U", "S3", "S", "float16", "f2", "f8", "i4", "complex64", "nope", "", "int",
                                   "object", "O", "datetime64[ns]", "V3", "b1", "?", "uint", "longlong", None]
    for s in dts:
        out.append({"kind": "dtype", "s": s})
    for s in list(vv.VALID_AXIS_TYPES) + ["meter", "second", "frame", "pixel", "bogus", "", "Space", None]:
        out.append({"kind": "unit", "s": s})
    return out


def _props(d):
    from geff_spec._prop_metadata import PropMetadata
    return {k: PropMetadata(identifier=i, dtype="int64") for k, i in d.items()}


def impl_and_request(c):
    """-> (implementation observation, driver request)"""
    import numpy as np
    import geff_spec._valid_values as vv
    from geff_spec._axis import Axis
    from geff_spec._prop_metadata import PropMetadata
    from geff_spec._schema import DisplayHint, GeffMetadata, RelatedObject, _validate_key_identifier_equality

    k = c["kind"]
    req = {"op": "genval", "env": {"vok": [], "np": [], "dv": ""}, "kind": k}
    with warnings.catch_warnings():
        warnings.simplefilter("ignore")
        try:
            if k == "axis":
                o = Axis.model_construct(**c["obj"])
                req["obj"] = mc.enc(c["obj"])
                r = o._validate_model()
                return {"out": "ok", "same": r is o and r.model_dump() == _nan_eq(c["obj"], r.model_dump())}, req
            if k == "related":
                o = RelatedObject.model_construct(**c["obj"])
                req["obj"] = mc.enc(c["obj"])
                r = o._validate_model()
                return {"out": "ok", "same": r is o}, req
            if k == "keys":
                d = _props(c["obj"])
                req["obj"] = mc.enc({kk: v.model_dump(mode="json") for kk, v in d.items()})
                req["c_type"] = c["c_type"]
                _validate_key_identifier_equality(d, c["c_type"])
                return {"out": "ok", "same": True}, req
            if k == "meta":
                axes = None if c["axes"] is None else [Axis(name=n) for n in c["axes"]]
                h = c["hints"]
                hint = None if h is None else DisplayHint.model_construct(
                    display_horizontal=h[0], display_vertical=h[1], display_depth=h[2], display_time=h[3])
                o = GeffMetadata.model_construct(
                    geff_version="1.0", directed=True, axes=axes, node_props_metadata=_props(c["node"]),
                    edge_props_metadata=_props(c["edge"]), sphere=None, ellipsoid=None, track_node_props=None,
                    related_objects=None, display_hints=hint, extra={})
                req["obj"] = mc.enc(o.model_dump(mode="json"))
                r = o._validate_model_after()
                return {"out": "ok", "same": r is o}, req
            if k == "dtype":
                s = c["s"]
                req["s"] = s
                req["np"] = None
                if s is not None:
                    try:
                        d = np.dtype(s)
                        req["np"] = [d.name, bool(np.issubdtype(d, np.str_)), bool(np.issubdtype(d, np.bytes_))]
                    except TypeError:
                        req["np"] = None
                return {"out": "ok", "val": PropMetadata._convert_dtype(s)}, req
            if k == "unit":
                s = c["s"]
                req["s"] = s
                return {"axis_type": bool(vv.validate_axis_type(s)), "space": bool(vv.validate_space_unit(s)),
                        "time": bool(vv.validate_time_unit(s))}, req
        except Exception as e:  # noqa: BLE001
            return {"out": _exc(e)}, req
    raise ValueError(k)


def _nan_eq(src, dump):
    """`dump` with NaN fields replaced by the source's NaN object (NaN != NaN)"""
    return {k: (src[k] if isinstance(v, float) and v != v and isinstance(src.get(k), float) and src[k] != src[k] else v)
            for k, v in dump.items()}


def run_stream(ck, drv):
    cs = cases()
    pairs = [impl_and_request(c) for c in cs]
    ans = drv.ask([r for _, r in pairs])
    if ans is None:
        ck.broken.append({"what": "driver Drivers/C07.lean (genval)", "detail": drv.broken})
        return
    n = 0
    for c, (im, _), mo in zip(cs, pairs, ans):
        n += 1
        tag = f"genval:{c['kind']}:{im.get('out', 'bools')}"
        ck.case({"genval": c if c["kind"] != "axis" else {"kind": "axis", "obj": mc.enc(c["obj"])}}, tag, nontrivial=True)
        if "err" in mo or any(mo.get(key) != v for key, v in im.items()):
            ck.corr_broken(f"C07:genval:{c['kind']}", c if c["kind"] != "axis" else mc.enc(c["obj"]), im, mo)
    ck.extra["generated_validator_cases"] = n
