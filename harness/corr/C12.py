"""C12 — optional data validators accept exactly the valid data.

Implementation: geff.validate.graph (four validators + offenders), geff.validate.shapes
(validate_sphere, validate_ellipsoid) and the dispatch of geff.validate.data.validate_data.
Model: Geff.Validate.* (lean/GeffModel/ValidateData.lean) via Drivers/C12.lean; theorems in
GeffProps.C12.  Four case kinds:

  graph            ids/edges of one integer dtype -> the four (valid, offenders) pairs and the outcome of
                   validate_data(graph=True) for directed and undirected metadata;
  sphere           radius arrays (any rank, int/float dtypes, optional missing mask) through validate_data;
  ellipsoid_shape  axes x covariance shapes (the stages before the float linear algebra);
  ellipsoid_exact  the symmetric / positive-definite stage against the EXACT rational model (harness/corr/_c12_ell.py,
                   GeffModel/Ellipsoid.lean, GeffProps.C12Ellipsoid): exact-rational stacks for 1, 2, 3 space axes (B^T B + eps I,
                   prescribed spectra through the margin, asymmetry by exact multiples of the allclose threshold, singular and
                   diagonal matrices, finite junk under the mask, magnitudes 2^-300 .. 2^300, float32 and integer dtypes);
                   verdicts must agree on robust stacks, rounding-sensitive ones are only checked for exception-freedom;
  ellipsoid_float  DIFFERENTIAL for NaN / inf junk and the older clearly-inside / clearly-outside stacks: stacks clearly
                   inside / clearly outside the symmetric positive-definite set for 1, 2, 3 space axes, masked rows
                   holding junk; the mask logic around the two tests IS modelled (validateEllipsoid, which takes
                   the per-matrix verdicts of the two numpy tests as given) and compared;
  lineage_masked   validate_data(lineage=True) on id properties with a missing mask (repair D14): all digraphs on
                   <=3 nodes x masks x labellings + TrackMate-like forests with lone unlabelled spots;
  dispatch_store   the same grid THROUGH THE READER: geffs written with the raw writer to a MemoryStore (path, one edge,
                   edgeless, single node, empty, edge-only x invalid data per validator), read back under all 32 configs
                   with read_to_memory(data_validation=...) and geff.read(..., backend="networkx"), against the oracle;
  reader_decl      every DECLARATION subset of {sphere, ellipsoid, tracklet, lineage} x which node properties are loaded
                   (all / only the declared ones / all but one declared property) x invalid data per declared validator,
                   through read_to_memory and geff.read per backend (zarr formats 2 and 3, 1-3 space axes); the metadata
                   returned by the reader is compared with the stored one for the loaded properties.  A validator that
                   is enabled and declared but whose property was NOT loaded makes today's reader raise KeyError: this is
                   classified (evidence key reader_declared_but_not_loaded), accepted, and may also be a clean skip;
  config_history   ONE ValidationConfig object handed to 2-4 validate_data / read_to_memory / geff.read calls over geffs
                   with different declarations (none, only lineage, only tracklet, both, sphere / ellipsoid or not;
                   properties loaded or excluded) and valid / invalid data: the object's model_dump() must be the same
                   after every call and every verdict must equal the one obtained with a fresh equal config;
  history          sequences of validate_data calls on ONE in-memory geff object (config / directedness vary) with a
                   byte snapshot of every array around each call (a validator must not modify its input, a verdict must
                   not depend on earlier calls), on plain / read-only / non-contiguous / Fortran / big-endian arrays;
  dispatch         all 2^5 configs x declarations x which validators' data is invalid; the validators are
                   wrapped to record which ones are evaluated;
  reader_byteorder graph validation requested ON READ x the BYTE ORDER of each stored id array (harness/corr/_c12_bo.py,
                   GeffModel/ByteOrder.lean, GeffProps.C12ByteOrder): 8 integer dtypes x '<' / '>' independently for nodes/ids
                   and edges/ids x zarr formats 2 (byte order in the dtype) and 3 (in the bytes codec) x directedness, through
                   read_to_memory / geff.read / GeffReader.build + validate_data with structure validation on and off; verdict,
                   failing validator and the offenders parsed from the message against an oracle on the STORED values; the Lean
                   model decodes the raw chunk bytes by the byte order recorded per array and must give the same outcome.

Each kind has an independent pure-Python oracle (brute force over Python ints / floats, by
construction for ellipsoid_float); a difference implementation/oracle is a failing input, a
difference implementation/model a broken correspondence.
"""
from __future__ import annotations

import itertools
import json
import math
import struct

import numpy as np

from harness import common
from harness.corr import _c12_bo, _c12_ell, _c12_gen

PROP = "C12"
INT_DTYPES = ["int8", "int16", "int32", "int64", "uint8", "uint16", "uint32", "uint64"]
CALLS = ["validate_unique_node_ids", "validate_nodes_for_edges", "validate_no_self_edges",
         "validate_no_repeated_edges", "validate_sphere", "validate_ellipsoid", "validate_tracklets",
         "validate_lineages"]
MSG2CALL = [("Some node ids are not unique", CALLS[0]), ("Some edges are missing nodes", CALLS[1]),
            ("Self edges found in data", CALLS[2]), ("Repeated edges found in data", CALLS[3]),
            ("Sphere radius", CALLS[4]), ("Must define space axes", CALLS[5]), ("Ellipsoid", CALLS[5]),
            ("Spatial dimensions", CALLS[5]), ("Found invalid tracklets", CALLS[6]),
            ("Found invalid lineages", CALLS[7])]


def lim(dtype):
    ii = np.iinfo(dtype)
    return int(ii.min), int(ii.max)


def f2bits(x: float) -> int:
    return struct.unpack("<Q", struct.pack("<d", x))[0]


def bits2f(b: int) -> float:
    return struct.unpack("<d", struct.pack("<Q", b))[0]


def first_line(ex):
    return str(ex.args[0]).split("\n")[0] if ex.args else ""


def _meta(directed=True, axes=None, sphere=None, ellipsoid=None, track=None, props=()):
    import geff_spec

    return geff_spec.GeffMetadata(
        geff_version="1.0.0", directed=directed,
        axes=None if axes is None else [geff_spec.Axis(name=f"a{i}", type=t) for i, t in enumerate(axes)],
        node_props_metadata={p: geff_spec.PropMetadata(identifier=p, dtype=d) for p, d in props},
        edge_props_metadata={}, sphere=sphere, ellipsoid=ellipsoid, track_node_props=track)


VARIANTS = ["plain", "readonly", "noncontiguous", "fortran", "bigendian"]


def variant_array(a, variant):
    """the same values held differently: read-only, non-contiguous view, Fortran order, non-native byte order"""
    a = np.asarray(a)
    if variant == "plain":
        return a.copy()
    if variant == "readonly":
        b = a.copy()
        b.setflags(write=False)
        return b
    if variant == "noncontiguous":
        if a.ndim == 0:
            return a.copy()
        big = np.zeros(a.shape[:-1] + (2 * a.shape[-1] + 1,), dtype=a.dtype)
        big[..., 1::2] = a
        return big[..., 1::2]
    if variant == "fortran":
        return np.asfortranarray(a.copy())
    if variant == "bigendian":
        return a.astype(a.dtype.newbyteorder(">"))
    raise ValueError(variant)


def snapshot(g):
    """bytes, dtype and shape of every array of an in-memory geff"""
    out = {}
    for k in ("node_ids", "edge_ids"):
        a = g[k]
        out[k] = (a.tobytes(), str(a.dtype), a.shape)
    for grp in ("node_props", "edge_props"):
        for name, pd in g[grp].items():
            for part in ("values", "missing"):
                a = pd.get(part)
                if a is not None:
                    out[f"{grp}/{name}/{part}"] = (a.tobytes(), str(a.dtype), a.shape)
    return out


def snapshot_diff(before, after):
    return sorted(k for k in set(before) | set(after) if before.get(k) != after.get(k))


def _outcome(fn):
    try:
        fn()
        return {"o": "ok"}
    except ValueError as ex:
        return {"o": "ValueError", "msg": first_line(ex)}
    except Exception as ex:  # noqa: BLE001
        return {"o": type(ex).__name__}


# ======================================================================= graph validators
def graph_oracle(ids, edges):
    cnt = {}
    for x in ids:
        cnt[x] = cnt.get(x, 0) + 1
    idset = set(ids)
    ecnt = {}
    for e in edges:
        ecnt[tuple(e)] = ecnt.get(tuple(e), 0) + 1
    und = {}
    for u, v in edges:
        k = (min(u, v), max(u, v))
        und[k] = und.get(k, 0) + 1
    o = {
        "unique": sorted(x for x, c in cnt.items() if c > 1),
        "nodes_for_edges": [list(e) for e in edges if e[0] not in idset or e[1] not in idset],
        "self": sorted({u for u, v in edges if u == v}),
        "repeated": [list(e) for e in sorted(e for e, c in ecnt.items() if c > 1)],
    }
    base = not o["unique"] and not o["nodes_for_edges"] and not o["self"]
    o["valid_directed"] = base and not o["repeated"]
    o["valid_undirected"] = base and all(c == 1 for c in und.values())
    return o


_GRAPH_MD = {}


def impl_graph(case):
    from geff.validate import graph as G
    from geff.validate.data import ValidationConfig, validate_data

    dt = np.dtype(case["dtype"])
    ids = np.asarray(case["ids"], dtype=dt)
    edges = np.asarray(case["edges"], dtype=dt).reshape(-1, 2)
    out = {}
    try:
        v, off = G.validate_unique_node_ids(ids)
        out["unique"] = {"valid": bool(v), "off": [int(x) for x in off]}
        v, off = G.validate_nodes_for_edges(ids, edges)
        out["nodes_for_edges"] = {"valid": bool(v), "off": [[int(a), int(b)] for a, b in off]}
        v, off = G.validate_no_self_edges(edges)
        out["self"] = {"valid": bool(v), "off": [int(x) for x in off]}
        v, off = G.validate_no_repeated_edges(edges)
        out["repeated"] = {"valid": bool(v), "off": [[int(a), int(b)] for a, b in off]}
    except Exception as ex:  # noqa: BLE001
        out["exc"] = type(ex).__name__
    if not _GRAPH_MD:   # validate_data only reads the metadata: one object per directedness and process
        _GRAPH_MD.update({True: _meta(directed=True), False: _meta(directed=False)})
    for d in (True, False):
        g = {"metadata": _GRAPH_MD[d], "node_ids": ids.copy(), "edge_ids": edges.copy(),
             "node_props": {}, "edge_props": {}}
        out["stage_directed" if d else "stage_undirected"] = _outcome(
            lambda g=g: validate_data(g, ValidationConfig(graph=True)))
    return out


def impl_graph_via_store(case):
    """write ids/edges to a MemoryStore, read back with data_validation=ValidationConfig(graph=True)"""
    import zarr
    from geff.core_io import write_arrays
    from geff.core_io._base_read import read_to_memory
    from geff.validate.data import ValidationConfig

    dt = np.dtype(case["dtype"])
    out = {}
    for d in (True, False):
        st = zarr.storage.MemoryStore()
        try:
            write_arrays(st, np.asarray(case["ids"], dtype=dt), {}, np.asarray(case["edges"], dtype=dt).reshape(-1, 2), {},
                         _meta(directed=d))
        except Exception as ex:  # noqa: BLE001  (writing is not what is under test here)
            out["directed" if d else "undirected"] = {"o": "write-failed:" + type(ex).__name__}
            continue
        out["directed" if d else "undirected"] = _outcome(
            lambda st=st: read_to_memory(st, data_validation=ValidationConfig(graph=True)))
    return out


def graph_exhaustive(alphabet_of, nmax_ids, nmax_edges, dtypes):
    """all id lists / edge lists over a 3-letter alphabet (0, 1, max of the dtype); dtypes round-robin"""
    k = 0
    for ni in range(nmax_ids + 1):
        for ids_ix in itertools.product(range(3), repeat=ni):
            for ne in range(nmax_edges + 1):
                for e_ix in itertools.product(range(9), repeat=ne):
                    dt = dtypes[k % len(dtypes)]
                    k += 1
                    a = alphabet_of(dt)
                    yield {"kind": "graph", "dtype": dt, "ids": [a[i] for i in ids_ix],
                           "edges": [[a[j // 3], a[j % 3]] for j in e_ix]}


def graph_random(rng):
    dt = rng.choice(INT_DTYPES)
    lo, hi = lim(dt)
    pool = sorted({lo, lo + 1, hi, hi - 1, 0, 1, 2, 3, hi // 2, hi // 2 + 1} | ({-1, -2} if lo < 0 else set()))
    pool = rng.sample(pool, rng.randint(2, len(pool)))
    n = rng.randint(0, 10)
    mode = rng.random()
    if mode < 0.6:   # mostly valid: distinct ids, edges among them, few defects
        ids = rng.sample(pool, min(n, len(pool)))
        m = rng.randint(0, 12)
        edges = []
        if len(ids) >= 2:
            seen = set()
            for _ in range(m):
                u, v = rng.sample(ids, 2)
                if (u, v) not in seen and (v, u) not in seen:
                    seen.add((u, v))
                    edges.append([u, v])
        r = rng.random()
        if r < 0.15 and ids:
            ids.append(rng.choice(ids))
        elif r < 0.3 and edges:
            edges.append(list(rng.choice(edges)))
        elif r < 0.45 and edges:
            u, v = rng.choice(edges)
            edges.append([v, u])
        elif r < 0.55 and ids:
            u = rng.choice(ids)
            edges.append([u, u])
        elif r < 0.65:
            edges.append([rng.choice(pool), rng.choice(pool)])
        rng.shuffle(edges)
    else:
        ids = [rng.choice(pool) for _ in range(n)]
        edges = [[rng.choice(pool), rng.choice(pool)] for _ in range(rng.randint(0, 12))]
    return {"kind": "graph", "dtype": dt, "ids": ids, "edges": edges}


def judge_graph(ck, c, im, mo):
    o = graph_oracle(c["ids"], c["edges"])
    tag = "graph:" + ("valid" if o["valid_directed"] else "valid-directed-only" if False else
                      ("undirected-duplicate-only" if (o["valid_directed"] and not o["valid_undirected"]) else
                       "invalid" if not o["valid_directed"] else "valid"))
    if o["valid_directed"] and not o["valid_undirected"]:
        tag = "graph:undirected-duplicate-only"
    ck.case(c, tag, nontrivial=bool(c["ids"]) or bool(c["edges"]))
    if "exc" in im:
        ck.fail("C12:graph-validator-exception", f"a graph validator raised {im['exc']}", c, im, o)
        return
    for name, key in (("unique", "C12:unique-node-ids"), ("nodes_for_edges", "C12:nodes-for-edges"),
                      ("self", "C12:no-self-edges"), ("repeated", "C12:no-repeated-edges")):
        got = im[name]
        got_off = got["off"] if name == "nodes_for_edges" else sorted(got["off"])
        if got["valid"] != (not o[name]) or got_off != o[name]:
            ck.fail(key, f"validate_{name}: returned ({got['valid']}, {got['off']}), offenders are {o[name]}", c, got, o[name])
    for d in ("directed", "undirected"):
        st = im["stage_" + d]
        want = o["valid_" + d]
        if st["o"] not in ("ok", "ValueError"):
            ck.fail("C12:graph-stage-exception", f"validate_data(graph=True) raised {st['o']}", c, st, want)
        elif (st["o"] == "ok") != want:
            if st["o"] == "ok" and d == "undirected" and o["valid_directed"]:
                key, what = "C12:undirected-duplicate-accepted", "undirected graph with (u,v) and (v,u) passes graph validation"
            elif st["o"] == "ok":
                key, what = "C12:graph-accepts-invalid", f"validate_data(graph=True, {d}) accepts an invalid graph"
            else:
                key, what = "C12:graph-rejects-valid", f"validate_data(graph=True, {d}) rejects a valid graph: {st.get('msg')}"
            ck.fail(key, what, c, st, {"valid": want})
    if mo is not None:
        if "err" in mo[0] or "err" in mo[1]:
            ck.corr_broken("C12:driver", c, im, mo)
            return
        md, mu = mo
        for name in ("unique", "nodes_for_edges", "self", "repeated"):
            m = md[name]
            moff = [int(x) if not isinstance(x, list) else [int(x[0]), int(x[1])] for x in m["off"]]
            if m["valid"] != im[name]["valid"] or moff != im[name]["off"]:
                ck.corr_broken(f"C12:validate_{name}", c, im[name], {"valid": m["valid"], "off": moff})
        for d, m in (("directed", md), ("undirected", mu)):
            a, b = im["stage_" + d], m["stage"]
            if a["o"] != b["o"] or a.get("msg") != b.get("msg"):
                ck.corr_broken(f"C12:graphStage({d})", c, a, b)


# ======================================================================= sphere
def sphere_array(c):
    dt = np.dtype(c["dtype"])
    if dt.kind == "f":
        a = np.array([int(b) for b in c["values"]], dtype=np.uint64).view(np.float64).astype(dt)
    else:
        a = np.asarray(c["values"], dtype=dt)
    return a.reshape(c["shape"])


def sphere_flat_for_model(c):
    a = sphere_array(c)
    if a.dtype.kind == "f":
        return [{"f": str(f2bits(float(x)))} for x in a.astype(np.float64).ravel()]
    return [{"i": str(int(x))} for x in a.ravel()]


def sphere_oracle(c):
    """ndim 1, and no unmasked entry negative (Python number semantics); lengths must fit"""
    a = sphere_array(c)
    if len(c["shape"]) != 1:
        return "ValueError"
    vals = [float(x) if a.dtype.kind == "f" else int(x) for x in a.ravel()]
    m = c["missing"]
    if m is not None:
        if len(m) != len(vals):
            return None   # malformed mask: outside the property's domain (model == implementation only)
        vals = [v for v, k in zip(vals, m) if not k]
    return "ValueError" if any(v < 0 for v in vals) else "ok"


def impl_sphere(c):
    from geff.validate.data import ValidationConfig, validate_data
    from geff.validate.shapes import validate_sphere

    a = sphere_array(c)
    m = None if c["missing"] is None else np.asarray(c["missing"], dtype=bool)
    g = {"metadata": _meta(sphere="r", props=[("r", str(a.dtype))]), "node_ids": np.arange(a.shape[0] if a.ndim else 0),
         "edge_ids": np.zeros((0, 2), dtype=np.int64), "node_props": {"r": {"values": a, "missing": m}}, "edge_props": {}}
    out = {"via_data": _outcome(lambda: validate_data(g, ValidationConfig(sphere=True)))}
    if m is None:
        out["direct"] = _outcome(lambda: validate_sphere(a))
    return out


def sphere_cases(rng, n):
    specials = [0.0, -0.0, 1.5, -1.5, float("inf"), float("-inf"), float("nan"), -5e-324, 5e-324, -1e300, 2.0]
    yield {"kind": "sphere", "dtype": "float64", "shape": [0], "values": [], "missing": None}
    yield {"kind": "sphere", "dtype": "float64", "shape": [0], "values": [], "missing": []}
    yield {"kind": "sphere", "dtype": "float64", "shape": [], "values": [str(f2bits(1.0))], "missing": None}
    yield {"kind": "sphere", "dtype": "int64", "shape": [2, 2, 2], "values": [1] * 8, "missing": None}
    yield {"kind": "sphere", "dtype": "int64", "shape": [2], "values": [-1, -1], "missing": None}
    yield {"kind": "sphere", "dtype": "int64", "shape": [3], "values": [1, 2, 3], "missing": [False, True]}
    # an EMPTY mask is accepted by numpy on an array of any length and selects nothing (model: applyMask)
    yield {"kind": "sphere", "dtype": "int64", "shape": [3], "values": [1, -2, 3], "missing": []}
    yield {"kind": "sphere", "dtype": "float64", "shape": [2], "values": [str(f2bits(-1.0)), str(f2bits(2.0))], "missing": []}
    # every special value alone, masked and unmasked
    for x in specials:
        for m in (None, [False], [True]):
            yield {"kind": "sphere", "dtype": "float64", "shape": [1], "values": [str(f2bits(x))], "missing": m}
    for _ in range(n):
        dt = rng.choice(["float64", "float32", "float64", "int8", "int64", "uint8", "uint64", "int32"])
        r = rng.random()
        shape = [rng.randint(0, 6)] if r < 0.8 else rng.choice([[], [2, 2], [3, 1], [1, 2, 2], [0, 2]])
        k = int(np.prod(shape)) if shape else 1
        if np.dtype(dt).kind == "f":
            vals = [str(f2bits(rng.choice(specials) if rng.random() < 0.3 else abs(rng.gauss(0, 3))
                               * (-1 if rng.random() < 0.12 else 1))) for _ in range(k)]
        else:
            lo, hi = lim(dt)
            vals = [rng.choice([0, 1, hi, 7] + ([lo, -1] if lo < 0 and rng.random() < 0.3 else [])) for _ in range(k)]
        missing = None
        if rng.random() < 0.6 and shape:
            missing = [rng.random() < 0.4 for _ in range(shape[0])]
            if rng.random() < 0.04:
                missing = missing + [False]
        yield {"kind": "sphere", "dtype": dt, "shape": shape, "values": vals, "missing": missing}


def judge_sphere(ck, c, im, mo):
    want = sphere_oracle(c)
    masked_neg = False
    if c["missing"] is not None and len(c["shape"]) == 1 and len(c["missing"]) == c["shape"][0]:
        a = sphere_array(c)
        masked_neg = any(bool(x < 0) and k for x, k in zip(a, c["missing"]))
    ck.case(c, f"sphere:{want or 'malformed-mask'}" + (":negative-under-mask" if masked_neg else ""), nontrivial=bool(c["values"]))
    got = im["via_data"]["o"]
    if want is not None and got != want:
        if masked_neg and got == "ValueError" and want == "ok":
            key, what = "C12:sphere-ignores-missing-mask", "a negative fill value at an entry flagged missing is rejected"
        elif got == "ok":
            key, what = "C12:sphere-accepts-invalid", "sphere validation accepts invalid radii"
        elif want == "ok":
            key, what = "C12:sphere-rejects-valid", f"sphere validation rejects valid radii: {im['via_data']}"
        else:
            key, what = "C12:sphere-wrong-exception", f"sphere validation raised {got}, expected {want}"
        ck.fail(key, what, c, im["via_data"], want)
    if want is not None and "direct" in im and im["direct"]["o"] != want:
        ck.fail("C12:validate_sphere-direct", f"validate_sphere(radius) gave {im['direct']}, expected {want}", c, im["direct"], want)
    if mo is not None:
        if "err" in mo:
            ck.corr_broken("C12:driver", c, im, mo)
        elif mo["o"] != got or (got == "ValueError" and mo.get("msg") != im["via_data"].get("msg", "")[: len(mo.get("msg", ""))]):
            ck.corr_broken("C12:validateSphere", c, im["via_data"], mo)


# ======================================================================= ellipsoid, shape stage
def ell_shape_oracle(c):
    d = 0 if c["axes"] is None else sum(1 for t in c["axes"] if t == "space")
    sh = c["shape"]
    return "ok" if (d > 0 and len(sh) == 3 and sh[1] == d and sh[2] == d) else "ValueError"


def ell_shape_array(c):
    sh = c["shape"]
    if len(sh) == 3 and sh[1] == sh[2]:
        return np.broadcast_to(2.0 * np.eye(sh[1]), sh).copy()
    return np.ones(sh)


def impl_ell_shape(c):
    import geff_spec
    from geff.validate.data import ValidationConfig, validate_data
    from geff.validate.shapes import validate_ellipsoid

    a = ell_shape_array(c)
    axes = None if c["axes"] is None else [geff_spec.Axis(name=f"a{i}", type=t) for i, t in enumerate(c["axes"])]
    out = {"direct": _outcome(lambda: validate_ellipsoid(a, axes))}
    g = {"metadata": _meta(axes=c["axes"], ellipsoid="cov", props=[("cov", "float64")]),
         "node_ids": np.arange(a.shape[0] if a.ndim else 0), "edge_ids": np.zeros((0, 2), dtype=np.int64),
         "node_props": {"cov": {"values": a, "missing": None}}, "edge_props": {}}
    out["via_data"] = _outcome(lambda: validate_data(g, ValidationConfig(ellipsoid=True)))
    return out


def ell_shape_cases(full):
    axes_opts = [None, [], ["time"], ["time", "channel"]]
    for k in range(1, 5):
        axes_opts.append(["space"] * k)
        axes_opts.append(["time"] + ["space"] * k)
        axes_opts.append(["space"] * k + ["channel"])
    ext = [0, 1, 2, 3, 4] if full else [1, 2, 3, 4]
    shapes = [[], [3], [3, 2]]
    for n in ([0, 1, 3] if full else [0, 2]):
        for a in ext:
            for b in ext:
                shapes.append([n, a, b])
    shapes += [[2, 2, 2, 2], [2, 3, 3, 3], [1, 1, 1, 1], [2, 2, 2, 2, 2]]
    shapes += [[n, d, d] for n in (1, 4, 7) for d in (1, 2, 3, 4)]
    for ax in axes_opts:
        for sh in shapes:
            yield {"kind": "ellipsoid_shape", "axes": ax, "shape": sh}


def judge_ell_shape(ck, c, im, mo):
    want = ell_shape_oracle(c)
    d = 0 if c["axes"] is None else sum(1 for t in c["axes"] if t == "space")
    ck.case(c, f"ellipsoid_shape:{want}:d={d}:rank={len(c['shape'])}", nontrivial=True)
    for how in ("direct", "via_data"):
        got = im[how]
        if got["o"] != want:
            if want == "ok":
                key = "C12:ellipsoid-rejects-valid-shape"
                what = f"valid (N,{d},{d}) covariance stack for {d} space axes rejected: {got.get('msg')}"
            elif got["o"] == "ok":
                key, what = "C12:ellipsoid-accepts-wrong-shape", f"covariance of shape {c['shape']} accepted for {d} space axes"
            else:
                key, what = "C12:ellipsoid-shape-exception", f"validate_ellipsoid raised {got['o']} on shape {c['shape']}"
            ck.fail(key, what + f" ({how})", c, got, want)
            break
    if mo is not None:
        got = im["direct"]
        if "err" in mo:
            ck.corr_broken("C12:driver", c, im, mo)
        else:
            mm = mo.get("msg", "").split("…")[0]
            if mo["o"] != got["o"] or (got["o"] == "ValueError" and not got.get("msg", "").startswith(mm)):
                ck.corr_broken("C12:ellipsoidShapeStage", c, got, mo)


# ======================================================================= ellipsoid, float stage (differential)
def ell_float_cases(rng, n):
    def spd(d):
        b = np.array([[rng.gauss(0, 1) for _ in range(d)] for _ in range(d)])
        return b.T @ b + np.eye(d)

    def junk(d):
        r = rng.random()
        if r < 0.3:
            return np.full((d, d), float("nan"))
        if r < 0.6:
            return -spd(d)
        m = spd(d)
        if d > 1:
            m[0, 1] += 5.0
        else:
            m[0, 0] = -3.0
        return m

    def bad(d):
        r = rng.random()
        if d > 1 and r < 0.5:
            m = spd(d)
            m[0, d - 1] += rng.choice([0.1, 0.5, -0.25, 3.0])
            return m, "asymmetric"
        q, _ = np.linalg.qr(np.array([[rng.gauss(0, 1) for _ in range(d)] for _ in range(d)]))
        lam = [rng.uniform(0.5, 3) for _ in range(d)]
        lam[rng.randrange(d)] = rng.choice([-0.1, -1.0, -7.5])
        m = q @ np.diag(lam) @ q.T
        return (m + m.T) / 2, "negative-eigenvalue"

    for i in range(n):
        d = 1 + i % 3
        nn = rng.randint(0, 6)
        mats, missing, why = [], [], "inside"
        use_mask = rng.random() < 0.6
        bad_at = rng.randrange(nn) if nn and rng.random() < 0.45 else None
        for k in range(nn):
            if use_mask and k != bad_at and rng.random() < 0.35:
                mats.append(junk(d))
                missing.append(True)
            elif k == bad_at:
                m, why = bad(d)
                mats.append(m)
                missing.append(False)
            else:
                mats.append(spd(d))
                missing.append(False)
        yield {"kind": "ellipsoid_float", "d": d, "mats": [m.tolist() for m in mats],
               "missing": missing if use_mask else None, "expect": "ok" if bad_at is None else "ValueError", "why": why}


def ell_float_systematic(rng, rotations):
    """EVERY sign pattern of eigenvalues (magnitudes >= 0.5, so anything with a minus is clearly outside) for
    d = 1, 2, 3: axis-aligned with the magnitudes in every order, and rotated (Q diag(lam) Q^T, Q from the QR of a
    seeded Gaussian); plus asymmetric matrices (every off-diagonal position, several amounts).  The matrix under
    test sits alone, first, in the middle or last in a stack of good matrices; without mask, with junk under the
    mask elsewhere, and itself under the mask (then the stack is valid)."""
    mags_of = {1: [[0.5], [3.0]], 2: [[0.5, 2.0], [4.0, 1.5]], 3: [[0.5, 2.0, 3.0], [2.0, 3.0, 4.0]]}

    def good(d, k):
        b = np.array([[rng.gauss(0, 1) for _ in range(d)] for _ in range(d)])
        return b.T @ b + np.eye(d)

    def junk(d):
        m = -np.eye(d) * 3.0
        if d > 1:
            m[0, 1] = 7.0
        return m

    def place(d, m, tag, bad):
        for pos in ("single", "first", "middle", "last"):
            for mask_mode in ("nomask", "junk-elsewhere", "self-masked"):
                if pos == "single":
                    mats, at = [m], 0
                else:
                    mats = [good(d, k) for k in range(3)]
                    at = {"first": 0, "middle": 1, "last": 2}[pos]
                    mats[at] = m
                missing = None
                expect_bad = bad
                if mask_mode == "junk-elsewhere":
                    if pos == "single":
                        continue
                    missing = [False] * len(mats)
                    other = (at + 1) % len(mats)
                    mats[other] = junk(d)
                    missing[other] = True
                elif mask_mode == "self-masked":
                    missing = [False] * len(mats)
                    missing[at] = True
                    expect_bad = False
                yield {"kind": "ellipsoid_float", "d": d, "mats": [x.tolist() for x in mats], "missing": missing,
                       "expect": "ValueError" if expect_bad else "ok", "why": tag, "sys": f"{tag}:row={pos}:{mask_mode}"}

    for d in (1, 2, 3):
        for signs in itertools.product([1, -1], repeat=d):
            pat = "".join("+" if x > 0 else "-" for x in signs)
            bad = any(x < 0 for x in signs)
            for mags in mags_of[d]:
                # axis aligned: the signed eigenvalues in every order along the diagonal
                for perm in sorted(set(itertools.permutations([sg * mg for sg, mg in zip(signs, mags)]))):
                    yield from place(d, np.diag(perm).astype(float), f"signs={pat}:aligned", bad)
                for _ in range(rotations if d > 1 else 0):
                    q, _r = np.linalg.qr(np.array([[rng.gauss(0, 1) for _ in range(d)] for _ in range(d)]))
                    m = q @ np.diag([sg * mg for sg, mg in zip(signs, mags)]) @ q.T
                    yield from place(d, (m + m.T) / 2, f"signs={pat}:rotated", bad)
        for i in range(d):
            for j in range(d):
                if i != j:
                    for amount in (0.1, -0.5, 3.0):
                        m = good(d, 0)
                        m[i, j] += amount
                        yield from place(d, m, f"asymmetric[{i},{j}]", True)


def ell_float_independent(c):
    """independent verdict: every unmasked matrix is symmetric (max |A - A^T| < 1e-6) and the smallest eigenvalue
    of its symmetrised form (np.linalg.eigvalsh) is > 0.  Returns (verdict, clear) where clear says that every
    unmasked matrix is far from the boundary (asymmetry 0 or >= 0.09, |smallest eigenvalue| >= 0.09)."""
    d = c["d"]
    a = np.array(c["mats"], dtype=np.float64).reshape(-1, d, d)
    ok, clear = True, True
    for k, m in enumerate(a):
        if c["missing"] is not None and c["missing"][k]:
            continue
        if not np.all(np.isfinite(m)):
            ok = False
            continue
        asym = float(np.max(np.abs(m - m.T))) if d else 0.0
        if asym >= 1e-6:
            ok = False
            clear = clear and asym >= 0.09
            continue
        lo = float(np.min(np.linalg.eigvalsh((m + m.T) / 2)))
        if lo <= 0:
            ok = False
        clear = clear and abs(lo) >= 0.09
    return ("ok" if ok else "ValueError"), clear


def impl_ell_float(c):
    from geff.validate.data import ValidationConfig, validate_data

    d = c["d"]
    a = np.array(c["mats"], dtype=np.float64).reshape(-1, d, d)
    m = None if c["missing"] is None else np.asarray(c["missing"], dtype=bool)
    g = {"metadata": _meta(axes=["time"] + ["space"] * d, ellipsoid="cov", props=[("cov", "float64")]),
         "node_ids": np.arange(a.shape[0]), "edge_ids": np.zeros((0, 2), dtype=np.int64),
         "node_props": {"cov": {"values": a, "missing": m}}, "edge_props": {}}
    return _outcome(lambda: validate_data(g, ValidationConfig(ellipsoid=True)))


def ell_float_req(c):
    """per-matrix verdicts of the two numpy tests (the model takes them as given)"""
    d = c["d"]
    a = np.array(c["mats"], dtype=np.float64).reshape(-1, d, d)
    sym, pd = [], []
    for m in a:
        sym.append(bool(np.allclose(m, m.T)))
        try:
            pd.append(bool(np.all(np.linalg.eigvals(m) > 0)))
        except Exception:  # noqa: BLE001  (NaN / inf entries)
            pd.append(False)
    return {"op": "ellipsoid", "axes": ["time"] + ["space"] * d, "shape": list(a.shape), "sym": sym, "pd": pd,
            "missing": c["missing"]}


def judge_ell_float(ck, c, im, mo=None):
    has_junk = c["missing"] is not None and any(c["missing"])
    indep, clear = ell_float_independent(c)
    if indep != c["expect"] or not clear:
        raise AssertionError(f"ellipsoid_float generator/oracle inconsistent: expect={c['expect']} independent={indep} "
                             f"clear={clear} on {json.dumps(c)[:400]}")
    if c.get("sys"):
        ck.case(c, f"ellipsoid_float:sys:d={c['d']}:{c['sys']}", nontrivial=True)
        pat = f"d={c['d']}:{c['why']}"
        hist = ck.extra.setdefault("ellipsoid_sign_pattern_histogram", {})
        hist[pat] = hist.get(pat, 0) + 1
    else:
        ck.case(c, f"ellipsoid_float:d={c['d']}:{c['why']}" + (":junk-under-mask" if has_junk else ""), nontrivial=bool(c["mats"]))
    if im["o"] != c["expect"]:
        if c["expect"] == "ok" and c["d"] == 3 and "dimensions" in im.get("msg", ""):
            key, what = "C12:ellipsoid-rejects-valid-shape", "valid (N,3,3) covariance stack for 3 space axes rejected"
        elif c["expect"] == "ok" and has_junk:
            key, what = "C12:ellipsoid-ignores-missing-mask", f"junk matrix at an entry flagged missing is rejected: {im.get('msg')}"
        elif c["expect"] == "ok":
            key, what = "C12:ellipsoid-rejects-valid", f"symmetric positive-definite stack rejected: {im}"
        elif im["o"] == "ok":
            key, what = "C12:ellipsoid-accepts-invalid", f"stack with a {c['why']} matrix accepted"
        else:
            key, what = "C12:ellipsoid-exception", f"validate_ellipsoid raised {im['o']}"
        ck.fail(key, what, c, im, c["expect"])
    if mo is not None:
        if "err" in mo:
            ck.corr_broken("C12:driver", c, im, mo)
        elif mo["o"] != im["o"] or (im["o"] == "ValueError" and mo.get("msg") != im.get("msg")):
            ck.corr_broken("C12:validateEllipsoid(mask logic; float tests given per matrix)", c, im, mo)


# ======================================================================= dispatch
FLAGS = ["graph", "sphere", "ellipsoid", "lineage", "tracklet"]
TRACK_OPTS = [None, [], ["tracklet"], ["lineage"], ["tracklet", "lineage"], ["lineage", "tracklet"]]   # both KEY ORDERS
VALIDATOR_OF_FLAG = {"graph": CALLS[3], "sphere": CALLS[4], "ellipsoid": CALLS[5], "tracklet": CALLS[6], "lineage": CALLS[7]}


def dispatch_expected(c):
    """spec: which validators may be evaluated, and the outcome"""
    cfg = dict(zip(FLAGS, c["config"]))
    dec = c["decl"]
    active = []
    if cfg["graph"]:
        active.append("graph")
    if cfg["sphere"] and dec["sphere"]:
        active.append("sphere")
    if cfg["ellipsoid"] and dec["ellipsoid"]:
        active.append("ellipsoid")
    if cfg["tracklet"] and dec["track"] is not None and "tracklet" in dec["track"]:
        active.append("tracklet")
    if cfg["lineage"] and dec["track"] is not None and "lineage" in dec["track"]:
        active.append("lineage")
    failing = [f for f in active if f in c["bad"]]
    return active, (flag_call(c, failing[0]) if failing else None)


def flag_call(c, flag):
    """the validator whose error is due when the data of `flag` is invalid (an edge-only geff fails the
    endpoint check, the other graph-invalid geffs hold a repeated edge)"""
    if flag == "graph" and c.get("shape") == "edge-only":
        return CALLS[1]
    return VALIDATOR_OF_FLAG[flag]


GRAPH_SHAPES = {
    # name: (n nodes, edges, which validators CAN hold invalid data on this graph)
    "path": (4, [[0, 1], [1, 2]], ["graph", "sphere", "ellipsoid", "lineage", "tracklet"]),
    "one-edge": (2, [[0, 1]], ["graph", "sphere", "ellipsoid", "lineage", "tracklet"]),
    "edgeless": (4, [], ["sphere", "ellipsoid", "lineage", "tracklet"]),
    "single-node": (1, [], ["sphere", "ellipsoid"]),
    "empty": (0, [], ["sphere", "ellipsoid"]),
    "edge-only": (0, [[0, 1]], ["sphere", "ellipsoid"]),     # no nodes but an edge: graph validation must fail
}
ALWAYS_BAD = {"edge-only": ["graph"]}


def dispatch_data(shape, bad, d=2):
    """node ids, edges and the four property arrays; `bad` = validators whose data is invalid; d = space axes"""
    n, edges, _ = GRAPH_SHAPES[shape]
    edges = [list(e) for e in edges]
    if "graph" in bad and edges and shape != "edge-only":
        edges.append(list(edges[0]))            # repeated edge (collapses in networkx: tracks unaffected)
    if n == 0:   # no entry can be wrong: invalid = wrong rank / wrong matrix extent
        r = np.zeros((0, 2)) if "sphere" in bad else np.zeros((0,))
        cov = np.zeros((0, d + 1, d + 1)) if "ellipsoid" in bad else np.zeros((0, d, d))
        trk = lin = np.zeros((0,), dtype=np.int64)
    else:
        r = np.array([1.0 + k for k in range(n)])
        if "sphere" in bad:
            r[n - 1] = -1.0
        cov = np.stack([2.0 * np.eye(d)] * n)
        if "ellipsoid" in bad:
            if d > 1:
                cov[0, d - 1, 0] = 1.0      # not symmetric
            else:
                cov[0, 0, 0] = -1.0         # not positive-definite
        good_trk = {"path": [5, 5, 5, 6], "one-edge": [5, 5], "edgeless": [5, 6, 7, 8], "single-node": [5]}[shape]
        bad_trk = {"path": [5, 5, 6, 6], "one-edge": [5, 6], "edgeless": [5, 5, 7, 8], "single-node": [5]}[shape]
        good_lin = {"path": [1, 1, 1, 2], "one-edge": [1, 1], "edgeless": [1, 2, 3, 4], "single-node": [1]}[shape]
        bad_lin = {"path": [1, 1, 2, 2], "one-edge": [1, 2], "edgeless": [1, 1, 3, 4], "single-node": [1]}[shape]
        trk = np.array(bad_trk if "tracklet" in bad else good_trk)
        lin = np.array(bad_lin if "lineage" in bad else good_lin)
    return np.arange(n), np.asarray(edges, dtype=np.int64).reshape(-1, 2), {"r": r, "cov": cov, "trk": trk, "lin": lin}


def impl_dispatch(c):
    import geff.validate.data as D

    cfg = dict(zip(FLAGS, c["config"]))
    dec = c["decl"]
    active, _ = dispatch_expected(c)
    ids, edges, arrs = dispatch_data(c.get("shape", "path"), set(c["bad"]))
    rev = dec["track"] is not None and dec["track"][:1] == ["lineage"]     # insertion order of every dict follows
    props = {k: {"values": v, "missing": None} for k, v in (reversed(list(arrs.items())) if rev else arrs.items())}
    if c["omit"]:   # data of validators that must not be evaluated is absent altogether
        keep = {"sphere": "r", "ellipsoid": "cov", "tracklet": "trk", "lineage": "lin"}
        props = {keep[f]: props[keep[f]] for f in active if f in keep}
    track = None if dec["track"] is None else {k: {"tracklet": "trk", "lineage": "lin"}[k] for k in dec["track"]}
    md = _meta(axes=["time", "space", "space"], sphere="r" if dec["sphere"] else None,
               ellipsoid="cov" if dec["ellipsoid"] else None, track=track,
               props=[("r", "float64"), ("cov", "float64"), ("trk", "int64"), ("lin", "int64")][::-1 if rev else 1])

    def geff():
        return {"metadata": md, "node_ids": ids.copy(), "edge_ids": edges.copy(),
                "node_props": {k: {"values": v["values"].copy(), "missing": None} for k, v in props.items()}, "edge_props": {}}
    # 1st run: the untouched module (real validators, nothing patched)
    plain = _outcome(lambda: D.validate_data(geff(), D.ValidationConfig(**cfg)))
    # 2nd run: the same call with recording wrappers around the real validators
    calls = []
    saved = {n: getattr(D, n) for n in CALLS}

    def wrap(n):
        def w(*a, **k):
            calls.append(n)
            return saved[n](*a, **k)
        return w
    try:
        for n in CALLS:
            setattr(D, n, wrap(n))
        out = _outcome(lambda: D.validate_data(geff(), D.ValidationConfig(**cfg)))
    finally:
        for n in CALLS:
            setattr(D, n, saved[n])
    if out["o"] == "ValueError":
        out["call"] = next((cn for p, cn in MSG2CALL if out["msg"].startswith(p)), None)
    out["calls"] = calls
    out["plain"] = plain
    return out


def dispatch_cases(full):
    for shape, (_n, _e, can_be_bad) in GRAPH_SHAPES.items():
        if full:
            bad_sets = [[f for i, f in enumerate(can_be_bad) if k >> i & 1] for k in range(2 ** len(can_be_bad))]
        else:
            bad_sets = [[]] + [[f] for f in can_be_bad] + [list(can_be_bad)]
        bad_sets = [ALWAYS_BAD.get(shape, []) + b for b in bad_sets]
        for cfg in itertools.product([False, True], repeat=5):
            for ds in (False, True):
                for de in (False, True):
                    for tr in TRACK_OPTS:
                        for bad in bad_sets:
                            for omit in ((False, True) if full or shape in ("path", "edgeless", "edge-only") else (False,)):
                                yield {"kind": "dispatch", "shape": shape, "config": list(cfg),
                                       "decl": {"sphere": ds, "ellipsoid": de, "track": tr}, "bad": bad, "omit": omit}


def dispatch_req(c):
    dec = c["decl"]
    tr = dec["track"]
    failing = [flag_call(c, f) for f in c["bad"]]
    return {"op": "dispatch", "config": c["config"],
            "decl": [dec["sphere"], dec["ellipsoid"], tr is not None, tr is not None and "tracklet" in tr,
                     tr is not None and "lineage" in tr], "failing": failing}


def judge_dispatch(ck, c, im, mo):
    active, want_fail = dispatch_expected(c)
    allowed = set()
    for f in active:
        allowed |= set(CALLS[:4]) if f == "graph" else {VALIDATOR_OF_FLAG[f]}
    ck.case(c, f"dispatch:{c.get('shape', 'path')}:active={len(active)}:{'raises' if want_fail else 'ok'}", nontrivial=any(c["config"]))
    if im["plain"]["o"] != im["o"] or im["plain"].get("msg") != im.get("msg"):
        ck.fail("C12:dispatch-differs-under-recording", f"validate_data gave {im['plain']} unpatched but {im['o']} with recording wrappers",
                c, im, None)
    stray = [n for n in im["calls"] if n not in allowed]
    if stray:
        ck.fail("C12:disabled-validator-evaluated", f"validators {stray} evaluated although not enabled / not declared", c, im, sorted(allowed))
    if im["o"] not in ("ok", "ValueError"):
        ck.fail("C12:dispatch-exception", f"validate_data raised {im['o']} (config {c['config']}, decl {c['decl']})", c, im, want_fail)
    elif (im["o"] == "ok") != (want_fail is None):
        if im["o"] == "ok":
            ck.fail("C12:enabled-validator-skipped", f"{want_fail} is enabled and declared, its data is invalid, yet validate_data passes", c, im, want_fail)
        else:
            ck.fail("C12:disabled-validator-raises", f"validate_data raised although no enabled+declared validator has invalid data: {im.get('msg')}", c, im, None)
    elif want_fail is not None and im.get("call") != want_fail:
        ck.fail("C12:dispatch-wrong-error", f"error comes from {im.get('call')}, expected {want_fail}", c, im, want_fail)
    if mo is not None:
        if "err" in mo:
            ck.corr_broken("C12:driver", c, im, mo)
            return
        mcalled = mo["called"]
        if want_fail is not None and want_fail in mcalled:
            mcalled = mcalled[: mcalled.index(want_fail) + 1]
        mfail = mo["outcome"].get("msg") if mo["outcome"]["o"] == "ValueError" else None
        if mcalled != im["calls"] or mfail != im.get("call"):
            ck.corr_broken("C12:validateData-dispatch", c, {"calls": im["calls"], "error_from": im.get("call")},
                           {"calls": mcalled, "error_from": mfail})


# ======================================================================= dispatch THROUGH THE READER
STORE_DECLS = [{"sphere": True, "ellipsoid": True, "track": ["tracklet", "lineage"]},
               {"sphere": True, "ellipsoid": True, "track": ["lineage", "tracklet"]},
               {"sphere": True, "ellipsoid": False, "track": ["tracklet"]},
               {"sphere": False, "ellipsoid": True, "track": ["lineage"]},
               {"sphere": False, "ellipsoid": False, "track": None}]
ALL_CONFIGS = [list(c) for c in itertools.product([False, True], repeat=5)]


def _dispatch_geff(shape, bad, decl, variant="plain", directed=True, d=2):
    """in-memory geff of the dispatch grid (axis properties a0..a<d> included so that it can be stored)"""
    ids, edges, arrs = dispatch_data(shape, set(bad), d)
    n = len(ids)
    axn = [f"a{i}" for i in range(d + 1)]
    for a in axn:
        arrs[a] = np.zeros(n)
    track = None if decl["track"] is None else {k: {"tracklet": "trk", "lineage": "lin"}[k] for k in decl["track"]}
    rev = decl["track"] is not None and decl["track"][:1] == ["lineage"]   # insertion order of every dict follows
    plist = [("r", "float64"), ("cov", "float64"), ("trk", "int64"), ("lin", "int64")] + [(a, "float64") for a in axn]
    md = _meta(directed=directed, axes=["time"] + ["space"] * d, sphere="r" if decl["sphere"] else None,
               ellipsoid="cov" if decl["ellipsoid"] else None, track=track, props=plist[::-1] if rev else plist)
    if rev:
        arrs = dict(reversed(list(arrs.items())))
    return {"metadata": md, "node_ids": variant_array(ids, variant), "edge_ids": variant_array(edges, variant),
            "node_props": {k: {"values": variant_array(v, variant), "missing": None} for k, v in arrs.items()},
            "edge_props": {}}


def _classify(out):
    if out["o"] == "ValueError":
        out["call"] = next((cn for p, cn in MSG2CALL if out.get("msg", "").startswith(p)), None)
    return out


def impl_dispatch_store(c):
    """write the geff with the raw writer (no structure validation: it is the data validation that is under
    test), then read it back under every config with read_to_memory(data_validation=...) and, for the all-on
    and the case's own configs, with geff.read(..., backend="networkx")"""
    import geff
    import zarr
    from geff.core_io import write_arrays
    from geff.core_io._base_read import read_to_memory
    from geff.validate.data import ValidationConfig

    g = _dispatch_geff(c["shape"], c["bad"], c["decl"])
    st = zarr.storage.MemoryStore()
    try:
        write_arrays(st, g["node_ids"], g["node_props"], g["edge_ids"], {}, g["metadata"], structure_validation=False)
    except Exception as ex:  # noqa: BLE001
        return {"write_failed": type(ex).__name__ + ": " + str(ex)[:200]}
    out = {"read_to_memory": [], "geff_read": {}}
    for cfg in (ALL_CONFIGS if c.get("configs") is None else c["configs"]):
        vc = ValidationConfig(**dict(zip(FLAGS, cfg)))
        out["read_to_memory"].append(_classify(_outcome(
            lambda vc=vc: read_to_memory(st, structure_validation=False, data_validation=vc))))
    for cfg in ([True] * 5, [True, False, False, False, False], [False, True, True, False, False]):
        vc = ValidationConfig(**dict(zip(FLAGS, cfg)))
        out["geff_read"]["".join("1" if b else "0" for b in cfg)] = _classify(_outcome(
            lambda vc=vc: geff.read(st, structure_validation=False, data_validation=vc, backend="networkx")))
    return out


def dispatch_store_cases(full):
    for shape, (_n, _e, can_be_bad) in GRAPH_SHAPES.items():
        if full:
            bad_sets = [[f for i, f in enumerate(can_be_bad) if k >> i & 1] for k in range(2 ** len(can_be_bad))]
        else:
            bad_sets = [[]] + [[f] for f in can_be_bad] + ([list(can_be_bad)] if len(can_be_bad) > 1 else [])
        for bad in bad_sets:
            for decl in (STORE_DECLS if full else STORE_DECLS[:3]):
                yield {"kind": "dispatch_store", "shape": shape, "decl": decl, "bad": ALWAYS_BAD.get(shape, []) + bad}


def judge_dispatch_store(ck, c, im):
    if "write_failed" in im:
        ck.case(c, f"dispatch_store:{c['shape']}:write-failed", nontrivial=False)
        ck.extra.setdefault("dispatch_store_write_failed", []).append(im["write_failed"])
        return
    cfgs = ALL_CONFIGS if c.get("configs") is None else c["configs"]
    reads = [(cfg, r, "read_to_memory") for cfg, r in zip(cfgs, im["read_to_memory"])]
    reads += [([ch == "1" for ch in k], r, "geff.read") for k, r in im["geff_read"].items()]
    for cfg, r, how in reads:
        cc = {**c, "config": list(cfg), "omit": False}
        _, want_fail = dispatch_expected(cc)
        ck.case({**cc, "via": how}, f"dispatch_store:{c['shape']}:{how}:{'raises' if want_fail else 'ok'}", nontrivial=any(cfg))
        rc = {**c, "configs": [list(cfg)], "via": how}
        if r["o"] not in ("ok", "ValueError"):
            ck.fail("C12:reader-dispatch-exception", f"{how}(data_validation={dict(zip(FLAGS, cfg))}) raised {r['o']}", rc, r, want_fail)
        elif (r["o"] == "ok") != (want_fail is None):
            if r["o"] == "ok":
                ck.fail("C12:reader-skips-enabled-validator",
                        f"{how}(data_validation={dict(zip(FLAGS, cfg))}) on a {c['shape']} geff accepts data that {want_fail} must reject "
                        "(validate_data called directly rejects it)", rc, r, want_fail)
            else:
                ck.fail("C12:reader-rejects-valid", f"{how}(data_validation=...) raised {r.get('msg')!r} on valid data", rc, r, None)
        elif want_fail is not None and r.get("call") != want_fail:
            ck.fail("C12:reader-dispatch-wrong-error", f"{how}: error comes from {r.get('call')}, expected {want_fail}", rc, r, want_fail)


# ======================================================================= reader: declaration subsets x loaded properties
PROP_OF = {"sphere": "r", "ellipsoid": "cov", "tracklet": "trk", "lineage": "lin"}
ORDER = ["graph", "sphere", "ellipsoid", "tracklet", "lineage"]


def reader_decl_of(c):
    dset = c["declared"]
    keys = ("lineage", "tracklet") if c.get("track_order") == "lineage,tracklet" else ("tracklet", "lineage")
    tr = [k for k in keys if k in dset]
    return {"sphere": "sphere" in dset, "ellipsoid": "ellipsoid" in dset, "track": tr or None}


def reader_reads(c):
    """(load option, node_props argument, config) for every read of the case"""
    dset = c["declared"]
    axn = [f"a{i}" for i in range(c["d"] + 1)]
    allp = ["r", "cov", "trk", "lin"] + axn
    loads = [("all", None), ("declared-only", [PROP_OF[v] for v in dset])]
    loads += [(f"exclude:{v}", [p for p in allp if p != PROP_OF[v]]) for v in dset]
    cfgs = [[True] * 5] + [[f == v for f in FLAGS] for v in dset]
    if c.get("reads") is not None:
        return [(lo, dict(loads)[lo], cfg) for lo, cfg in c["reads"]]
    return [(lo, arg, cfg) for lo, arg in loads for cfg in cfgs]


def impl_reader_decl(c):
    """one store per (declaration subset, invalid-data set, d, zarr format); read back with every choice of
    loaded node properties x configs through read_to_memory, and through geff.read for each backend"""
    import geff
    import zarr
    from geff.core_io import write_arrays
    from geff.core_io._base_read import read_to_memory
    from geff.validate.data import ValidationConfig

    g = _dispatch_geff("path", c["bad"], reader_decl_of(c), d=c["d"])
    st = zarr.storage.MemoryStore()
    try:
        write_arrays(st, g["node_ids"], g["node_props"], g["edge_ids"], {}, g["metadata"], structure_validation=False,
                     zarr_format=c["zarr_format"])
    except Exception as ex:  # noqa: BLE001
        return {"write_failed": type(ex).__name__ + ": " + str(ex)[:200]}
    stored = g["metadata"]
    out = {"reads": [], "backends": {}, "stored": {"sphere": stored.sphere, "ellipsoid": stored.ellipsoid,
                                                    "track": stored.track_node_props}}
    metas = {}
    for lo, arg, cfg in reader_reads(c):
        vc = ValidationConfig(**dict(zip(FLAGS, cfg)))
        r = _classify(_outcome(lambda arg=arg, vc=vc: read_to_memory(st, structure_validation=False, node_props=arg, data_validation=vc)))
        # the metadata the reader returns for this choice of loaded properties (no validation; once per choice)
        if lo not in metas:
            try:
                m = read_to_memory(st, structure_validation=False, node_props=arg)
                metas[lo] = {"sphere": m["metadata"].sphere, "ellipsoid": m["metadata"].ellipsoid,
                             "track": m["metadata"].track_node_props, "loaded": sorted(m["node_props"])}
            except Exception as ex:  # noqa: BLE001
                metas[lo] = {"exc": type(ex).__name__}
        r["meta"] = metas[lo]
        out["reads"].append(r)
    if c.get("reads") is None:
        for be in ("networkx", "rustworkx", "spatial-graph"):
            kw = {"position_attr": "pos"} if be == "spatial-graph" else {}
            vc = ValidationConfig(**dict(zip(FLAGS, [True] * 5)))
            out["backends"][be] = _classify(_outcome(
                lambda be=be, kw=kw, vc=vc: geff.read(st, structure_validation=False, data_validation=vc, backend=be, **kw)))
    return out


def reader_decl_cases(full):
    subsets = [[v for i, v in enumerate(["sphere", "ellipsoid", "tracklet", "lineage"]) if k >> i & 1] for k in range(16)]
    for fmt, d in ([(2, 2)] if not full else [(2, 1), (2, 2), (2, 3), (3, 1), (3, 2), (3, 3)]):
        for dset in subsets:
            for bad in [[]] + [[v] for v in dset] + ([list(dset)] if full and len(dset) > 1 else []):
                yield {"kind": "reader_decl", "declared": dset, "bad": bad, "d": d, "zarr_format": fmt}
                if "tracklet" in dset and "lineage" in dset:     # the other KEY ORDER of track_node_props
                    yield {"kind": "reader_decl", "declared": dset, "bad": bad, "d": d, "zarr_format": fmt,
                           "track_order": "lineage,tracklet"}
    if not full:   # the other format and 1 / 3 space axes: every declaration subset holding an ellipsoid or a sphere
        for fmt, d in [(3, 1), (3, 3), (2, 1), (2, 3), (3, 2)]:
            for dset in subsets:
                if "ellipsoid" in dset or dset == ["sphere"]:
                    v = "ellipsoid" if "ellipsoid" in dset else "sphere"
                    yield {"kind": "reader_decl", "declared": dset, "bad": [v], "d": d, "zarr_format": fmt,
                           "reads": [["all", [True] * 5], ["all", [f == v for f in FLAGS]], ["declared-only", [f == v for f in FLAGS]]]}


def reader_expected(c, lo, arg, cfg):
    """(outcome the property demands given what was loaded, may-KeyError)
    A validator counts when it is enabled, declared and its property was loaded; a validator that is enabled and
    declared but whose property was NOT loaded makes today's reader raise KeyError (classified, accepted) - it may
    also be skipped, but nothing else."""
    dset = c["declared"]
    loaded = lambda v: arg is None or PROP_OF[v] in arg  # noqa: E731
    cfgd = dict(zip(FLAGS, cfg))
    want, keyerr = None, False
    for v in ORDER:
        if not cfgd[v]:
            continue
        if v == "graph":
            if "graph" in c["bad"]:
                want = CALLS[3]
                break
            continue
        if v not in dset:
            continue
        if not loaded(v):
            keyerr = True          # from here on a KeyError is what today's reader does
            continue
        if v in c["bad"]:
            want = VALIDATOR_OF_FLAG[v]
            break
    return want, keyerr


def judge_reader_decl(ck, c, im):
    if "write_failed" in im:
        ck.case(c, "reader_decl:write-failed", nontrivial=False)
        ck.extra.setdefault("reader_decl_write_failed", []).append(im["write_failed"])
        return
    stored = im["stored"]
    hist = ck.extra.setdefault("reader_declared_but_not_loaded", {})
    for (lo, arg, cfg), r in zip(reader_reads(c), im["reads"]):
        want, keyerr = reader_expected(c, lo, arg, cfg)
        rc = {**c, "reads": [[lo, list(cfg)]]}
        tag_lo = lo.split(":")[0]
        ck.case({**rc}, f"reader_decl:declared={len(c['declared'])}:load={tag_lo}:{'raises' if want else 'ok'}" + (":maybe-KeyError" if keyerr else ""),
                nontrivial=True)
        got = None if r["o"] == "ok" else (r.get("call") if r["o"] == "ValueError" else r["o"])
        if keyerr and r["o"] == "KeyError":
            hist["KeyError"] = hist.get("KeyError", 0) + 1
        elif got != want:
            if r["o"] == "ok":
                ck.fail("C12:reader-drops-declared-validator",
                        f"read_to_memory(node_props={arg}, data_validation={dict(zip(FLAGS, cfg))}) on a geff declaring {c['declared']} accepts data "
                        f"that {want} must reject (the property is declared and loaded)", rc, r, want)
            elif want is None:
                ck.fail("C12:reader-decl-rejects-valid", f"read_to_memory(node_props={arg}, ...) raised {r['o']}: {r.get('msg', '')!r} on valid data", rc, r, None)
            else:
                ck.fail("C12:reader-decl-wrong-error", f"read_to_memory(node_props={arg}, ...): got {got}, expected {want}", rc, r, want)
        elif keyerr:
            hist["skipped"] = hist.get("skipped", 0) + 1
        # metadata returned by the reader: the declaration of every LOADED property must survive unchanged,
        # and nothing may be declared that the store does not declare
        m = r["meta"]
        if "exc" in m:
            ck.fail("C12:reader-decl-exception", f"read_to_memory(node_props={arg}) raised {m['exc']}", rc, m, "metadata")
            continue
        problems = []
        for fld in ("sphere", "ellipsoid"):
            if m[fld] not in (stored[fld], None):
                problems.append(f"{fld}={m[fld]!r} invented (stored {stored[fld]!r})")
            if stored[fld] is not None and stored[fld] in m["loaded"] and m[fld] != stored[fld]:
                problems.append(f"{fld} declaration {stored[fld]!r} dropped although the property was loaded")
        st_tr, m_tr = stored["track"] or {}, m["track"] or {}
        for k, p in st_tr.items():
            if p in m["loaded"] and m_tr.get(k) != p:
                problems.append(f"track_node_props[{k!r}]={p!r} dropped although the property was loaded")
        for k, p in m_tr.items():
            if st_tr.get(k) != p:
                problems.append(f"track_node_props[{k!r}]={p!r} invented")
        if problems:
            ck.fail("C12:reader-metadata-declaration-lost", f"read_to_memory(node_props={arg}) returns metadata that differs from the stored one: "
                    + "; ".join(problems), rc, m, stored)
    want_all, _ = reader_expected(c, "all", None, [True] * 5)
    for be, r in im.get("backends", {}).items():
        ck.case({**c, "backend": be}, f"reader_decl:geff.read:{be}:{'raises' if want_all else 'ok'}", nontrivial=True)
        got = None if r["o"] == "ok" else (r.get("call") if r["o"] == "ValueError" else r["o"])
        if want_all is not None and got != want_all:
            ck.fail("C12:reader-drops-declared-validator", f"geff.read(backend={be!r}, data_validation=all on) gave {got}, expected the error of {want_all}",
                    {**c, "backend": be}, r, want_all)
        elif want_all is None and r["o"] == "ValueError" and r.get("call") is not None:
            ck.fail("C12:reader-decl-rejects-valid", f"geff.read(backend={be!r}) raised a validator error on valid data: {r.get('msg')!r}", {**c, "backend": be}, r, None)
        elif want_all is None and r["o"] != "ok":
            bh = ck.extra.setdefault("backend_construction_errors_after_validation", {})
            bh[f"{be}:{r['o']}"] = bh.get(f"{be}:{r['o']}", 0) + 1


# ======================================================================= ONE ValidationConfig object re-used over several calls
VIAS = ["validate_data", "read_to_memory", "geff.read"]


def _cfg_step_call(step, cfg):
    """run one step with the given ValidationConfig object; returns the classified outcome"""
    import geff
    import zarr
    from geff.core_io import write_arrays
    from geff.core_io._base_read import read_to_memory
    from geff.validate.data import validate_data

    cc = {"declared": step["declared"], "track_order": step.get("track_order"), "d": 2}
    g = _dispatch_geff(step.get("shape", "path"), step["bad"], reader_decl_of(cc))
    if step["via"] == "validate_data":
        return _classify(_outcome(lambda: validate_data(g, cfg)))
    st = zarr.storage.MemoryStore()
    write_arrays(st, g["node_ids"], g["node_props"], g["edge_ids"], {}, g["metadata"], structure_validation=False)
    arg = dict((lo, a) for lo, a, _ in reader_reads({**cc, "reads": None}))[step.get("load", "all")]
    if step["via"] == "read_to_memory":
        return _classify(_outcome(lambda: read_to_memory(st, structure_validation=False, node_props=arg, data_validation=cfg)))
    return _classify(_outcome(lambda: geff.read(st, structure_validation=False, node_props=arg, data_validation=cfg, backend="networkx")))


def impl_config_history(c):
    """ONE ValidationConfig object handed to a sequence of validate_data / read_to_memory / geff.read calls over geffs
    with different declarations; after each call the object is dumped again, and the same call is repeated with a
    FRESH config equal to the original one"""
    from geff.validate.data import ValidationConfig

    orig = dict(zip(FLAGS, c["config"]))
    shared = ValidationConfig(**orig)
    steps = []
    for st in c["steps"]:
        before = shared.model_dump()
        r_shared = _cfg_step_call(st, shared)
        after = shared.model_dump()
        fresh = ValidationConfig(**orig)
        r_fresh = _cfg_step_call(st, fresh)
        steps.append({"shared": r_shared, "fresh": r_fresh, "config_before": before, "config_after": after,
                      "fresh_config_after": fresh.model_dump()})
    return {"steps": steps}


def config_history_cases(rng, n_random):
    sets = [[], ["lineage"], ["tracklet"], ["tracklet", "lineage"], ["sphere"], ["ellipsoid"], ["sphere", "ellipsoid"],
            ["sphere", "ellipsoid", "tracklet", "lineage"]]
    full = ["sphere", "ellipsoid", "tracklet", "lineage"]
    all_on = [True] * 5
    # a geff lacking a declaration first, then a fully declared one holding invalid data for that validator
    for via1 in VIAS:
        for via2 in VIAS:
            for lacking, v in ((["lineage"], "tracklet"), (["tracklet"], "lineage"), ([], "tracklet"), ([], "sphere"),
                               (["ellipsoid"], "sphere"), (["sphere"], "ellipsoid"), (["tracklet", "lineage"], "ellipsoid")):
                for cfg in (all_on, [f == v for f in FLAGS]):
                    yield {"kind": "config_history", "config": cfg,
                           "steps": [{"via": via1, "declared": lacking, "bad": [], "load": "all"},
                                     {"via": via2, "declared": full, "bad": [v], "load": "all"},
                                     {"via": via2, "declared": full, "bad": [], "load": "all"}]}
    # an excluded (declared but not loaded) id property first
    for v in ("tracklet", "lineage", "sphere", "ellipsoid"):
        for via2 in VIAS:
            yield {"kind": "config_history", "config": [f == v for f in FLAGS],
                   "steps": [{"via": "read_to_memory", "declared": full, "bad": [], "load": f"exclude:{v}"},
                             {"via": via2, "declared": full, "bad": [v], "load": "all"}]}
    for _ in range(n_random):
        steps = []
        for _k in range(rng.randint(2, 4)):
            dset = rng.choice(sets)
            via = rng.choice(VIAS) if rng.random() < 0.5 else "validate_data"
            load = "all"
            if via != "validate_data" and dset and rng.random() < 0.3:
                load = rng.choice(["declared-only"] + [f"exclude:{v}" for v in dset])
            step = {"via": via, "declared": dset, "bad": [v for v in dset if rng.random() < 0.35], "load": load}
            if "tracklet" in dset and "lineage" in dset and rng.random() < 0.5:
                step["track_order"] = "lineage,tracklet"
            steps.append(step)
        yield {"kind": "config_history", "config": [rng.random() < 0.6 for _ in range(5)], "steps": steps}


def judge_config_history(ck, c, im):
    ck.case(c, f"config_history:steps={len(c['steps'])}:" + "+".join(sorted({st['via'] for st in c['steps']})), nontrivial=True)
    for k, (st, r) in enumerate(zip(c["steps"], im["steps"])):
        cc = {"declared": st["declared"], "bad": st["bad"], "d": 2}
        arg = dict((lo, a) for lo, a, _ in reader_reads({**cc, "reads": None}))[st.get("load", "all")]
        want, keyerr = reader_expected(cc, st.get("load", "all"), arg, c["config"])
        for which, before, after in (("shared", r["config_before"], r["config_after"]),
                                     ("fresh", dict(zip(FLAGS, c["config"])), r["fresh_config_after"])):
            if before != after:
                ck.fail("C12:validate-modifies-config",
                        f"{st['via']} changed the caller's ValidationConfig from {before} to {after} (step {k}, geff declaring {st['declared']})",
                        c, r, "config unchanged")
                break
        def norm(o):  # noqa: E306
            return None if o["o"] == "ok" else (o.get("call") if o["o"] == "ValueError" else o["o"])
        gs, gf = norm(r["shared"]), norm(r["fresh"])
        if gs != gf:
            ck.fail("C12:config-reuse-changes-verdict",
                    f"step {k} ({st['via']}, geff declaring {st['declared']}, invalid {st['bad']}): re-used config object gives {gs}, "
                    f"a fresh equal config gives {gf}", c, r, gf)
        if not (keyerr and gf == "KeyError") and gf != want:
            ck.fail("C12:config-history-fresh-verdict", f"step {k} ({st['via']}) with a fresh config: got {gf}, expected {want}", c, r, want)


# ======================================================================= histories on one in-memory geff; array variants
def impl_history(c):
    """a sequence of validate_data calls on the SAME in-memory geff object (config and directedness vary);
    every array is snapshotted before and after each call"""
    from geff.validate.data import ValidationConfig, validate_data

    src = c["geff"]
    if "shape" in src:
        g = _dispatch_geff(src["shape"], src["bad"], src["decl"], variant=c["variant"])
    else:
        dt = np.dtype(src["dtype"])
        g = {"metadata": _meta(), "node_ids": variant_array(np.asarray(src["ids"], dtype=dt), c["variant"]),
             "edge_ids": variant_array(np.asarray(src["edges"], dtype=dt).reshape(-1, 2), c["variant"]),
             "node_props": {}, "edge_props": {}}
    steps = []
    for st in c["steps"]:
        g["metadata"].directed = st["directed"]
        before = snapshot(g)
        r = _classify(_outcome(lambda st=st: validate_data(g, ValidationConfig(**dict(zip(FLAGS, st["config"]))))))
        r["modified"] = snapshot_diff(before, snapshot(g))
        steps.append(r)
    return {"steps": steps}


def history_expected(c, st):
    src = c["geff"]
    if "shape" in src:
        _, want = dispatch_expected({"shape": src["shape"], "bad": src["bad"], "decl": src["decl"], "config": st["config"]})
        return want
    if not st["config"][0]:
        return None
    o = graph_oracle(src["ids"], src["edges"])
    if o["valid_directed" if st["directed"] else "valid_undirected"]:
        return None
    return "graph-error"


def history_cases(rng, n_graph, n_dispatch):
    fixed = [
        {"dtype": "int64", "ids": [1, 2, 3], "edges": [[1, 2], [2, 1], [3, 1]]},      # valid directed, repeated undirected
        {"dtype": "int64", "ids": [1, 2, 3], "edges": [[2, 1], [3, 2], [3, 1]]},      # valid both ways, rows not in (min,max) order
        {"dtype": "uint8", "ids": [0, 255, 7], "edges": [[255, 0], [7, 255]]},
    ]
    g_on, g_off = [True, False, False, False, False], [False] * 5
    seqs = [[(False, g_on), (True, g_on)], [(False, g_on), (True, g_on), (False, g_on)], [(True, g_on), (False, g_on), (True, g_on)],
            [(False, g_off), (False, g_on), (True, g_on)]]
    for src in fixed:
        for seq in seqs:
            for v in VARIANTS:
                yield {"kind": "history", "geff": src, "variant": v, "steps": [{"directed": d, "config": cf} for d, cf in seq]}
    for i in range(n_graph):
        gc = graph_random(rng)
        if not gc["edges"]:
            continue
        k = rng.randint(2, 4)
        yield {"kind": "history", "geff": {"dtype": gc["dtype"], "ids": gc["ids"], "edges": gc["edges"]}, "variant": VARIANTS[i % len(VARIANTS)],
               "steps": [{"directed": rng.random() < 0.5, "config": [rng.random() < 0.85, False, False, False, False]} for _ in range(k)]}
    shapes = list(GRAPH_SHAPES)
    for i in range(n_dispatch):
        shape = shapes[i % len(shapes)]
        can = GRAPH_SHAPES[shape][2]
        bad = ALWAYS_BAD.get(shape, []) + [f for f in can if rng.random() < 0.25]
        yield {"kind": "history", "geff": {"shape": shape, "bad": bad, "decl": rng.choice(STORE_DECLS)},
               "variant": VARIANTS[(i // len(shapes)) % len(VARIANTS)],
               "steps": [{"directed": rng.random() < 0.5, "config": [rng.random() < 0.5 for _ in range(5)]} for _ in range(rng.randint(2, 4))]}


def judge_history(ck, c, im):
    form = "dispatch" if "shape" in c["geff"] else "graph"
    ck.case(c, f"history:{form}:{c['variant']}:steps={len(c['steps'])}", nontrivial=True)
    for k, (st, r) in enumerate(zip(c["steps"], im["steps"])):
        want = history_expected(c, st)
        if r["modified"]:
            ck.fail("C12:validate_data-modifies-input",
                    f"validate_data changed its input arrays {r['modified']} (step {k}, directed={st['directed']}, config={st['config']})",
                    c, r, "inputs unchanged")
        got = None if r["o"] == "ok" else (r.get("call") if form == "dispatch" else
                                          ("graph-error" if r["o"] == "ValueError" and r.get("call") in CALLS[:4] else r["o"]))
        if (r["o"] == "TypeError" and c["variant"] == "bigendian" and c["geff"].get("dtype") == "uint64"
                and max(c["geff"]["ids"] + [x for e in c["geff"]["edges"] for x in e]) >= 2 ** 63):
            ck.fail("C12:bigendian-uint64-isin-typeerror",
                    "validate_nodes_for_edges raises numpy's TypeError on big-endian uint64 ids >= 2^63 (np.isin table method)", c, r, want)
        elif r["o"] not in ("ok", "ValueError"):
            key = "C12:array-variant-exception" if c["variant"] != "plain" else "C12:history-exception"
            ck.fail(key, f"validate_data raised {r['o']}: {r.get('msg', '')} on {c['variant']} input arrays (step {k})", c, r, want)
        elif got != want:
            key = "C12:history-dependent-verdict" if k > 0 else ("C12:array-variant-verdict" if c["variant"] != "plain" else "C12:history-first-step")
            ck.fail(key, f"step {k} (directed={st['directed']}, config={st['config']}, arrays {c['variant']}): got {got}, expected {want}", c, r, want)


# ======================================================================= lineage ids with a missing mask (D14)
def lineage_oracle(c):
    """C14's definition on the labelled nodes: every id class is exactly one weakly connected component of the
    whole graph (unlabelled nodes and phantom endpoints included as vertices)"""
    m = c["missing"]
    keep = [i for i in range(len(c["nodes"])) if m is None or not m[i]]
    nodes = [c["nodes"][i] for i in keep]
    labels = [c["labels"][i] for i in keep]
    parent = {}

    def find(x):
        parent.setdefault(x, x)
        while parent[x] != x:
            parent[x] = parent[parent[x]]
            x = parent[x]
        return x
    for n in c["nodes"]:
        find(n)
    for u, v in c["edges"]:
        parent[find(u)] = find(v)
    comp = {}
    for x in list(parent):
        comp.setdefault(find(x), set()).add(x)
    classes = {}
    for n, l in zip(nodes, labels):
        classes.setdefault(l, set()).add(n)
    bad = [l for l, cls in classes.items() if comp[find(next(iter(cls)))] != cls]
    return not bad, bad


def impl_lineage(c):
    from geff.validate.data import ValidationConfig, validate_data

    m = c["missing"]
    md = _meta(track={"lineage": "lin"}, props=[("lin", "int64")])
    v = c.get("variant", "plain")
    g = {"metadata": md, "node_ids": variant_array(np.asarray(c["nodes"], dtype=np.int64), v),
         "edge_ids": variant_array(np.asarray(c["edges"], dtype=np.int64).reshape(-1, 2), v),
         "node_props": {"lin": {"values": variant_array(np.asarray(c["labels"], dtype=np.int64), v),
                                "missing": None if m is None else variant_array(np.asarray(m, dtype=bool), v)}}, "edge_props": {}}
    before = snapshot(g)
    r = _impl_lineage_run(g)
    mod = snapshot_diff(before, snapshot(g))
    if mod:
        r["modified"] = mod
    return r


def _impl_lineage_run(g):
    from geff.validate.data import ValidationConfig, validate_data

    try:
        validate_data(g, ValidationConfig(lineage=True))
        return {"valid": True, "bad": []}
    except ValueError as ex:
        if len(ex.args) == 2 and str(ex.args[0]).startswith("Found invalid lineages"):
            import re
            return {"valid": False, "bad": [int(re.match(r"Lineage (-?\d+):", ln).group(1)) for ln in ex.args[1].split("\n")]}
        return {"o": "ValueError"}
    except Exception as ex:  # noqa: BLE001
        return {"o": type(ex).__name__}


def lineage_cases(rng, nmax, nrand):
    from harness.corr.C13 import digraphs, set_partitions

    for n in range(1, nmax + 1):
        for edges in digraphs(n):
            for mask in range(0, 2 ** n):
                miss = [bool(mask >> i & 1) for i in range(n)]
                present = [i for i in range(n) if not miss[i]]
                for lab in set_partitions(len(present)):
                    labels = [0] * n
                    for i, x in zip(present, lab):
                        labels[i] = x
                    yield {"kind": "lineage_masked", "nodes": list(range(n)), "labels": labels, "edges": edges,
                           "missing": miss if mask else None}
    for _ in range(nrand):   # TrackMate-like: tracks (trees) plus lone unlabelled spots
        n = rng.randint(2, 14)
        nodes = rng.sample(range(0, 60), n)
        edges, labels, missing = [], [0] * n, [False] * n
        comp = list(range(n))
        for i in range(1, n):
            if rng.random() < 0.6:
                j = rng.randrange(i)
                edges.append([nodes[j], nodes[i]])
                old, new = comp[i], comp[j]
                comp = [new if x == old else x for x in comp]
        for i in range(n):
            lone = comp.count(comp[i]) == 1
            if lone and rng.random() < 0.7:
                missing[i] = True
            else:
                labels[i] = comp[i] + 1 if rng.random() < 0.5 else comp[i]
        r = rng.random()
        if r < 0.15:
            missing[rng.randrange(n)] = True
        elif r < 0.3:
            labels[rng.randrange(n)] = rng.choice(labels)
        yield {"kind": "lineage_masked", "nodes": nodes, "labels": labels, "edges": edges, "missing": missing,
               "variant": VARIANTS[rng.randrange(len(VARIANTS))]}


def judge_lineage(ck, c, im, mo):
    want_valid, want_bad = lineage_oracle(c)
    masked = c["missing"] is not None and any(c["missing"])
    ck.case(c, "lineage_masked:" + ("valid" if want_valid else "invalid") + (":some-unlabelled" if masked else ""),
            nontrivial=bool(c["edges"]) or len(c["nodes"]) > 1)
    if im.get("modified"):
        ck.fail("C12:validate_data-modifies-input", f"validate_data(lineage=True) changed its input arrays {im['modified']}", c, im, "inputs unchanged")
    if "o" in im:
        ck.fail("C12:lineage-masked-exception", f"validate_data(lineage=True) raised {im['o']}", c, im, want_valid)
    elif im["valid"] != want_valid or im["bad"] != want_bad:
        ck.fail("C12:lineage-ids-missing-mask-ignored" if masked else "C12:lineage-through-validate_data",
                f"validate_data(lineage=True) gave valid={im['valid']} bad={im['bad']}; the labelled nodes' lineages are "
                f"valid={want_valid} bad={want_bad}" + (" (ids flagged missing must not be read as lineage 0)" if masked else ""),
                c, im, {"valid": want_valid, "bad": want_bad})
    if mo is not None:
        if "err" in mo or "o" in mo:
            ck.corr_broken("C12:driver/lineage_masked", c, im, mo)
        elif "o" not in im and (mo["valid"] != im["valid"] or [int(x) for x in mo["bad"]] != im["bad"]):
            ck.corr_broken("C12:nodesWithId+validateLineages", c, im, mo)


# ======================================================================= the check
IMPL = {"graph": impl_graph, "sphere": impl_sphere, "ellipsoid_shape": impl_ell_shape,
        "ellipsoid_float": impl_ell_float, "dispatch": impl_dispatch, "lineage_masked": impl_lineage,
        "dispatch_store": impl_dispatch_store, "history": impl_history, "reader_decl": impl_reader_decl,
        "config_history": impl_config_history,
        "ellipsoid_exact": lambda c: _c12_ell.impl(c, _outcome, _meta),
        "np_prim": lambda c: _c12_gen.impl(c),
        "reader_byteorder": lambda c: _c12_bo.impl(c, _meta)}


def impl_obs(c):
    return IMPL[c["kind"]](c)


def model_reqs(c):
    k = c["kind"]
    if k == "graph":   # the hand-written model (both directednesses), then the GENERATED validators (translator T11)
        base = {"op": "graph", "ids": [str(x) for x in c["ids"]], "edges": [[str(a), str(b)] for a, b in c["edges"]]}
        return [{**base, "directed": True}, {**base, "directed": False}] + _c12_gen.gen_reqs(c)
    if k == "sphere":
        return [{"op": "sphere", "ndim": len(c["shape"]), "flat": sphere_flat_for_model(c) if len(c["shape"]) == 1 else [],
                 "missing": c["missing"]}] + _c12_gen.gen_reqs(c)
    if k == "np_prim":
        return _c12_gen.reqs(c)
    if k == "ellipsoid_shape":
        return [{"op": "ellipsoid_shape", "axes": c["axes"], "shape": c["shape"]}]
    if k == "dispatch":
        return [dispatch_req(c)]
    if k == "ellipsoid_float":
        return [ell_float_req(c)]
    if k == "ellipsoid_exact":
        return [_c12_ell.req(c)]
    if k == "lineage_masked":
        return [{"op": "lineage_masked", "nodes": [str(x) for x in c["nodes"]], "labels": [str(x) for x in c["labels"]],
                 "edges": [[str(a), str(b)] for a, b in c["edges"]], "missing": c["missing"]}]
    return []


def corpus():
    d = common.VERIF / "harness" / "corpus" / PROP
    for f in sorted(d.glob("*.json")):
        yield json.loads(f.read_text())


def alphabet_of(dt):
    lo, hi = lim(dt)
    return [0, 1, hi]


def alphabet_min(dt):
    lo, hi = lim(dt)
    return [lo, 1, hi]


def run(ck: common.Check):
    ck.prove(["GeffProps.C12", "GeffProps.C12Ellipsoid", "GeffProps.C12Gen", "GeffProps.C12ByteOrder"])
    ck.rule = ("graph: corpus + ALL id lists (<=3) x edge lists (quick: <=3 ids x <=2 edges and <=2 ids x 3 edges; thorough: <=3 x <=3) over the alphabet {0,1,max(dtype)} "
               "(and {min,1,max} for <=2 ids, <=2 edges), dtypes round-robin over the 8 integer dtypes (thorough: every dtype "
               "for <=2 ids, <=2 edges), each evaluated for the four validators and for validate_data under directed and "
               "undirected metadata + seeded random mostly-valid graphs with single defects and values at the dtype limits; "
               "sphere: special values (+-0, +-inf, NaN, denormals) x mask + random arrays of rank 0-3; ellipsoid_shape: axes "
               "lists with 0-4 space axes x shapes of rank 0-5 with extents 0-4; ellipsoid_exact: exact-rational stacks (d=1,2,3; B^T B+eps I, prescribed smallest eigenvalue from 2^-6 through 0 to -3, "
               "asymmetry = factor x (atol+rtol|b|) for factors 1e-3..1e6 in every off-diagonal position, one ulp, tiny magnitudes, singular, diagonal with zero, finite junk under the mask, "
               "scales 2^-300..2^300, float32, 8 integer dtypes) classified by explicit margins on the exact entries; ellipsoid_float (differential only): A=B^T B+I "
               "vs asymmetry>=0.1 or an eigenvalue<=-0.1, junk under the mask; dispatch: all 2^5 configs x 24 declarations (track_node_props None / {} / each key alone / both keys in BOTH insertion orders, the property dicts following the same order) x "
               "invalid-data sets x data present/absent; lineage_masked: all digraphs on <=3 nodes x every missing mask x "
               "labellings of the rest + random forests with lone unlabelled nodes; reader_byteorder: graphs over {0, 1, byteswapped 1} "
               "(ALL id lists <=2 x edge lists <=1 under the four byte-order pairs of zarr format 2 + one of format 3; 3 ids x <=1 edge and 2 ids x 2 edges under one "
               "rotating (format, node order, edge order) combination; thorough: <=3 x <=1 under all 8 combinations, 2 edges under the v2 pairs), hand-picked graphs "
               "(valid path, absent node whose byteswapped image is a node, self / repeated edge, dtype limits) x 8 dtypes x every combination, random graphs at the "
               "dtype limits biased to mixed orders in format 2; each read through read_to_memory with structure validation on and off and through geff.read / "
               "GeffReader.build + validate_data (structure validation alternating); non-trivial = non-empty input / some flag on")
    cases = list(corpus())
    n_corpus = len(cases)
    if ck.quick:   # <=3 ids x <=2 edges, and <=2 ids x <=3 edges (thorough: <=3 x <=3)
        cases.extend(graph_exhaustive(alphabet_of, 3, 2, INT_DTYPES))
        cases.extend(c for c in graph_exhaustive(alphabet_of, 2, 3, INT_DTYPES) if len(c["edges"]) == 3)
    else:
        cases.extend(graph_exhaustive(alphabet_of, 3, 3, INT_DTYPES))
    cases.extend(graph_exhaustive(alphabet_min, 2, 2, INT_DTYPES))
    if not ck.quick:
        for dt in INT_DTYPES:
            cases.extend(graph_exhaustive(alphabet_of, 2, 2, [dt]))
            cases.extend(graph_exhaustive(alphabet_min, 2, 2, [dt]))
    n_exh = len(cases) - n_corpus
    for _ in range(4000 if ck.quick else 80000):
        cases.append(graph_random(ck.rng))
    cases.extend(sphere_cases(ck.rng, 1500 if ck.quick else 20000))
    cases.extend(ell_shape_cases(full=not ck.quick))
    cases.extend(ell_float_cases(ck.rng, 1200 if ck.quick else 15000))
    cases.extend(ell_float_systematic(ck.rng, rotations=4 if ck.quick else 24))
    import random as _random
    cases.extend(_c12_gen.cases(_random.Random(f"C12-np-prim:{ck.seed}"), ck.quick))   # numpy primitive library (own PRNG)
    cases.extend(_c12_ell.cases(_random.Random(f"C12-ellipsoid-exact:{ck.seed}"), ck.quick))   # own PRNG: the other streams keep their seeds
    cases.extend(dispatch_cases(full=not ck.quick))
    cases.extend(lineage_cases(ck.rng, 3, 1500 if ck.quick else 20000))
    cases.extend(history_cases(ck.rng, 600 if ck.quick else 8000, 600 if ck.quick else 8000))
    store_cases = list(dispatch_store_cases(full=not ck.quick)) + list(reader_decl_cases(full=not ck.quick))
    store_cases += list(config_history_cases(ck.rng, 80 if ck.quick else 3000))
    ck.extra["corpus_cases"] = n_corpus
    ck.extra["graph_exhaustive_cases"] = n_exh

    impl = common.pmap(impl_obs, cases, chunksize=128)
    reqs, spans = [], []
    for c in cases:
        r = model_reqs(c)
        spans.append((len(reqs), len(reqs) + len(r)))
        reqs.extend(r)
    drv = ck.driver()
    model = drv.ask(reqs)
    if model is None:
        ck.broken.append({"what": "driver Drivers/C12.lean", "detail": drv.broken})
    per_kind = {}
    for c, im, (a, b) in zip(cases, impl, spans):
        mo = None if model is None else model[a:b]
        k = c["kind"]
        per_kind[k] = per_kind.get(k, 0) + 1
        if k == "graph":
            judge_graph(ck, c, im, mo[:2] if mo else None)
            _c12_gen.judge_gen(ck, c, im, mo[2:] if mo else None)
        elif k == "sphere":
            judge_sphere(ck, c, im, mo[0] if mo else None)
            _c12_gen.judge_gen(ck, c, im, mo[1:] if mo else None)
        elif k == "np_prim":
            _c12_gen.judge(ck, c, im, mo)
        elif k == "ellipsoid_shape":
            judge_ell_shape(ck, c, im, mo[0] if mo else None)
        elif k == "ellipsoid_float":
            judge_ell_float(ck, c, im, mo[0] if mo else None)
        elif k == "ellipsoid_exact":
            _c12_ell.judge(ck, c, im, mo[0] if mo else None)
        elif k == "dispatch":
            judge_dispatch(ck, c, im, mo[0] if mo else None)
        elif k == "lineage_masked":
            judge_lineage(ck, c, im, mo[0] if mo else None)
        elif k == "history":
            judge_history(ck, c, im)
        elif k == "dispatch_store":
            judge_dispatch_store(ck, c, im)
        elif k == "reader_decl":
            judge_reader_decl(ck, c, im)
        elif k == "config_history":
            judge_config_history(ck, c, im)
    # the dispatch grid through stores and the reader (one store per case, read under all 32 configs)
    for c, im in zip(store_cases, common.pmap(impl_obs, store_cases, chunksize=1) if len(store_cases) >= 64
                     else [impl_obs(c) for c in store_cases]):
        per_kind[c["kind"]] = per_kind.get(c["kind"], 0) + 1
        if c["kind"] == "dispatch_store":
            judge_dispatch_store(ck, c, im)
        elif c["kind"] == "config_history":
            judge_config_history(ck, c, im)
        else:
            judge_reader_decl(ck, c, im)
    # graph validation on read x byte order of each stored id array (own PRNG; the model request needs the raw bytes
    # read back from the store, so the driver is asked after the implementation side)
    bo_cases = list(_c12_bo.cases(_random.Random(f"C12-reader-byteorder:{ck.seed}"), ck.quick, graph_random))
    bo_impl = common.pmap(impl_obs, bo_cases, chunksize=16)
    bo_idx = [i for i, im in enumerate(bo_impl) if "raw" in im]
    bo_model = drv.ask([_c12_bo.req(bo_cases[i], bo_impl[i]) for i in bo_idx]) if model is not None else None
    bo_mo = dict(zip(bo_idx, bo_model)) if bo_model is not None else {}
    if model is not None and bo_model is None:
        ck.broken.append({"what": "driver Drivers/C12.lean (op read_bytes)", "detail": drv.broken})
    for i, (c, im) in enumerate(zip(bo_cases, bo_impl)):
        per_kind[c["kind"]] = per_kind.get(c["kind"], 0) + 1
        _c12_bo.judge(ck, c, im, bo_mo.get(i))
    ck.extra["cases_per_kind"] = per_kind
    # a sample of the graph cases through a store and read_to_memory(data_validation=graph)
    gs = [c for c in cases if c["kind"] == "graph" and c["ids"]]
    sample = ck.rng.sample(gs, min(len(gs), 150 if ck.quick else 1500))
    n_store = 0
    for c, r in zip(sample, common.pmap(impl_graph_via_store, sample, chunksize=8)):
        o = graph_oracle(c["ids"], c["edges"])
        for d in ("directed", "undirected"):
            if r[d]["o"].startswith("write-failed"):
                continue
            n_store += 1
            if (r[d]["o"] == "ok") != o["valid_" + d] or r[d]["o"] not in ("ok", "ValueError"):
                ck.fail("C12:read_to_memory-graph", f"read_to_memory(data_validation=graph, {d}) gave {r[d]}, graph valid={o['valid_' + d]}",
                        c, r[d], o["valid_" + d])
    ck.extra["graph_through_store_and_read_to_memory"] = n_store
    ck.extra["explanation"] = ("symmetric / positive-definite stage of validate_ellipsoid: exact rational model (isSymmetric, Sylvester's criterion "
                           "proved equivalent to positive-definiteness for sides 1-3, np.allclose's criterion read exactly; GeffProps.C12Ellipsoid), "
                           "tied by the stream ellipsoid_exact on matrices robustly inside / outside (explicit margins); binary64 rounding inside "
                           "np.allclose / LAPACK is NOT modelled: cases within the margin are counted as rounding-sensitive and only checked for "
                           "exception-freedom; NaN / inf entries by differential testing only (kind ellipsoid_float)")
    ck.assumptions += [
        "numpy unique / isin / == / sort are exact on same-dtype integer arrays up to 2^64-1 (model integers are unbounded "
        "Int); exercised for all 8 integer dtypes with values at both limits",
        "PARTIAL: the symmetric / positive-definite stage of validate_ellipsoid is modelled in exact rational arithmetic "
        "(GeffModel/Ellipsoid.lean: exact symmetry, np.allclose's |a-b| <= atol + rtol*|b| read exactly, Sylvester's criterion; "
        "'all eigenvalues > 0' of a symmetric real matrix is read as positive-definiteness by the spectral theorem); the binary64 / "
        "binary32 rounding of np.allclose and LAPACK geev is not modelled: the real validator must agree with the exact model on "
        "every stack whose unmasked matrices are robust (asymmetry 0 or beyond the allclose threshold by a factor 1 +- 2^-30 "
        "[2^-12 for float32]; every leading minor >= 2^-20 M^k or one <= -2^-20 M^k, M = largest |entry| [2^-8 for float32]; exactly "
        "diagonal matrices always), the others are counted as rounding-sensitive (exception-freedom only); side >= 4 and NaN / inf "
        "entries are outside the theorems (differential stream ellipsoid_float)",
        "radii: the model sees a float only through its binary64 bit pattern and the comparison < 0 (NaN and -0.0 are not negative)",
        "edge arrays have shape (E, 2) and the same dtype as the node ids (InMemoryGeff invariant, checked by structure validation)",
        "array layout in memory (read-only, non-contiguous, Fortran order, non-native byte order of an in-memory array) is "
        "beneath the model; it is varied in the correspondence (kind history); numpy 2.5's np.isin raises TypeError for "
        "big-endian uint64 arrays holding values >= 2^63 (known finding C12:bigendian-uint64-isin-typeerror)",
        "byte order of the STORED id arrays (per array, nodes/ids and edges/ids independently): modelled in GeffModel/ByteOrder.lean "
        "as 'zarr + numpy hand out every item decoded by the byte order recorded for its own array' (proved value preserving for "
        "every width, signedness and pair of byte orders: GeffProps.C12ByteOrder); that zarr records and applies the byte order "
        "this way (format 2: dtype string; format 3: bytes codec) is an assumption tied by the stream reader_byteorder, which "
        "feeds the model the raw chunk bytes and the recorded byte order read back from the store under test",
    ]


def replay(rp):
    c = rp["case"]
    im = impl_obs(c)

    class R:  # minimal stand-in for Check
        def __init__(self):
            self.f = []
            self.extra = {}

        def case(self, *a, **k):
            pass

        def fail(self, key, what, *a, **k):
            self.f.append((key, what))

        def corr_broken(self, *a, **k):
            pass
    r = R()
    k = c["kind"]
    if k == "graph":
        judge_graph(r, c, im, None)
        if rp.get("key") == "C12:read_to_memory-graph":
            vs = impl_graph_via_store(c)
            o = graph_oracle(c["ids"], c["edges"])
            im = {**im, "via_store": vs}
            for d in ("directed", "undirected"):
                if not vs[d]["o"].startswith("write-failed") and (vs[d]["o"] == "ok") != o["valid_" + d]:
                    r.fail("C12:read_to_memory-graph", f"read_to_memory(data_validation=graph, {d}) gave {vs[d]}")
    elif k == "sphere":
        judge_sphere(r, c, im, None)
    elif k == "ellipsoid_shape":
        judge_ell_shape(r, c, im, None)
    elif k == "ellipsoid_float":
        judge_ell_float(r, c, im)
    elif k == "ellipsoid_exact":
        _c12_ell.judge(r, c, im, None)
    elif k == "np_prim":
        pass   # model/numpy correspondence only: nothing to replay on geff
    elif k == "dispatch":
        judge_dispatch(r, c, im, None)
    elif k == "lineage_masked":
        judge_lineage(r, c, im, None)
    elif k == "history":
        judge_history(r, c, im)
    elif k == "dispatch_store":
        judge_dispatch_store(r, c, im)
    elif k == "reader_decl":
        judge_reader_decl(r, c, im)
    elif k == "config_history":
        judge_config_history(r, c, im)
    elif k == "reader_byteorder":
        _c12_bo.judge(r, c, im, None)
    print(json.dumps({"case": c, "impl": im, "failures": r.f}, default=str))
    print("REPLAY: property holds on this input" if not r.f else "REPLAY: property FAILS on this input")
    return 0 if not r.f else 1
