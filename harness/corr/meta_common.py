"""Shared pieces of the metadata checks (C07, C08): the wire encoding of JSON documents for the
Lean drivers, the library tables of the model's `Env` (regular expression, numpy dtype names,
package version), an independent Python reading of the format's invariants, and the generators of
metadata documents / field values.

Everything that touches geff is imported lazily (after `common.setup_impl()`)."""
from __future__ import annotations

import math
import re

FIELD_NAMES = ["geff_version", "directed", "axes", "node_props_metadata", "edge_props_metadata", "sphere",
               "ellipsoid", "track_node_props", "related_objects", "display_hints", "extra"]
AXIS_TYPES = ["space", "time", "channel"]
INF = float("inf")
NAN = float("nan")


# ------------------------------------------------------------------ wire encoding of documents
def enc(v):
    """Python JSON-native value -> tagged form understood by GeffModel/MetaProto.lean (floats exact)."""
    if v is None or isinstance(v, bool):
        return v
    if isinstance(v, int):
        return {"i": str(v)}
    if isinstance(v, float):
        if v != v:
            return {"f": "nan"}
        if v == INF:
            return {"f": "inf"}
        if v == -INF:
            return {"f": "-inf"}
        if v == 0 and math.copysign(1.0, v) < 0:
            return {"f": "-0"}
        n, d = v.as_integer_ratio()
        return {"f": [str(n), str(d.bit_length() - 1)]}
    if isinstance(v, str):
        return v
    if isinstance(v, (list, tuple)):
        return [enc(x) for x in v]
    if isinstance(v, dict):
        return {"o": [[str(k), enc(x)] for k, x in v.items()]}
    raise TypeError(f"not JSON-native: {type(v).__name__}")


def canon(t):
    """tagged form with every object's entries sorted by key (Python dict equality ignores order)"""
    if isinstance(t, list):
        return [canon(x) for x in t]
    if isinstance(t, dict):
        if "o" in t:
            return {"o": sorted(([k, canon(x)] for k, x in t["o"]), key=lambda kv: kv[0])}
        return t
    return t


def dec(t):
    """tagged form -> Python value (inverse of enc)"""
    if t is None or isinstance(t, (bool, str)):
        return t
    if isinstance(t, list):
        return [dec(x) for x in t]
    if "i" in t:
        return int(t["i"])
    if "f" in t:
        f = t["f"]
        if f == "nan":
            return NAN
        if f == "inf":
            return INF
        if f == "-inf":
            return -INF
        if f == "-0":
            return -0.0
        return int(f[0]) / (1 << int(f[1])) if int(f[1]) < 1000 else math.ldexp(int(f[0]), -int(f[1]))
    return {k: dec(x) for k, x in t["o"]}


def dec_plain(t):
    """canonical tagged dump -> plain JSON-native Python (for re-validation with jsonschema)"""
    return dec(t)


def strings_of(v, out: set):
    if isinstance(v, str):
        out.add(v)
    elif isinstance(v, (list, tuple)):
        for x in v:
            strings_of(x, out)
    elif isinstance(v, dict):
        for k, x in v.items():
            out.add(str(k))
            strings_of(x, out)


# ------------------------------------------------------------------ the model's Env (library tables)
_np_cache: dict = {}
_re_cache: dict = {}


def np_name(s: str):
    """numpy's normalised dtype name as `PropMetadata._convert_dtype` computes it; None = TypeError;
    'WEIRD:<exc>' when numpy raises something else (such strings are never generated on purpose)."""
    if s in _np_cache:
        return _np_cache[s]
    import numpy as np

    try:
        dt = np.dtype(s)
        r = "str" if np.issubdtype(dt, np.str_) else dt.name
    except TypeError:
        r = None
    except Exception as e:  # noqa: BLE001
        r = f"WEIRD:{type(e).__name__}"
    _np_cache[s] = r
    return r


def version_pattern() -> str:
    from geff_spec import _schema

    return _schema.VERSION_PATTERN


def default_version() -> str:
    from geff_spec import _schema

    return _schema.GEFF_VERSION


def pattern_ok(s: str) -> bool:
    if s not in _re_cache:
        _re_cache[s] = re.search(version_pattern(), s) is not None
    return _re_cache[s]


def offset_len_checked() -> bool:
    """does this tree's axes_from_lists compare len(axis_offset) with len(axis_names)? (D17, C10's repair)"""
    from geff_spec.utils import axes_from_lists

    try:
        axes_from_lists(axis_names=["x"], axis_offset=[1.0, 2.0])
        return False
    except ValueError:
        return True
    except Exception:  # noqa: BLE001
        return False


def make_env(*values) -> dict:
    ss: set = set()
    for v in values:
        strings_of(v, ss)
    ss.add(default_version())
    ss = {s for s in ss if "\x00" not in s}
    # close the table under normalisation (a dump carries the normalised names)
    ss |= {n for n in (np_name(s) for s in ss) if n and not n.startswith("WEIRD:")}
    ss |= set(DTYPES_OK)
    return {"vok": sorted(s for s in ss if pattern_ok(s)),
            "np": [[s, np_name(s)] for s in sorted(ss)],
            "dv": default_version(), "offchk": _OFFCHK[0]}


def make_env_light(*values) -> dict:
    """env for requests that only evaluate a schema: the pattern table, no numpy table"""
    ss: set = set()
    for v in values:
        strings_of(v, ss)
    return {"vok": sorted(s for s in ss if "\x00" not in s and pattern_ok(s)), "np": [], "dv": ""}


_OFFCHK = [False]


def init_env():
    _OFFCHK[0] = offset_len_checked()


# ------------------------------------------------------------------ independent oracle: the invariants
def spec_violation(d: dict, valid_dtypes=None) -> str:
    """First violated clause of property C07 on a `model_dump()` (plain Python), or "valid".
    Written from the property text; does not look at the implementation's validators."""
    import geff_spec._valid_values as vv

    valid_dtypes = valid_dtypes or vv.VALID_DTYPES
    if not isinstance(d.get("geff_version"), str) or re.search(version_pattern(), d["geff_version"]) is None:
        return "version-pattern"
    axes = d.get("axes")
    if axes is not None:
        names = [a["name"] for a in axes]
        if len(set(names)) != len(names):
            return "duplicate-axis-names"
        for a in axes:
            if a["type"] is not None and a["type"] not in AXIS_TYPES:
                return "axis-type"
        for a in axes:
            if (a["min"] is None) != (a["max"] is None):
                return "axis-min-max-both-or-neither"
        for a in axes:
            for b in (a["min"], a["max"]):
                if b is not None and b != b:
                    return "nan-axis-bound"
        for a in axes:
            if a["min"] is not None and not (a["min"] <= a["max"]):
                return "axis-min-gt-max"
        for a in axes:
            if a["scaled_unit"] is not None and a["scaled_unit"] != "" and a["scale"] is None:
                return "scaled-unit-without-scale"
        h = d.get("display_hints")
        if h is not None:
            for k in ("display_horizontal", "display_vertical"):
                if h[k] not in names:
                    return "display-hint-unknown-axis"
            for k in ("display_depth", "display_time"):
                if h[k] is not None and h[k] not in names:
                    return "display-hint-unknown-axis"
    for fld in ("node_props_metadata", "edge_props_metadata"):
        for k, p in d[fld].items():
            if k != p["identifier"] or len(p["identifier"]) < 1 or p["dtype"] not in valid_dtypes:
                return "props-metadata"
    t = d.get("track_node_props")
    if t is not None:
        for k in t:
            if k not in ("lineage", "tracklet"):
                return "track-node-props-key"
    ro = d.get("related_objects")
    if ro is not None:
        for r in ro:
            if r["label_prop"] is not None and r["type"] != "labels":
                return "label-prop-on-non-labels"
    return "valid"


# ------------------------------------------------------------------ generators
NAMES = ["x", "y", "z", "t", "c", "é", "a b", "😀", "X", ""]
UNITS = [None, None, "micrometer", "pixel", "second", "frame", "furlong", "", "nanometer", "hour"]
NUMS = [0, 1, -1, 2, 3, 10, -7, 0.5, -0.5, 1.5, 0.1, 1e-3, 1e300, -1e300, 2 ** 53, 0.0, -0.0, 5e-324, 2.0, 100,
        INF, -INF]
DTYPES_OK = ["bool", "int8", "int16", "int32", "int64", "uint8", "uint16", "uint32", "uint64", "float32",
             "float64", "bytes", "str"]
DTYPES_ALIAS = ["int", "float", "<f8", "uint", "U5", "<i4", "f4", "u1", "?", "S", "double", "bool_"]
DTYPES_BAD = ["float16", "complex64", "object", "foo", "", "S5", "datetime64", "void", "varlength", "e", "f2"]


def num_le(a, b):
    return a <= b


def gen_axis(rng, name):
    a: dict = {"name": name}
    if rng.random() < 0.6:
        a["type"] = rng.choice(AXIS_TYPES + [None])
    if rng.random() < 0.5:
        a["unit"] = rng.choice(UNITS)
    if rng.random() < 0.5:
        lo, hi = rng.choice(NUMS), rng.choice(NUMS)
        if not lo <= hi:
            lo, hi = hi, lo
        a["min"], a["max"] = lo, hi
    elif rng.random() < 0.2:
        a["min"], a["max"] = None, None
    if rng.random() < 0.4:
        a["scale"] = rng.choice([x for x in NUMS if x != 0] + [None])
    if rng.random() < 0.3:
        su = rng.choice(UNITS)
        if su and a.get("scale") is None:
            a["scale"] = rng.choice([0.5, 2, 1, 0.25])
        a["scaled_unit"] = su
    if rng.random() < 0.3:
        a["offset"] = rng.choice(NUMS + [None])
    # non-finite values at a healthy rate: unbounded axes are valid metadata; NaN is allowed where no
    # invariant speaks about the field (scale, offset) — never in min/max (that is C07's known finding)
    r = rng.random()
    if r < 0.12:
        a["min"], a["max"] = rng.choice([(-INF, INF), (-INF, 5), (0.5, INF), (-INF, -INF), (INF, INF)])
    elif r < 0.2:
        a["scale"] = rng.choice([INF, -INF, NAN])
    elif r < 0.28:
        a["offset"] = rng.choice([INF, -INF, NAN])
    return a


def gen_axes(rng, kmax=4):
    k = rng.randint(0, kmax)
    return [gen_axis(rng, n) for n in rng.sample(NAMES, k)]


def gen_prop(rng, ident):
    p: dict = {"identifier": ident, "dtype": rng.choice(DTYPES_OK if rng.random() < 0.8 else DTYPES_ALIAS)}
    if rng.random() < 0.5:
        p["varlength"] = rng.random() < 0.5
    for k in ("unit", "name", "description"):
        if rng.random() < 0.3:
            p[k] = rng.choice([None, "", "µm", "some text", "😀 unit", "a\nb"])
    return p


def gen_props(rng, kmax=3):
    ids = rng.sample([n for n in NAMES if n] + ["seg_id", "score", "track"], rng.randint(0, kmax))
    return {i: gen_prop(rng, i) for i in ids}


def gen_props_permuted(rng):
    """props metadata whose identifiers are a non-trivial permutation of (some of) the keys"""
    ids = rng.sample([n for n in NAMES if n] + ["seg_id", "score", "track", "area"], rng.randint(2, 4))
    k = rng.randint(2, len(ids))
    moved = ids[:k]
    shift = rng.randint(1, k - 1)
    target = {a: moved[(i + shift) % k] for i, a in enumerate(moved)}
    return {i: gen_prop(rng, target.get(i, i)) for i in ids}


def gen_extra(rng, depth=0):
    def val(d):
        r = rng.random()
        if d >= 3 or r < 0.5:
            return rng.choice([None, True, False, 0, 1, -5, 2 ** 70, 1.5, -0.0, 1e308, "s", "", "ünï", "😀", 7, 0.25])
        if r < 0.75:
            return [val(d + 1) for _ in range(rng.randint(0, 3))]
        return {rng.choice(["a", "b", "k", "é", "geff", ""]): val(d + 1) for _ in range(rng.randint(0, 3))}
    return {rng.choice(["a", "b", "app", "é", "x y", "nested"]): val(depth) for _ in range(rng.randint(0, 3))}


def gen_doc(rng, small=False):
    """a random *valid* metadata document (JSON-native dict), optional keys present or absent"""
    d: dict = {"directed": rng.random() < 0.5}
    if rng.random() < 0.6:
        d["geff_version"] = rng.choice(["1.3", "0.3.1.dev6+g61d5f18", "1.2abc", "10.20.30", "0.0", "1.1.1+local"])
    axes = None
    if rng.random() < 0.7:
        axes = gen_axes(rng, 2 if small else 4)
        d["axes"] = axes
    elif rng.random() < 0.3:
        d["axes"] = None
    d["node_props_metadata"] = gen_props(rng, 1 if small else 3)
    d["edge_props_metadata"] = gen_props(rng, 1 if small else 2)
    for k in ("sphere", "ellipsoid"):
        if rng.random() < 0.3:
            d[k] = rng.choice([None, "r", "cov", "", "é"])
    if rng.random() < 0.3:
        d["track_node_props"] = rng.choice([None, {}, {"lineage": "l"}, {"tracklet": "t"},
                                            {"tracklet": "t", "lineage": "l"}])
    if rng.random() < 0.3:
        d["related_objects"] = rng.choice([None, [], [{"type": "labels", "path": "../seg", "label_prop": "seg_id"}],
                                           [{"type": "image", "path": "../raw"}, {"type": "labels", "path": "s"}],
                                           [{"type": "mesh", "path": "m", "label_prop": None}]])
    if rng.random() < 0.35:
        names = [a["name"] for a in axes] if axes is not None else NAMES
        if len(names) >= 1:
            h = {"display_horizontal": rng.choice(names), "display_vertical": rng.choice(names)}
            if rng.random() < 0.4:
                h["display_depth"] = rng.choice(names + [None])
            if rng.random() < 0.4:
                h["display_time"] = rng.choice(names + [None])
            d["display_hints"] = h
        else:
            d["display_hints"] = None
    if rng.random() < 0.4:
        d["extra"] = gen_extra(rng)
    return d


# --- free text that output layers like to interpret: console markup, emoji codes, ANSI escapes, format
#     directives, backslashes, long lines, blanks
TRICKY = ["[a.u.]", "[px]", "[um]", "[bold]", "[/bold]", "[BOLD]", "[Bold x]", "[red]x[/red]", "intensity [a.u.] (raw)",
          "[[nested]]", "[a[b]c]", "\\[escaped]", "\\\\[px]", "[link=http://x.y]z[/link]", "[#ff0000]", "[on red]x", "[/]", "[]", "[ ]",
          ":smiley:", ":warning: careful", "a:b:c", ":+1:", "\x1b[31mred\x1b[0m", "\x1b[2K", "{}", "{0}", "{name}", "%s", "%(x)d", "100%",
          "back\\slash", "C:\\data\\new", "\\n", "  leading", "trailing  ", " ", "\ttab\t", "line1\nline2", "a\rb",
          "long " + "word " * 60 + "end", "x" * 260, "<b>html</b>", "&amp;", "\"quoted\"", "'single'", "`tick`", "$HOME", "~", "#", "//",
          "😀 [px] :smiley:"]


def gen_doc_tricky(rng, everywhere=None):
    """a valid document whose free-text fields (axis names, units, identifiers, names, descriptions, paths, sphere /
    ellipsoid, track values, extra keys and values) are drawn from TRICKY; `everywhere` = put this one string in all"""
    def t():
        return everywhere if everywhere is not None else rng.choice(TRICKY)

    k = 2 if everywhere is not None else rng.randint(1, 3)
    names = [t() + ("" if i == 0 else f" #{i}") for i in range(k)]
    names = list(dict.fromkeys(names))
    axes = []
    for n in names:
        a = {"name": n, "unit": t(), "type": rng.choice(AXIS_TYPES + [None])}
        if rng.random() < 0.6 or everywhere is not None:
            a["scale"], a["scaled_unit"] = rng.choice([0.5, 2.0]), t()
        axes.append(a)
    ids = list(dict.fromkeys([t(), t() + "_2"]))
    pm = lambda i: {"identifier": i, "dtype": rng.choice(DTYPES_OK), "unit": t(), "name": t(), "description": t()}  # noqa: E731
    d = {"directed": rng.random() < 0.5, "axes": axes,
         "node_props_metadata": {i: pm(i) for i in ids}, "edge_props_metadata": {ids[0]: pm(ids[0])},
         "sphere": t(), "ellipsoid": t(), "track_node_props": {"lineage": t(), "tracklet": t()},
         "related_objects": [{"type": "labels", "path": t(), "label_prop": t()}, {"type": t() or "other", "path": t()}],
         "display_hints": {"display_horizontal": names[0], "display_vertical": names[-1], "display_depth": None,
                           "display_time": names[0]},
         "extra": {t(): t(), "list": [t(), {t(): [t()]}], "plain": 1}}
    return d


# --- catalogue of field values: (value, tag) ; tag "ok" = valid on every base that declares no
#     conflicting axes, "bad" = must be rejected, "ctx" = validity depends on the object, "gray" =
#     pydantic lax coercion (outside the model; only the specification is evaluated)
def catalogue():
    ax = lambda n, **kw: {"name": n, **kw}  # noqa: E731
    cat = {
        "geff_version": [("1.3", "ok"), ("0.3.1.dev6+g61d5f18", "ok"), ("1.2abc", "ok"), ("10.20.30", "ok"),
                         ("١.٢", "ok"), ("v1.2", "bad"), ("1", "bad"), ("", "bad"), ("abc", "bad"), (" 1.2", "bad"),
                         (None, "bad"), (5, "bad"), (1.3, "bad"), ([], "bad"), ({}, "bad"), (True, "bad")],
        "directed": [(True, "ok"), (False, "ok"), (None, "bad"), ("maybe", "bad"), (2, "bad"), ([], "bad"),
                     ({}, "bad"), (0.5, "bad"), (1, "gray"), (0, "gray"), ("yes", "gray"), ("false", "gray"),
                     (1.0, "gray")],
        "axes": [(None, "ok"), ([], "ctx"), ([ax("x")], "ctx"), ([ax("x"), ax("y")], "ctx"),
                 ([ax("x", type="space", unit="micrometer", min=0, max=10, scale=0.5, scaled_unit="nanometer", offset=-1.5),
                   ax("y", type="space"), ax("t", type="time", unit="frame")], "ctx"),
                 ([ax("x", min=-INF, max=INF)], "ctx"), ([ax("x", min=1, max=1)], "ctx"),
                 ([ax("x", min=-0.0, max=0.0)], "ctx"), ([ax("x", min=0.0, max=-0.0)], "ctx"),
                 ([ax("x", min=None, max=None, type=None, unit=None)], "ctx"),
                 ([ax("x", scaled_unit="", unit="")], "ctx"), ([ax("x", type="channel", unit="furlong")], "ctx"),
                 ([ax("x", scale=2, scaled_unit="meter")], "ctx"), ([ax("", type="time")], "ctx"),
                 ([ax("x", foo=1)], "ctx"),
                 ([ax("x"), ax("x")], "bad"), ([ax("x"), ax("y"), ax("x", type="time")], "bad"),
                 ([ax("x", min=1)], "bad"), ([ax("x", max=1)], "bad"), ([ax("x", min=2, max=1)], "bad"),
                 ([ax("x", min=INF, max=-INF)], "bad"), ([ax("x", min=0.5, max=0.25)], "bad"),
                 ([ax("x", min=1, max=None)], "bad"),
                 ([ax("x", scaled_unit="meter")], "bad"), ([ax("x", scaled_unit="meter", scale=None)], "bad"),
                 ([ax("x", type="foo")], "bad"), ([ax("x", type="Space")], "bad"), ([ax("x", type=5)], "bad"),
                 ([{"type": "space"}], "bad"), ([ax(5)], "bad"), ([ax(None)], "bad"), ([ax("x", unit=5)], "bad"),
                 ([ax("x", min="abc", max="abd")], "bad"), ([ax("x", scale=[])], "bad"), ([ax("x", offset={})], "bad"),
                 ("abc", "bad"), (5, "bad"), ({"name": "x"}, "bad"), ([5], "bad"), (["x"], "bad"), ([None], "bad"),
                 (True, "bad"),
                 ([ax("x", min=2 ** 53 + 1, max=2 ** 53)], "gray"), ([ax("x", scale="1.5")], "gray"), ([ax("x", offset=True)], "gray"),
                 ([ax("x", min=NAN, max=1.0)], "nan"), ([ax("x", min=0.0, max=NAN)], "nan"),
                 ([ax("x", min=NAN, max=NAN)], "nan")],
        "sphere": [(None, "ok"), ("r", "ok"), ("", "ok"), ("é😀", "ok"), (5, "bad"), ([], "bad"), ({}, "bad"),
                   (True, "bad"), (1.5, "bad")],
        "track_node_props": [(None, "ok"), ({}, "ok"), ({"lineage": "l"}, "ok"), ({"tracklet": "t", "lineage": "l"}, "ok"),
                             ({"tracklet": ""}, "ok"), ({"foo": "a"}, "bad"), ({"lineage": 5}, "bad"),
                             ({"lineage": None}, "bad"), ({"Lineage": "l"}, "bad"), ("abc", "bad"), ([], "bad"),
                             (5, "bad"), ({"lineage": "l", "x": "y"}, "bad")],
        "related_objects": [(None, "ok"), ([], "ok"), ([{"type": "labels", "path": "p", "label_prop": "seg"}], "ok"),
                            ([{"type": "image", "path": "q"}], "ok"), ([{"type": "other", "path": "q", "label_prop": None}], "ok"),
                            ([{"type": "labels", "path": ""}, {"type": "image", "path": "r", "zzz": 1}], "ok"),
                            ([{"type": "image", "path": "q", "label_prop": "x"}], "bad"),
                            ([{"type": "Labels", "path": "q", "label_prop": "x"}], "bad"),
                            ([{"type": "", "path": "q", "label_prop": ""}], "bad"),
                            ([{"type": "labels"}], "bad"), ([{"path": "p"}], "bad"), ([{"type": 5, "path": "p"}], "bad"),
                            ([{"type": "labels", "path": None}], "bad"), ("abc", "bad"), ([5], "bad"), ({}, "bad"),
                            (5, "bad")],
        "display_hints": [(None, "ok"), ({"display_horizontal": "x", "display_vertical": "y"}, "ctx"),
                          ({"display_horizontal": "x", "display_vertical": "x"}, "ctx"),
                          ({"display_horizontal": "x", "display_vertical": "y", "display_depth": "z", "display_time": "t"}, "ctx"),
                          ({"display_horizontal": "x", "display_vertical": "y", "display_depth": None, "display_time": "t"}, "ctx"),
                          ({"display_horizontal": "q", "display_vertical": "y"}, "ctx"),
                          ({"display_horizontal": "x", "display_vertical": "q"}, "ctx"),
                          ({"display_horizontal": "x", "display_vertical": "y", "display_depth": "q"}, "ctx"),
                          ({"display_horizontal": "x", "display_vertical": "y", "display_time": "q"}, "ctx"),
                          ({"display_horizontal": "x"}, "bad"), ({"display_vertical": "y"}, "bad"),
                          ({"display_horizontal": None, "display_vertical": "y"}, "bad"),
                          ({"display_horizontal": "x", "display_vertical": 5}, "bad"),
                          ({"display_horizontal": "x", "display_vertical": "y", "display_depth": 5}, "bad"),
                          (5, "bad"), ("x", "bad"), ([], "bad"), ({}, "bad")],
        "extra": [({}, "ok"), ({"a": 1}, "ok"), ({"a": {"b": [1, 2.5, None, True, "s", {"c": []}]}, "é": "😀"}, "ok"),
                  ({"big": 2 ** 70, "neg0": -0.0}, "ok"), (None, "bad"), ([], "bad"), ("s", "bad"), (5, "bad"), (True, "bad")],
    }
    cat["ellipsoid"] = cat["sphere"]
    pm = lambda i, dt="int64", **kw: {"identifier": i, "dtype": dt, **kw}  # noqa: E731
    props = [({}, "ok"), ({"a": pm("a")}, "ok"), ({"a": pm("a", "float32", varlength=True, unit="µm", name="A", description="d"),
                                                   "b": pm("b", "str")}, "ok"),
             ({"é 😀": pm("é 😀", "bool", unit=None, name=None, description=None)}, "ok"),
             ({"a": pm("a", zzz=1)}, "ok")]
    props += [({"a": pm("a", dt)}, "ok") for dt in DTYPES_OK[1:] + DTYPES_ALIAS]
    props += [({"a": pm("a", dt)}, "bad") for dt in DTYPES_BAD]
    # identifiers that are a PERMUTATION of the keys (the key *set* equals the identifier set, every pair is wrong)
    props += [({"area": pm("score"), "score": pm("area")}, "bad"),
              ({"a": pm("b"), "b": pm("c"), "c": pm("a")}, "bad"),
              ({"a": pm("a"), "b": pm("c"), "c": pm("b")}, "bad"),
              ({"a": pm("b", "float32"), "b": pm("a", "str", varlength=False), "keep": pm("keep", "uint8")}, "bad"),
              ({"x": pm("y"), "y": pm("x"), "z": pm("z"), "t": pm("t")}, "bad"),
              ({"a": pm("b"), "b": pm("b")}, "bad"), ({"a": pm("a"), "b": pm("a")}, "bad")]
    props += [({"a": pm("b")}, "bad"), ({"a": pm("a"), "b": pm("c")}, "bad"), ({"": pm("")}, "bad"), ({"a": pm("")}, "bad"),
              ({"a": pm("a", None)}, "bad"), ({"a": pm("a", 5)}, "bad"), ({"a": {"identifier": "a"}}, "bad"),
              ({"a": {"dtype": "int8"}}, "bad"), ({"a": pm(5)}, "bad"), ({"a": pm("a", varlength=None)}, "bad"),
              ({"a": pm("a", varlength="maybe")}, "bad"), ({"a": pm("a", varlength=[])}, "bad"),
              ({"a": pm("a", unit=5)}, "bad"), ({"a": pm("a", name=[])}, "bad"), ({"a": pm("a", description={})}, "bad"),
              ({"a": "int8"}, "bad"), ({"a": None}, "bad"), ({"a": 5}, "bad"),
              (None, "bad"), ([], "bad"), ("abc", "bad"), (5, "bad"), ([pm("a")], "bad")]
    cat["node_props_metadata"] = props
    cat["edge_props_metadata"] = props
    return cat


def base_docs():
    ax = lambda n, **kw: {"name": n, **kw}  # noqa: E731
    pm = lambda i, dt="int64", **kw: {"identifier": i, "dtype": dt, **kw}  # noqa: E731
    req = {"directed": True, "node_props_metadata": {}, "edge_props_metadata": {}}
    return [
        dict(req),
        {**req, "geff_version": "0.3.1.dev6+g61d5f18", "directed": False},
        {**req, "axes": []},
        {**req, "axes": [ax("x"), ax("y")]},
        {**req, "axes": [ax("x"), ax("y"), ax("z"), ax("t", type="time", unit="second", min=0, max=100)],
         "display_hints": {"display_horizontal": "x", "display_vertical": "y", "display_depth": "z", "display_time": "t"}},
        {**req, "axes": [ax("x", type="space", unit="micrometer", min=-1.5, max=2, scale=0.5, scaled_unit="nanometer", offset=3)],
         "display_hints": {"display_horizontal": "x", "display_vertical": "x"}},
        {**req, "display_hints": {"display_horizontal": "q", "display_vertical": "r"}},
        {**req, "node_props_metadata": {"a": pm("a"), "seg": pm("seg", "uint64", name="Seg")},
         "edge_props_metadata": {"score": pm("score", "float32", unit="au")}},
        {**req, "node_props_metadata": {"x": pm("x", "float64"), "y": pm("y", "float64")}, "axes": [ax("x"), ax("y")],
         "sphere": "r", "ellipsoid": "cov", "track_node_props": {"lineage": "l", "tracklet": "t"},
         "related_objects": [{"type": "labels", "path": "../seg", "label_prop": "seg"}, {"type": "image", "path": "../raw"}],
         "extra": {"app": {"k": [1, 2.5, None]}}},
        {**req, "axes": None, "sphere": None, "extra": {}},
        {**req, "axes": [ax("t", type="time"), ax("c", type="channel"), ax("é", min=-INF, max=INF)],
         "display_hints": {"display_horizontal": "é", "display_vertical": "t", "display_time": "t"}},
        {**req, "node_props_metadata": {"a": pm("a", "int"), "b": pm("b", "U5", varlength=False)}},
    ]


# ------------------------------------------------------------------ bounded reporting of disagreements
class CorrLimiter:
    """Forwards at most `keep` model/implementation disagreements per class to Check.corr_broken (each one
    carries its whole case) and counts all of them in ck.extra["corr_disagreement_counts"]."""

    def __init__(self, ck, keep: int = 5):
        self.ck, self.keep = ck, keep
        self.counts: dict = {}
        ck.extra["corr_disagreement_counts"] = self.counts

    def corr_broken(self, name, case, impl, model):
        n = self.counts.get(name, 0)
        self.counts[name] = n + 1
        if n < self.keep:
            self.ck.corr_broken(name, case, impl, model)

    def __getattr__(self, item):
        return getattr(self.ck, item)
