"""C16 — TrackMate XML conversion preserves spots, links, features, track ids, units, ROIs.

Implementation: geff.convert.from_trackmate_xml_to_geff (and `geff convert-trackmate-xml`).

A case is an *abstract TrackMate document* (declared features with isint/dimension; spots with
feature texts and optional ROI polygons; tracks with edges and edge features; optional
FilteredTracks list; units; optional Settings/Log) + the two discard flags + zarr format + entry
point.  The document is rendered to XML, converted into a TemporaryDirectory, read back with
structural validation, and then judged three times:
  * `oracle` — the property statement evaluated on the abstract document (independent Python:
    node/edge sets, typed feature values and missing flags, TRACK_ID = containing track, units,
    ROI polygons point for point, the two discard rules, graph validation, lineage validity by an
    own union-find oracle on the nodes whose TRACK_ID is present AND through validate_data);
  * the Lean model `Geff.TrackMate.convert` (through drv_C16) — must produce the same observation
    (node order, nx edge order, every property value/missing flag, metadata dtypes/units);
  * on malformed documents only the outcome class is compared with the model.
The streaming layer (lxml's iterparse events, the cursor functions, the dispatch loop of _build_data, the
metadata readers) is modelled in GeffModel/TrackMateXml.lean and tied by harness/corr/_c16_xml.py (element
trees -> real event stream and real cursor functions, function by function; theorems GeffProps/C16Xml.lean,
C16XmlDoc.lean).
"""
from __future__ import annotations

import itertools
import json
import math
import os
import struct
import tempfile
from xml.sax.saxutils import quoteattr

import numpy as np

from harness import common

PROP = "C16"
K_LONE = "C16:lone-spot-missing-track-id-validated-as-fill"
MANDATORY_SF = [["QUALITY", False, "QUALITY"], ["POSITION_X", False, "POSITION"], ["POSITION_Y", False, "POSITION"],
                ["POSITION_Z", False, "POSITION"], ["POSITION_T", False, "TIME"], ["FRAME", True, "NONE"]]
MANDATORY_EF = [["SPOT_SOURCE_ID", True, "NONE"], ["SPOT_TARGET_ID", True, "NONE"]]
MANDATORY_TF = [["TRACK_ID", True, "NONE"]]
DIMS = ["NONE", "QUALITY", "COST", "INTENSITY", "INTENSITY_SQUARED", "STRING", "POSITION", "LENGTH", "TIME",
        "VELOCITY", "AREA", "ANGLE", "RATE", "ANGLE_RATE"]


# ----------------------------------------------------------------- rendering
def fhex(x: float) -> str:
    return struct.pack("<d", float(x)).hex()


def roi_text(roi) -> str:
    """the text of a Spot element: the coordinate tokens exactly as given, separated by the ROI's own
    whitespace pattern (`ws` = {"lead", "trail", "seps": cycled}); TrackMate writes single blanks, other
    writers use tabs / line breaks / several blanks — `str.split()` semantics"""
    if roi["pts"] is None:
        return ""
    toks = [v for p in roi["pts"] for v in p]
    ws = roi.get("ws") or {}
    seps = ws.get("seps") or [" "]
    out = ws.get("lead", "")
    for i, t in enumerate(toks):
        out += t
        if i + 1 < len(toks):
            out += seps[i % len(seps)]
    return out + ws.get("trail", "")


def render(doc) -> str:
    def attrs(d):
        return "".join(f" {k}={quoteattr(str(v))}" for k, v in d.items())

    out = ['<?xml version="1.0" encoding="UTF-8"?>']
    out.append(f"<TrackMate{attrs({'version': doc['version']}) if doc.get('version') else ''}>")
    if doc.get("log"):
        out.append("  <Log>TrackMate log text &amp; more\nsecond line</Log>")
    units = {}
    if doc.get("space") is not None:
        units["spatialunits"] = doc["space"]
    if doc.get("time") is not None:
        units["timeunits"] = doc["time"]
    out.append(f"  <Model{attrs(units)}>")
    out.append("    <FeatureDeclarations>")
    for tag, key in (("SpotFeatures", "sf"), ("EdgeFeatures", "ef"), ("TrackFeatures", "tf")):
        out.append(f"      <{tag}>")
        for f in doc[key]:
            name, isint, dim = f[0], f[1], f[2]
            a = {"feature": name, "name": name.title(), "shortname": name[:4]}
            if dim is not None:
                a["dimension"] = dim
            if isint is not None:
                a["isint"] = "true" if isint else "false"
            out.append(f"        <Feature{attrs(a)} />")
        out.append(f"      </{tag}>")
    out.append("    </FeatureDeclarations>")
    out.append(f"    <AllSpots nspots=\"{len(doc['spots'])}\">")
    for frame, grp in itertools.groupby(doc["spots"], key=lambda s: s["frame"]):
        out.append(f"      <SpotsInFrame frame=\"{frame}\">")
        for s in grp:
            a = {}
            if s.get("id") is not None:
                a["ID"] = s["id"]
            if s.get("name") is not None:
                a["name"] = s["name"]
            a.update(s["f"])
            roi = s.get("roi")
            if roi is not None:
                a["ROI_N_POINTS"] = roi["n"]
                txt = roi_text(roi)
                out.append(f"        <Spot{attrs(a)}>{txt}</Spot>")
            else:
                out.append(f"        <Spot{attrs(a)} />")
        out.append("      </SpotsInFrame>")
    out.append("    </AllSpots>")
    out.append("    <AllTracks>")
    for t in doc["tracks"]:
        a = {"name": t.get("name", f"Track_{t.get('id')}")}
        if t.get("id") is not None:
            a["TRACK_ID"] = t["id"]
        a.update(t.get("f", {}))
        out.append(f"      <Track{attrs(a)}>")
        for e in t["edges"]:
            ea = {"SPOT_SOURCE_ID": e["s"], "SPOT_TARGET_ID": e["t"]}
            ea.update(e.get("f", {}))
            out.append(f"        <Edge{attrs(ea)} />")
        out.append("      </Track>")
    out.append("    </AllTracks>")
    if doc.get("filtered") is not None:
        if doc["filtered"]:
            out.append("    <FilteredTracks>")
            for t in doc["filtered"]:
                out.append(f"      <TrackID TRACK_ID=\"{t}\" />")
            out.append("    </FilteredTracks>")
        else:
            out.append("    <FilteredTracks />" if doc.get("filtered_selfclosing") else "    <FilteredTracks>\n    </FilteredTracks>")
    out.append("  </Model>")
    st = doc.get("settings")
    if st is not None:
        out.append("  <Settings>")
        if st.get("image", True):
            out.append(f"    <ImageData{attrs({'filename': st.get('filename', ''), 'folder': st.get('folder', '')})} />")
        out.append("    <BasicSettings xstart=\"0\" xend=\"10\" />")
        out.append("  </Settings>")
    if doc.get("gui"):
        out.append("  <GUIState state=\"ConfigureViews\" />")
    out.append("</TrackMate>")
    return "\n".join(out) + "\n"


# ----------------------------------------------------------------- implementation observation
def canon_val(v):
    if isinstance(v, (np.floating, float)):
        return {"f": fhex(v)}
    if isinstance(v, (np.integer, int)) and not isinstance(v, (bool, np.bool_)):
        return {"i": str(int(v))}
    if isinstance(v, (np.bool_, bool)):
        return {"b": bool(v)}
    if isinstance(v, (str, np.str_)):
        return {"s": str(v)}
    a = np.asarray(v)
    return {"a": [fhex(x) for x in a.ravel()], "shape": list(a.shape)}


def canon_prop(values, missing):
    n = len(values)
    ms = [False] * n if missing is None else [bool(x) for x in missing]
    if values.dtype == object:
        cells = [None if ms[i] else canon_val(np.asarray(values[i])) for i in range(n)]
        dt = "object:" + (np.asarray(values[0]).dtype.name if n else "?")
    elif values.ndim > 1:
        cells = [None if ms[i] else canon_val(values[i]) for i in range(n)]
        dt = values.dtype.name
    else:
        cells = [None if ms[i] else canon_val(values[i]) for i in range(n)]
        dt = "str" if values.dtype.kind == "U" else values.dtype.name
    return {"dtype": dt, "cells": cells}


def convert_and_read(case):
    """-> observation dict (or {"exc": …})"""
    from geff.core_io import read_to_memory
    from geff.validate.data import ValidationConfig, validate_data
    from geff.validate.structure import validate_structure

    doc = case["doc"]
    with tempfile.TemporaryDirectory(prefix="c16_") as d:
        xml = os.path.join(d, "doc.xml")
        if case.get("xml_path"):
            xml = case["xml_path"]            # a real TrackMate file (corpus): converted as it is
        else:
            with open(xml, "w", encoding="utf-8") as fh:
                fh.write(render(doc))
        out = os.path.join(d, "out.geff")
        try:
            if case.get("via") == "cli":
                from typer.testing import CliRunner

                from geff._cli import app

                args = ["convert-trackmate-xml", xml, out, "--zarr-format", str(case.get("zf", 2))]
                if case["ds"]:
                    args.append("--discard-filtered-spots")
                if case["dt"]:
                    args.append("--discard-filtered-tracks")
                res = CliRunner().invoke(app, args)
                if res.exit_code != 0:
                    ex = res.exception
                    return {"exc": type(ex).__name__ if ex is not None else f"exit{res.exit_code}", "msg": str(ex)[:200]}
            else:
                from geff.convert import from_trackmate_xml_to_geff

                from_trackmate_xml_to_geff(xml, out, discard_filtered_spots=case["ds"],
                                           discard_filtered_tracks=case["dt"], zarr_format=case.get("zf", 2))
        except BaseException as ex:  # noqa: BLE001
            return {"exc": type(ex).__name__, "msg": str(ex)[:200]}
        o = {}
        try:
            validate_structure(out)
            o["structure"] = "ok"
        except Exception as ex:  # noqa: BLE001
            o["structure"] = f"{type(ex).__name__}: {str(ex)[:160]}"
            return o
        try:
            return _read_back(out, o)
        except Exception as ex:  # noqa: BLE001  (the written geff cannot be read / described: an observation)
            return {"unreadable": f"{type(ex).__name__}: {str(ex)[:200]}"}


def _read_back(out, o):
    from geff.core_io import read_to_memory
    from geff.validate.data import ValidationConfig, validate_data

    if True:
        g = read_to_memory(out)
        md = g["metadata"]
        o["nodes"] = [int(x) for x in g["node_ids"]]
        o["id_dtype"] = g["node_ids"].dtype.name
        o["edges"] = [[int(a), int(b)] for a, b in g["edge_ids"]]
        o["directed"] = bool(md.directed)
        o["node_props"] = {k: canon_prop(v["values"], v["missing"]) for k, v in g["node_props"].items()}
        o["edge_props"] = {k: canon_prop(v["values"], v["missing"]) for k, v in g["edge_props"].items()}
        o["node_meta"] = {k: [m.dtype, bool(m.varlength), m.unit, m.name] for k, m in md.node_props_metadata.items()}
        o["edge_meta"] = {k: [m.dtype, bool(m.varlength), m.unit, m.name] for k, m in md.edge_props_metadata.items()}
        o["axes"] = [[a.name, a.type, a.unit] for a in (md.axes or [])]
        o["track_node_props"] = md.track_node_props
        o["related"] = None if not md.related_objects else [[r.type, r.path] for r in md.related_objects]
        ex = (md.model_extra or {}).get("other_trackmate_metadata") if hasattr(md, "model_extra") else None
        if ex is None:
            ex = (getattr(md, "extra", None) or {}).get("other_trackmate_metadata", {})
        o["extra_keys"] = sorted(ex.keys()) if isinstance(ex, dict) else None
        o["tm_version"] = ex.get("trackmate_version") if isinstance(ex, dict) else None
        o["lineage_meta"] = sorted((ex.get("lineage_props_metadata") or {}).keys()) if isinstance(ex, dict) else None
        for name, cfg in (("graph", dict(graph=True)), ("lineage", dict(lineage=True))):
            try:
                validate_data(g, ValidationConfig(**cfg))
                o[name] = "ok"
            except Exception as ex2:  # noqa: BLE001
                o[name] = f"{type(ex2).__name__}: {str(ex2)[:160]}"
        return o


def observe(case):
    try:
        import zarr

        zarr.config.set({"async.concurrency": 2, "threading.max_workers": 2})   # 16 forked workers: no oversubscription
        return convert_and_read(case)
    except BaseException as ex:  # noqa: BLE001  (nothing may abort the check: whatever happens is an observation)
        return {"unreadable": f"{type(ex).__name__}: {str(ex)[:300]}"}


# ----------------------------------------------------------------- specification oracle
def py_typed(text, isint):
    """the typed value the property promises for a declared feature text"""
    if isint:
        return {"i": str(int(text))}
    return {"f": fhex(float(text))}


def same_cell(a, b):
    if a is None or b is None:
        return a is None and b is None
    if "f" in a and "f" in b:
        fa = struct.unpack("<d", bytes.fromhex(a["f"]))[0]
        fb = struct.unpack("<d", bytes.fromhex(b["f"]))[0]
        return (math.isnan(fa) and math.isnan(fb)) or a["f"] == b["f"]
    return a == b


def expected_graph(doc, ds, dt):
    track_of = {}
    for t in doc["tracks"]:
        for e in t["edges"]:
            track_of[e["s"]] = t["id"]
            track_of[e["t"]] = t["id"]
    keep = [s["id"] for s in doc["spots"]]
    if ds:
        keep = [n for n in keep if n in track_of]
    if dt and doc.get("filtered") is not None:
        keep = [n for n in keep if n in track_of and track_of[n] in doc["filtered"]]
    ks = set(keep)
    edges = [(e["s"], e["t"], e, t["id"]) for t in doc["tracks"] for e in t["edges"] if e["s"] in ks and e["t"] in ks]
    return keep, edges, track_of


def lineage_partition_ok(nodes, labels, edges):
    """own oracle: labelled nodes sharing an id <=> same weakly connected component, and no component of a
    labelled node reaches an unlabelled vertex"""
    parent = {}

    def find(x):
        parent.setdefault(x, x)
        while parent[x] != x:
            parent[x] = parent[parent[x]]
            x = parent[x]
        return x
    for n in nodes:
        find(n)
    for a, b in edges:
        parent[find(a)] = find(b)
    lab = dict(zip(nodes, labels))
    comp_of_label, label_of_comp = {}, {}
    for n, l in lab.items():
        c = find(n)
        if comp_of_label.setdefault(l, c) != c or label_of_comp.setdefault(c, l) != l:
            return False
    for x in list(parent):
        if find(x) in label_of_comp and x not in lab:
            return False
    return True


def oracle(case, o):
    doc, ds, dt = case["doc"], case["ds"], case["dt"]
    bad = []
    if "unreadable" in o:
        return [("C16:output-unreadable", f"the converter returned but its output cannot be read back / described: {o['unreadable']}",
                 "a geff that read_to_memory reads")]
    if "exc" in o:
        return [("C16:exception", f"well-formed document raises {o['exc']}: {o.get('msg', '')}", "a geff")]
    if o.get("structure") != "ok":
        return [("C16:structure-invalid", f"validate_structure: {o.get('structure')}", "ok")]
    keep, edges, track_of = expected_graph(doc, ds, dt)
    # --- graph
    if sorted(o["nodes"]) != sorted(keep):
        extra, lost = sorted(set(o["nodes"]) - set(keep)), sorted(set(keep) - set(o["nodes"]))
        key = "C16:nodes"
        if ds or dt:
            key = "C16:discard-spots" if (ds and not dt) else "C16:discard-tracks" if (dt and not ds) else "C16:discard-both"
        bad.append((key, f"node set differs: unexpected {extra}, lost {lost}", sorted(keep)))
        return bad
    if len(set(o["nodes"])) != len(o["nodes"]):
        bad.append(("C16:nodes", "repeated node id", "one node per spot"))
    if sorted(map(tuple, o["edges"])) != sorted((a, b) for a, b, _, _ in edges):
        bad.append(("C16:edges", f"edge set {sorted(map(tuple, o['edges']))[:8]}", sorted((a, b) for a, b, _, _ in edges)[:8]))
        return bad
    if not o["directed"]:
        bad.append(("C16:directed", "metadata.directed is False", True))
    pos = {n: i for i, n in enumerate(o["nodes"])}
    epos = {tuple(e): i for i, e in enumerate(o["edges"])}
    spot = {s["id"]: s for s in doc["spots"]}
    # --- spot features
    for name, isint, _dim in doc["sf"]:
        have = [n for n in keep if name in spot[n]["f"]]
        p = o["node_props"].get(name)
        if p is None:
            if have:
                bad.append(("C16:feature-dropped", f"declared spot feature {name} present on {len(have)} spots is not stored", name))
            continue
        want_dt = "int" if isint else "float"
        if have and not (p["dtype"].startswith(want_dt) or (isint and p["dtype"].startswith("uint"))):
            bad.append(("C16:feature-dtype", f"spot feature {name} (isint={isint}) stored as {p['dtype']}", want_dt))
        for n in keep:
            cell = p["cells"][pos[n]]
            want = py_typed(spot[n]["f"][name], isint) if name in spot[n]["f"] else None
            if not same_cell(cell, want):
                k = "C16:feature-missing-flag" if (cell is None) != (want is None) else "C16:feature-value"
                bad.append((k, f"spot {n} feature {name}: stored {cell}, document {want}", want))
                break
    # --- edge features
    for name, isint, _dim in doc["ef"]:
        def text(e, name=name):
            if name == "SPOT_SOURCE_ID":
                return str(e["s"])
            if name == "SPOT_TARGET_ID":
                return str(e["t"])
            return e.get("f", {}).get(name)
        have = [e for _, _, e, _ in edges if text(e) is not None]
        p = o["edge_props"].get(name)
        if p is None:
            if have:
                bad.append(("C16:feature-dropped", f"declared edge feature {name} present on {len(have)} edges is not stored", name))
            continue
        want_dt = "int" if isint else "float"
        if have and not (p["dtype"].startswith(want_dt) or (isint and p["dtype"].startswith("uint"))):
            bad.append(("C16:feature-dtype", f"edge feature {name} (isint={isint}) stored as {p['dtype']}", want_dt))
        for a, b, e, _ in edges:
            cell = p["cells"][epos[(a, b)]]
            want = py_typed(text(e), isint) if text(e) is not None else None
            if not same_cell(cell, want):
                k = "C16:feature-missing-flag" if (cell is None) != (want is None) else "C16:feature-value"
                bad.append((k, f"edge {a}->{b} feature {name}: stored {cell}, document {want}", want))
                break
    # --- ids / names
    pid = o["node_props"].get("ID")
    if keep and (pid is None or [c for c in pid["cells"]] != [{"i": str(n)} for n in o["nodes"]]):
        bad.append(("C16:spot-id", "node property ID differs from the node ids", "ID = spot ID"))
    # --- track ids
    ptr = o["node_props"].get("TRACK_ID")
    for n in keep:
        want = {"i": str(track_of[n])} if n in track_of else None
        cell = None if ptr is None else ptr["cells"][pos[n]]
        if not same_cell(cell, want):
            bad.append(("C16:track-id", f"node {n}: TRACK_ID {cell}, containing track {want}", want))
            break
    # --- units / axes
    su, tu = doc.get("space") or "pixel", doc.get("time") or "frame"
    want_axes = [["POSITION_X", "space", su], ["POSITION_Y", "space", su], ["POSITION_Z", "space", su], ["POSITION_T", "time", tu]]
    if o["axes"] != want_axes:
        bad.append(("C16:units", f"axes {o['axes']}", want_axes))
    # --- ROIs
    proi = o["node_props"].get("ROI_coords")
    for n in keep:
        roi = spot[n].get("roi")
        want = None
        if roi is not None and roi["pts"] is not None:
            want = [[fhex(float(v)) for v in p] for p in roi["pts"]]
        cell = None if proi is None else proi["cells"][pos[n]]
        got = None
        if cell is not None:
            sh = cell.get("shape", [])
            if len(sh) == 2:
                got = [cell["a"][i * sh[1]:(i + 1) * sh[1]] for i in range(sh[0])]
            else:
                got = cell
        if got != want:
            nocoords = roi is not None and roi["pts"] is None and got == []
            bad.append(("C16:roi-without-coordinates-not-flagged-missing" if nocoords else "C16:roi",
                        f"spot {n}: stored polygon {str(got)[:120]}, document {str(want)[:120]}", want))
            break
    # --- validation of the output
    if o["graph"] != "ok":
        bad.append(("C16:graph-invalid", f"validate_data(graph=True): {o['graph']}", "ok"))
    labelled = [n for n in keep if n in track_of]
    own = lineage_partition_ok(labelled, [track_of[n] for n in labelled], [(a, b) for a, b, _, _ in edges])
    if not own:
        bad.append(("C16:lineage-own-oracle", "TRACK_ID classes are not the weakly connected components (own oracle, nodes with a TRACK_ID)", "valid"))
    if o["lineage"] != "ok":
        lone_kept = any(n not in track_of for n in keep)
        if lone_kept and own and o["lineage"].startswith("ValueError"):
            bad.append((K_LONE, f"validate_data(lineage=True) on the converter's own output: {o['lineage']}", "ok"))
        elif not keep or not labelled:
            bad.append(("C16:lineage-declared-without-track-id",
                        f"metadata.track_node_props={o['track_node_props']} but no node carries TRACK_ID: {o['lineage']}", "ok"))
        else:
            bad.append(("C16:lineage-invalid", f"validate_data(lineage=True): {o['lineage']}", "ok"))
    return bad


# ----------------------------------------------------------------- generators
FLOAT_TEXTS = ["0.0", "1.5", "-2.25", "63.76923076923077", "1e-05", "3", "NaN", "Infinity", "-Infinity", "1.0E10", "0.1"]
INT_TEXTS = ["0", "1", "-1", "7", "42", "-300", "65536", "2147483647", "-2147483648", "+7", "007", "-0012", "+0", "-0",
             str(2 ** 53 - 1), str(2 ** 53), str(2 ** 53 + 1), str(-(2 ** 53) - 1), str(2 ** 62), str(2 ** 62 + 1), str(2 ** 63 - 1),
             str(-(2 ** 63)), "+" + str(2 ** 53 + 1), "00" + str(2 ** 62 + 3), "9007199254740993", "-9007199254740995",
             "1152921504606846977"]
# integers that a column of non-negative values may also hold (numpy then infers uint64)
UINT_TEXTS = [str(2 ** 63), str(2 ** 63 + 1), str(2 ** 64 - 1), str(2 ** 64 - 2), "0", "5", str(2 ** 53 + 1), "+" + str(2 ** 63 + 3)]
# spot ids: small, around 2^53 (where a pass through float64 rounds), up to the uint64 range the geff id array holds
BIG_IDS = [0, 1, 5, 77, 2 ** 20, 2 ** 31 - 1, 2 ** 40, 123456789, 2 ** 53 - 1, 2 ** 53, 2 ** 53 + 1, 2 ** 53 + 2, 2 ** 53 + 3,
           2 ** 62, 2 ** 62 + 1, 2 ** 63 - 2, 2 ** 63 - 1, 2 ** 63, 2 ** 63 + 1, 2 ** 64 - 2, 2 ** 64 - 1, 9007199254740997,
           1152921504606846977]
assert len(set(BIG_IDS)) == len(BIG_IDS)
# doubles whose textual renderings differ a lot: tiny, huge, negative, zero, integral, many digits
DOUBLES = [0.0, -0.0, 1.0, 7.0, -3.0, 0.5, -2.25, 63.76923076923077, 0.1, 1e-7, -1e-7, 2.5e-5, -3.0e-4, 1.2345e-9,
           1e12, -4.5e12, 1.0e10, 123456789.125, 9.999999e6, 1.0e7, 0.001, 0.00099, 3.141592653589793, -0.30000000000000004,
           5e-324, 1.7976931348623157e308, 255.0, 1e-05, 100.0, 2.0 ** 53]
ROI_WS = [None, None, {"seps": ["  "]}, {"seps": ["\t"]}, {"seps": ["\n"]}, {"seps": [" ", "\n      "], "lead": "\n      ", "trail": "\n    "},
          {"seps": [" ", "\t", "   ", "\r\n"], "lead": " ", "trail": "  "}, {"lead": "   ", "trail": "\t"}]


def java_double(x: float) -> str:
    """Java's Double.toString (what TrackMate writes): decimal for 1e-3 <= |x| < 1e7, otherwise
    computerised scientific notation d.dddE[-]n with at least one digit after the point"""
    from decimal import Decimal

    if x != x:
        return "NaN"
    if x in (float("inf"), float("-inf")):
        return "Infinity" if x > 0 else "-Infinity"
    sign = "-" if math.copysign(1.0, x) < 0 else ""
    a = abs(x)
    if a == 0:
        return sign + "0.0"
    t = Decimal(repr(a)).as_tuple()
    digits = "".join(map(str, t.digits)).rstrip("0") or "0"
    e = len(t.digits) + t.exponent - 1
    if 1e-3 <= a < 1e7:
        txt = format(Decimal(repr(a)), "f")
        if "." not in txt:
            txt += ".0"
        return sign + txt
    return f"{sign}{digits[0]}.{digits[1:] or '0'}E{e}"


def float_renderings(x: float):
    """several texts of (about) the same double; the oracle always takes float(text) of the text written"""
    if x != x or x in (float("inf"), float("-inf")):
        return [java_double(x)]
    out = [repr(x), java_double(x), f"{x:e}", f"{x:.3e}".replace("e", "E"), "%g" % x, "%.17g" % x]
    if x >= 0 and math.copysign(1.0, x) > 0:
        out.append("+" + repr(x))
        out.append("+" + java_double(x))
    if abs(x) < 1e15 and x == int(x):
        out += [str(int(x)), str(int(x)) + ".0", str(int(x)) + "."]
    if 1e-4 <= abs(x) < 1e9:
        out += [f"{x:.12f}", f"{x:.17f}", f"{x:.20f}"]
    if 0 < abs(x) < 1:
        r = repr(abs(x))
        if r.startswith("0.") and "e" not in r:
            out.append(("-" if x < 0 else "") + r[1:])          # ".5"
    # "-0" parses as the int 0 and as the float -0.0: not a text TrackMate writes, and outside the model's lexer classes
    return [t for t in out if t.lstrip("+-").strip("0") != "" or not t.startswith("-") or "." in t or "e" in t.lower()]


def ftext(rng, special=True, pool=None):
    """a float text for a feature value / coordinate: a double from `pool` in one of its renderings"""
    if special and rng.random() < 0.12:
        return rng.choice(["NaN", "Infinity", "-Infinity"])
    x = rng.choice(pool or DOUBLES) if rng.random() < 0.7 else rng.uniform(-100, 100) * rng.choice([1e-6, 1e-3, 1, 1, 1, 1e6, 1e11])
    return rng.choice(float_renderings(x))


def ftext_det(i):
    """deterministic variety for the exhaustive stream"""
    x = DOUBLES[(3 * i + 1) % len(DOUBLES)]
    r = float_renderings(x)
    return r[(5 * i + 2) % len(r)]


POS_POOL = [0.0, 1.0, 7.0, 0.5, 63.76923076923077, 1e-7, 2.5e-5, -3.0e-4, 1e12, 1.0e10, -2.25, 123456789.125, 255.0, 100.0]


def base_spot(i, sid, frame, rng=None):
    if rng is None:
        f = {"QUALITY": ftext_det(i), "POSITION_X": ftext_det(i + 7), "POSITION_Y": ftext_det(2 * i + 11),
             "POSITION_Z": "0.0" if i % 2 else "0", "POSITION_T": str(float(frame)) if i % 3 else str(frame), "FRAME": str(frame)}
    else:
        f = {"QUALITY": ftext(rng), "POSITION_X": ftext(rng, special=False, pool=POS_POOL),
             "POSITION_Y": ftext(rng, special=False, pool=POS_POOL), "POSITION_Z": rng.choice(["0.0", "0", "0.0E0", "-0.0", "1.5E-4"]),
             "POSITION_T": rng.choice(float_renderings(float(frame))), "FRAME": str(frame)}
    return {"id": sid, "frame": frame, "name": f"ID{sid}", "f": f, "roi": None}


def det_roi(i, k):
    """deterministic ROI for the exhaustive stream: 0 (no text) / 1 / 2 / 3 points, 2-D, scientific
    notation and unusual whitespace included"""
    npts = (i + k) % 4
    if npts == 0:
        return {"n": 0, "pts": None}
    return {"n": npts, "pts": [[ftext_det(7 * i + 2 * j + k), ftext_det(5 * i + 2 * j + 1 + k)] for j in range(npts)],
            "ws": ROI_WS[(i + k) % len(ROI_WS)]}


def rand_roi(rng, k, dim):
    pool = [0.0, -0.0, 1e-7, -1e-7, 2.5e-5, -3.0e-4, 1e12, -4.5e12, 1.0e10, 1.5, -2.25, 63.76923076923077, 7.0, 1e-05]
    return {"n": k, "pts": [[ftext(rng, special=False, pool=pool) for _ in range(dim)] for _ in range(k)],
            "ws": rng.choice(ROI_WS)}


def mk_doc(spots, tracks, filtered=None, **kw):
    d = {"version": "7.11.1", "space": "micrometer", "time": "second", "sf": [list(x) for x in MANDATORY_SF],
         "ef": [list(x) for x in MANDATORY_EF] + [["LINK_COST", False, "COST"]],
         "tf": [list(x) for x in MANDATORY_TF], "spots": spots, "tracks": tracks, "filtered": filtered,
         "settings": {"filename": "img.tif", "folder": "/data/x"}, "log": True}
    d.update(kw)
    return d


def components(n, edges):
    parent = list(range(n))

    def find(x):
        while parent[x] != x:
            parent[x] = parent[parent[x]]
            x = parent[x]
        return x
    for a, b in edges:
        parent[find(a)] = find(b)
    comps = {}
    for a, b in edges:
        comps.setdefault(find(a), []).append((a, b))
    return list(comps.values())


def exhaustive(nmax):
    """all forward edge sets over <= nmax spots (spot i in frame i, ids 10+i), tracks = the connected
    components of the edge set, x FilteredTracks variants x the four flag combinations"""
    for n in range(0, nmax + 1):
        pairs = [(a, b) for a in range(n) for b in range(a + 1, n)]
        for k in range(2 ** len(pairs)):
            es = [p for i, p in enumerate(pairs) if k >> i & 1]
            comps = components(n, es)
            # spot ids: small, or (every fourth link set) around 2^53 / 2^62 / 2^64 where a pass through float64 rounds
            idl = [10 + i for i in range(n)] if k % 4 != 2 else [2 ** 53 + 1, 2 ** 53 + 3, 2 ** 62 + 1, 2 ** 64 - 1][:n]
            spots = [base_spot(i, idl[i], i) for i in range(n)]
            for i, sp in enumerate(spots):
                if (i + k) % 2 == 0:
                    sp["f"]["COUNT"] = INT_TEXTS[(7 * i + k) % len(INT_TEXTS)]
            if k % 3 == 1:
                for i, sp in enumerate(spots):
                    sp["roi"] = det_roi(i, k)
            tracks = [{"id": ti if k % 4 != 2 else [2 ** 53 + 1, 7, 2 ** 62 + 1][ti % 3], "name": f"Track_{ti}", "f": {},
                       "edges": [{"s": idl[a], "t": idl[b], "f": {"LINK_COST": ftext_det(3 * a + b + k)} if (a + b) % 2 else {}}
                                 for a, b in comp]}
                      for ti, comp in enumerate(comps)]
            tids = [t["id"] for t in tracks]
            fvariants = [None, [], tids[:1], tids]
            if len(tids) >= 2:
                fvariants.append(tids[1:])
            seen = []
            for fv in fvariants:
                if fv in seen:
                    continue
                seen.append(fv)
                for ds, dt in itertools.product((False, True), repeat=2):
                    if fv is not None and not dt and fv != []:
                        continue      # the list only matters under discard_filtered_tracks
                    yield {"doc": mk_doc(spots, tracks, fv, sf=[list(x) for x in MANDATORY_SF] + [["COUNT", True, "NONE"]]),
                           "ds": ds, "dt": dt, "zf": 2, "via": "api"}


def random_doc(rng, big=False):
    nframes = rng.randint(0, 4)
    nspots = 0 if nframes == 0 else rng.randint(0, 8 if not big else 14)
    nspots = min(nspots, len(BIG_IDS))
    ids = rng.sample(range(0, 60) if rng.random() < 0.6 else BIG_IDS, nspots)
    frames = sorted(rng.randrange(nframes) for _ in range(nspots))
    spots = [base_spot(i, ids[i], frames[i], rng) for i in range(nspots)]
    # extra declared features on subsets
    sf = [list(x) for x in MANDATORY_SF]
    ef = [list(x) for x in MANDATORY_EF] + [["LINK_COST", False, "COST"]]
    tf = [list(x) for x in MANDATORY_TF] + [["TRACK_INDEX", True, "NONE"], ["TRACK_DURATION", False, "TIME"]]
    for j in range(rng.randint(0, 4)):
        isint = rng.random() < 0.4
        sf.append([f"SF{j}", isint, rng.choice(DIMS)])
        frac = rng.choice([0.0, 0.3, 0.7, 1.0])
        ipool = UINT_TEXTS if rng.random() < 0.25 else INT_TEXTS
        for s in spots:
            if rng.random() < frac:
                s["f"][f"SF{j}"] = rng.choice(ipool) if isint else ftext(rng)
    # tracks: vertex-disjoint, connected, edges forward in time (splits and merges allowed)
    order = list(range(nspots))
    rng.shuffle(order)
    ntracks = rng.randint(0, 3)
    tracks, used = [], set()
    tid_pool = rng.sample(list(range(0, 12)) if rng.random() < 0.7 else [0, 3, 2 ** 31, 2 ** 53 + 1, 2 ** 62 + 1, 2 ** 63 - 1, 9007199254740995], ntracks)
    for ti in range(ntracks):
        avail = [i for i in order if i not in used]
        if len(avail) < 2:
            break
        root = min(avail, key=lambda i: (frames[i], rng.random()))
        members = [root]
        cand = [i for i in avail if frames[i] > frames[root]]
        rng.shuffle(cand)
        members += cand[: rng.randint(1, max(1, min(len(cand), 5)))] if cand else []
        if len(members) < 2:
            used.add(root)
            continue
        members.sort(key=lambda i: frames[i])
        edges = []
        for idx, m in enumerate(members[1:], 1):
            parents = [q for q in members[:idx] if frames[q] < frames[m]]
            if not parents:
                continue
            p = rng.choice(parents)
            edges.append((p, m))
            if len(parents) > 1 and rng.random() < 0.25:          # a merge
                p2 = rng.choice([q for q in parents if q != p])
                edges.append((p2, m))
        touched = {x for e in edges for x in e}
        if not edges:
            continue
        # keep only the members that got connected (parents may have been missing)
        comp = components(nspots, edges)
        if len(comp) != 1:
            continue
        used |= touched
        tes = []
        for a, b in edges:
            f = {}
            if rng.random() < 0.7:
                f["LINK_COST"] = ftext(rng)
            tes.append({"s": ids[a], "t": ids[b], "f": f})
        tracks.append({"id": tid_pool[ti], "name": f"Track_{tid_pool[ti]}",
                       "f": {"TRACK_INDEX": str(ti), "TRACK_DURATION": ftext(rng)}, "edges": tes})
    for j in range(rng.randint(0, 2)):
        isint = rng.random() < 0.4
        ef.append([f"EF{j}", isint, rng.choice(DIMS)])
        ipool = UINT_TEXTS if rng.random() < 0.25 else INT_TEXTS
        for t in tracks:
            for e in t["edges"]:
                if rng.random() < 0.5:
                    e["f"][f"EF{j}"] = rng.choice(ipool) if isint else ftext(rng)
    tids = [t["id"] for t in tracks]
    r = rng.random()
    filtered = None if r < 0.25 else [] if r < 0.35 else tids if r < 0.5 else [t for t in tids if rng.random() < 0.5] + ([99] if rng.random() < 0.1 else [])
    # ROIs: none, or every spot (0 points = no coordinate text, 1, 2, 3+ points; 2-D / 3-D; regular or ragged)
    if spots and rng.random() < 0.45:
        dim = rng.choice([2, 2, 3])
        same = rng.random() < 0.4
        npts = rng.randint(1, 4)
        for s in spots:
            k = npts if same else rng.randint(1, 5)
            if rng.random() < 0.12 and not same:
                s["roi"] = {"n": rng.choice([0, k]), "pts": None}
            else:
                s["roi"] = rand_roi(rng, k, dim)
    doc = mk_doc(spots, tracks, filtered, sf=sf, ef=ef, tf=tf)
    doc["space"] = rng.choice(["micrometer", "pixel", "nanometer", "millimeter", None])
    doc["time"] = rng.choice(["second", "frame", "minute", "hour", None])
    doc["log"] = rng.random() < 0.5
    doc["gui"] = rng.random() < 0.3
    doc["version"] = rng.choice(["7.11.1", "8.0.0-SNAPSHOT", None])
    r = rng.random()
    doc["settings"] = None if r < 0.25 else {"image": False} if r < 0.35 else {
        "filename": rng.choice(["img.tif", ""]), "folder": rng.choice(["/data/x", ""])}
    if filtered == [] and rng.random() < 0.5:
        doc["filtered_selfclosing"] = True
    return doc


def random_case(rng, big=False):
    return {"doc": random_doc(rng, big), "ds": rng.random() < 0.5, "dt": rng.random() < 0.5,
            "zf": rng.choice([2, 3]), "via": "cli" if rng.random() < 0.15 else "api"}


def malformed_case(rng):
    """documents outside TrackMate's invariants: only the outcome class is compared with the model"""
    for _ in range(50):
        c = random_case(rng)
        doc = c["doc"]
        kind = rng.choice(["roi-less-later-spot", "int-feature-float-text", "node-in-two-tracks", "track-without-id",
                           "unknown-dimension", "duplicate-feature", "missing-isint", "spot-without-id", "disconnected-track",
                           "string-in-float-feature", "undeclared-attribute", "self-link", "self-link"])
        sp, tr = doc["spots"], doc["tracks"]
        if kind == "roi-less-later-spot" and len(sp) >= 2:
            for s in sp:
                s["roi"] = {"n": 2, "pts": [["0.5", "1.5"], ["2.5", "3.5"]]}
            sp[rng.randrange(1, len(sp))]["roi"] = None
        elif kind == "int-feature-float-text" and sp:
            rng.choice(sp)["f"]["FRAME"] = "1.0"
        elif kind == "node-in-two-tracks" and len(tr) >= 2:
            tr[1]["edges"].append({"s": tr[0]["edges"][0]["s"], "t": tr[1]["edges"][0]["t"], "f": {}})
        elif kind == "track-without-id" and tr:
            tr[0]["id"] = None
        elif kind == "unknown-dimension":
            doc["sf"].append(["ODD", False, rng.choice(["BOGUS", None])])
        elif kind == "duplicate-feature":
            doc["sf"].append(list(doc["sf"][0]))
        elif kind == "missing-isint":
            doc["ef"].append(["NOINT", None, "NONE"])
        elif kind == "spot-without-id" and sp:
            lone = [s for s in sp if not any(s["id"] in (e["s"], e["t"]) for t in tr for e in t["edges"])]
            if not lone:
                continue
            lone[0]["id"] = None
        elif kind == "disconnected-track" and tr and len(sp) >= 4:
            used = {x for t in tr for e in t["edges"] for x in (e["s"], e["t"])}
            free = [s["id"] for s in sp if s["id"] not in used]
            if len(free) < 2:
                continue
            tr[0]["edges"].append({"s": free[0], "t": free[1], "f": {}})
        elif kind == "self-link" and tr:
            # a link from a spot of the track to itself: keeps every other clause of WF (tracks stay vertex-disjoint and
            # connected); the converter accepts it, graph validation of the output must reject it
            t0 = rng.choice(tr)
            n0 = rng.choice([x for e in t0["edges"] for x in (e["s"], e["t"])])
            t0["edges"].insert(rng.randint(0, len(t0["edges"])), {"s": n0, "t": n0, "f": {}})
        elif kind == "string-in-float-feature" and sp:
            rng.choice(sp)["f"]["QUALITY"] = "high"
        elif kind == "undeclared-attribute" and sp:
            for s in sp:
                if rng.random() < 0.6:
                    s["f"]["MYSTERY"] = rng.choice(["3", "x", "1.5"])
        else:
            continue
        c["malformed"] = kind
        return c
    c = random_case(rng)
    c["doc"]["sf"].append(["ODD", False, "BOGUS"])
    c["malformed"] = "unknown-dimension"
    return c


def doc_from_xml(path):
    """independent reader (xml.etree DOM, no streaming) of a TrackMate file into the abstract document"""
    import xml.etree.ElementTree as ET

    root = ET.parse(path).getroot()
    model = root.find("Model")
    doc = {"version": root.attrib.get("version"), "space": model.attrib.get("spatialunits"),
           "time": model.attrib.get("timeunits"), "log": root.find("Log") is not None, "gui": root.find("GUIState") is not None}
    fd = model.find("FeatureDeclarations")
    for tag, key in (("SpotFeatures", "sf"), ("EdgeFeatures", "ef"), ("TrackFeatures", "tf")):
        doc[key] = [[f.attrib["feature"], None if "isint" not in f.attrib else f.attrib["isint"] == "true",
                     f.attrib.get("dimension")] for f in fd.find(tag).findall("Feature")]
    spots = []
    for sif in model.find("AllSpots").findall("SpotsInFrame"):
        for sp in sif.findall("Spot"):
            a = dict(sp.attrib)
            s = {"id": int(a.pop("ID")), "name": a.pop("name", None), "frame": int(sif.attrib["frame"]), "roi": None}
            if "ROI_N_POINTS" in a:
                n = int(a.pop("ROI_N_POINTS"))
                vals = (sp.text or "").split()
                dim = len(vals) // n if vals else 0
                s["roi"] = {"n": n, "pts": [vals[i:i + dim] for i in range(0, len(vals), dim)] if vals else None}
            s["f"] = a
            spots.append(s)
    doc["spots"] = spots
    tracks = []
    for tr in model.find("AllTracks").findall("Track"):
        a = dict(tr.attrib)
        t = {"id": int(a.pop("TRACK_ID")), "name": a.pop("name", ""), "f": a, "edges": []}
        for e in tr.findall("Edge"):
            ea = dict(e.attrib)
            t["edges"].append({"s": int(ea.pop("SPOT_SOURCE_ID")), "t": int(ea.pop("SPOT_TARGET_ID")), "f": ea})
        tracks.append(t)
    doc["tracks"] = tracks
    ft = model.find("FilteredTracks")
    doc["filtered"] = None if ft is None else [int(x.attrib["TRACK_ID"]) for x in ft.findall("TrackID")]
    st = root.find("Settings")
    if st is None:
        doc["settings"] = None
    else:
        im = st.find("ImageData")
        doc["settings"] = {"image": False} if im is None else {"filename": im.attrib.get("filename", ""), "folder": im.attrib.get("folder", "")}
    return doc


def corpus():
    d = common.VERIF / "harness" / "corpus" / PROP
    for f in sorted(d.glob("*.json")):
        c = json.loads(f.read_text())
        if "xml_file" in c:      # a real TrackMate file of the tree under test, read by the independent DOM reader
            path = common.REPO / c.pop("xml_file")
            doc = doc_from_xml(path)
            for ds, dt in itertools.product((False, True), repeat=2):
                yield dict(c, doc=doc, ds=ds, dt=dt, xml_path=str(path))
        else:
            yield c


# ----------------------------------------------------------------- model side
def classify(text):
    text = str(text)
    try:
        return {"i": str(int(text)), "t": text}
    except ValueError:
        pass
    try:
        float(text)
        return {"f": text}
    except ValueError:
        return {"s": text}


def model_request(case):
    doc = case["doc"]

    def feats(d):
        return [[k, classify(v)] for k, v in d.items()]
    return {
        "space": doc.get("space"), "time": doc.get("time"),
        "sf": [[f[0], f[1], f[2]] for f in doc["sf"]], "ef": [[f[0], f[1], f[2]] for f in doc["ef"]],
        "tf": [[f[0], f[1], f[2]] for f in doc["tf"]],
        "spots": [{"id": None if s.get("id") is None else str(s["id"]), "name": s.get("name"), "f": feats(s["f"]),
                   "roi": None if s.get("roi") is None else {"n": s["roi"]["n"], "pts": s["roi"]["pts"]}} for s in doc["spots"]],
        "tracks": [{"id": None if t.get("id") is None else classify(t["id"]), "f": feats(t.get("f", {})),
                    "edges": [{"s": str(e["s"]), "t": str(e["t"]), "f": feats(e.get("f", {}))} for e in t["edges"]]} for t in doc["tracks"]],
        "filtered": None if doc.get("filtered") is None else [str(t) for t in doc["filtered"]], "ds": case["ds"], "dt": case["dt"]}


def model_cell(v, kind):
    if v is None:
        return None
    if "i" in v:
        return {"f": fhex(float(int(v["i"])))} if kind == "float64" else {"i": v["i"]}
    if "fi" in v:
        return {"f": fhex(float(int(v["fi"])))}
    if "ft" in v:
        return {"f": fhex(float(v["ft"]))}
    if "s" in v:
        return {"s": v["s"]}
    if "roi" in v:
        pts = v["roi"]
        return {"a": [fhex(float(x)) for p in pts for x in p], "shape": [len(pts), len(pts[0]) if pts else 0]}
    if "none" in v:
        return {"a": [], "shape": [0, 0]}      # a Python None in a ragged column (the converter no longer produces one)
    return v


KIND_DTYPE = {"int64": "int64", "uint64": "uint64", "float64": "float64", "str": "str", "roi-regular": "float64", "roi-varlen": "object:float64"}
AXES = ["POSITION_X", "POSITION_Y", "POSITION_Z", "POSITION_T"]


def compare_model(case, o, mo):
    """-> (verdict, detail): verdict in {"same", "differs", "unmodelled"}"""
    if "err" in mo:
        return "differs", f"driver error {mo['err']}"
    if "unreadable" in o:
        if "exc" in mo and not mo["exc"].startswith("unmodelled"):
            return "differs", f"model raises {mo['exc']}, implementation wrote an unreadable output: {o['unreadable']}"
        return "differs", f"implementation output unreadable: {o['unreadable']}"
    if "exc" in mo:
        if mo["exc"].startswith("unmodelled"):
            return "unmodelled", mo["exc"]
        if o.get("exc") != mo["exc"]:
            return "differs", f"outcome: model raises {mo['exc']}, implementation {o.get('exc', 'succeeds')}"
        return "same", ""
    if "exc" in o:
        return "differs", f"outcome: model succeeds, implementation raises {o['exc']}: {o.get('msg', '')[:120]}"
    if o.get("structure") != "ok":
        return "differs", f"structure: {o.get('structure')}"
    m = mo["ok"]
    if [int(x) for x in m["nodes"]] != o["nodes"]:
        return "differs", "node order/set"
    if [[int(a), int(b)] for a, b in m["edges"]] != o["edges"]:
        return "differs", "edge order/set"
    unmodelled = False
    for grp in ("node", "edge"):
        mp, ip, meta = m[f"{grp}_props"], o[f"{grp}_props"], o[f"{grp}_meta"]
        if grp == "node" and not o["nodes"]:
            if not set(ip) <= set(AXES):
                return "differs", f"empty graph carries node properties {sorted(ip)}"
            continue
        if sorted(mp) != sorted(ip):
            return "differs", f"{grp} property names: model {sorted(mp)} impl {sorted(ip)}"
        for k, col in mp.items():
            if col["kind"] == "unmodelled":
                unmodelled = True
                continue
            if KIND_DTYPE[col["kind"]] != ip[k]["dtype"]:
                return "differs", f"{grp} property {k}: model kind {col['kind']}, stored dtype {ip[k]['dtype']}"
            for idx, (a, b) in enumerate(zip(col["cells"], ip[k]["cells"])):
                if not same_cell(model_cell(a, col["kind"]), b):
                    return "differs", f"{grp} property {k} element {idx}: model {a}, stored {b}"
            decl = col["decl"]
            if (None if decl is None else decl[1]) != meta[k][2]:
                return "differs", f"{grp} property {k}: unit model {decl and decl[1]} stored {meta[k][2]}"
    su, tu = m["space"], m["time"]
    if o["axes"] != [[a, "space" if a != "POSITION_T" else "time", su if a != "POSITION_T" else tu] for a in AXES]:
        return "differs", "axes/units"
    if m["lineage"] != (o["track_node_props"] is not None):
        return "differs", f"lineage declaration: model {m['lineage']}, metadata.track_node_props {o['track_node_props']}"
    return ("unmodelled" if unmodelled else "same"), ""


# ----------------------------------------------------------------- the check
def tag_of(case, o):
    doc = case["doc"]
    if case.get("malformed"):
        return "malformed-" + case["malformed"] + ("-EXC" if "exc" in o else "")
    bits = []
    bits.append("ds" if case["ds"] else "")
    bits.append("dt" if case["dt"] else "")
    bits.append("nofilter" if doc.get("filtered") is None else "emptyfilter" if not doc["filtered"] else "filter")
    bits.append("roi" if any(s.get("roi") for s in doc["spots"]) else "")
    bits.append("lone" if any(not any(s["id"] in (e["s"], e["t"]) for t in doc["tracks"] for e in t["edges"]) for s in doc["spots"]) else "")
    bits.append(case.get("via", "api"))
    return "-".join(b for b in bits if b) + ("-EXC" if "exc" in o else "")


def run(ck: common.Check):
    ck.prove(["GeffProps.C16", "GeffProps.C16Links", "GeffProps.C16Cli", "GeffProps.C16Xml", "GeffProps.C16XmlDoc"])
    drv = ck.driver()
    if os.path.isdir("/dev/shm") and os.access("/dev/shm", os.W_OK):
        tempfile.tempdir = "/dev/shm"           # conversions write hundreds of small zarr files
    ck.rule = ("cases = corpus (incl. the repo's FakeTracks.xml) + ALL forward edge sets over <=N spots (tracks = connected "
               "components) x FilteredTracks variants {absent, empty, first, all, rest} x the four discard-flag combinations + "
               "seeded random documents (0-4 frames, 0-8 spots, 0-3 vertex-disjoint connected tracks with splits and merges, lone "
               "spots, 0-4 extra int/float spot features and 0-2 edge features on subsets, NaN/Infinity texts, ROIs regular/"
               "ragged/2-D/3-D, with/without Settings/Log/GUIState/units/FilteredTracks, zarr format 2/3, API or CLI) + a "
               "malformed stream; non-trivial = at least one spot; distinct = canonical JSON of the case")
    cases = list(corpus())
    n_corpus = len(cases)
    nmax = 3 if ck.quick else 4
    cases += list(exhaustive(nmax))
    for i in range(260 if ck.quick else 3000):
        cases.append(random_case(ck.rng, big=(i % 7 == 0)))
    for _ in range(60 if ck.quick else 500):
        cases.append(malformed_case(ck.rng))
    ck.extra["corpus_cases"] = n_corpus
    ck.extra["exhaustive_upto_spots"] = nmax
    obs = common.pmap(observe, cases, chunksize=4)
    def guarded(what, c, f, dflt):
        """nothing the harness computes about a case may abort the check: an exception here means the
        implementation's output has a form the oracle cannot judge — reported with the case as replay"""
        try:
            return f()
        except Exception as ex:  # noqa: BLE001
            ck.fail("C16:harness-cannot-judge-output", f"{what} raised {type(ex).__name__}: {str(ex)[:160]}", c,
                    None, "an output of the specified form")
            return dflt

    empty_req = {"space": None, "time": None, "sf": [], "ef": [], "tf": [], "spots": [], "tracks": [], "filtered": None,
                 "ds": False, "dt": False}
    answers = drv.ask([guarded("building the model request", c, lambda c=c: model_request(c), empty_req) for c in cases])
    if answers is None:
        ck.broken.append({"what": "driver Drivers/C16.lean", "detail": drv.broken})
    n_unmodelled = n_model = n_spec = 0
    wf_hist = {}

    def spec_crosscheck(c, sp):
        keep, _, track_of = expected_graph(c["doc"], c["ds"], c["dt"])
        ids = [s_["id"] for s_ in c["doc"]["spots"]]
        lean_tid = [None if t is None else int(t.get("i", t.get("fi", "-999999"))) for t in sp["track_id"]]
        if not (sp["wf"] and sp["meta_ok"] and sp["connected"]):
            ck.corr_broken("C16:generated document of the regular stream fails wfB/metaOkB/tracksConnectedB "
                           "(theorems would not apply)", c, None, sp)
        elif [int(x) for x in sp["keep"]] != keep:
            ck.corr_broken("C16:keepSpot (Lean spec) vs python oracle: kept spots", c, keep, sp["keep"])
        elif lean_tid != [track_of.get(n) for n in ids]:
            ck.corr_broken("C16:trackIdOf (Lean spec) vs python oracle", c, [track_of.get(n) for n in ids], lean_tid)
        elif sp["lone"] != [n not in track_of for n in ids]:
            ck.corr_broken("C16:lone (Lean spec) vs python oracle", c, None, sp["lone"])

    for i, (c, o) in enumerate(zip(cases, obs)):
        ck.case({k: v for k, v in c.items() if k not in ("doc", "xml_path")} | {"doc_digest": json.dumps(c["doc"], sort_keys=True, default=str)[:4000]},
                guarded("tagging", c, lambda: tag_of(c, o), "untagged"), nontrivial=bool(c["doc"].get("spots")))
        if c.get("malformed"):
            fails = []
            if "unreadable" in o:      # no verdict on what a malformed document should give, but the output must be readable
                fails = [("C16:output-unreadable", f"malformed document ({c['malformed']}): the converter returned but its output "
                          f"cannot be read back: {o['unreadable']}", "an exception or a readable geff")]
            elif c["malformed"] == "self-link":
                # GeffProps.C16Links.C16_graph_validation_iff / C16_counterexample_self_link: the converter accepts the
                # document and graph validation of its output fails exactly when a kept link is a self link
                keep, edges, _ = expected_graph(c["doc"], c["ds"], c["dt"])
                kept_self = any(a == b for a, b, _, _ in edges)
                got = ("exc" if "exc" in o else "graph-ok" if o.get("graph") == "ok" else "graph-rejects")
                want = "graph-rejects" if kept_self else "graph-ok"
                if got != want:
                    ck.corr_broken(f"C16:self-link document: expected {want} (conversion succeeds; validate_data(graph=True) "
                                   f"rejects iff a kept link is a self link), observed {got}", c,
                                   {k: o.get(k) for k in ("exc", "msg", "graph", "edges") if k in o}, want)
        else:
            fails = guarded("the specification oracle", c, lambda: oracle(c, o), [("C16:harness-cannot-judge-output", "", "")])
        for key, what, exp in fails:
            if key == "C16:harness-cannot-judge-output":
                continue      # already recorded by guarded()
            ck.fail(key, what, c, {k: o.get(k) for k in ("exc", "msg", "unreadable", "structure", "nodes", "edges", "lineage", "graph",
                                                         "track_node_props") if k in o}, exp)
        if answers is None:
            continue
        sp = answers[i].get("spec")
        if sp is not None:
            # the specification vocabulary of the theorems (keepSpot / trackIdOf / lone, evaluated in Lean on
            # the document) against the independent Python reading of the property, and the hypotheses of the
            # theorems (wfB / metaOkB / tracksConnectedB) on every document of the regular stream
            kind = c.get("malformed") or "regular"
            key3 = f"{kind}: wf={sp['wf']} meta={sp['meta_ok']} connected={sp['connected']}"
            wf_hist[key3] = wf_hist.get(key3, 0) + 1
            if not c.get("malformed"):
                n_spec += 1
                guarded("cross-checking the Lean spec vocabulary", c, lambda: spec_crosscheck(c, sp), None)
        verdict, detail = guarded("comparing with the model", c, lambda: compare_model(c, o, answers[i]),
                                  ("differs", "comparison failed"))
        if verdict == "unmodelled":
            n_unmodelled += 1
        else:
            n_model += 1
        if verdict == "differs" and not fails:
            ck.corr_broken(f"C16:Geff.TrackMate.convert vs from_trackmate_xml_to_geff: {detail}", c,
                           {k: o.get(k) for k in ("exc", "msg", "unreadable", "nodes", "edges") if k in o},
                           answers[i] if "exc" in answers[i] else "see model")
    # ---- the XML layer (iterparse events, cursor functions, _build_data on unusual documents): harness/corr/_c16_xml.py
    from harness.corr import _c16_xml

    _c16_xml.run_streams(ck, drv, common, random_doc, common.VERIF / "harness" / "corpus" / PROP)
    ck.extra["model_comparisons"] = n_model
    ck.extra["s_oracle_evaluations"] = n_spec
    ck.extra["hypotheses_of_theorems_on_generated_documents"] = wf_hist
    ck.extra["unmodelled_outcomes_skipped"] = n_unmodelled
    ck.extra["explanation"] = (
        "The theorems are about Geff.TrackMate.convert on abstract documents (graph construction, typing by isint, TRACK_ID "
        "stamping with its assertion, the two discard rules, metadata consistency, property columns with missing flags, lineage "
        "validity) and about the streaming layer on element trees (GeffProps.C16Xml: every cursor function on lxml's event "
        "stream computes the tree-level value and consumes exactly its section; _build_data = a walk over the tree; frame "
        "theorem; GeffProps.C16XmlDoc: for files in standard layout _build_data on the event stream = the abstract buildData "
        "on docOfTree, so the end-to-end statements start at the XML tree). PARTIAL for what lies beneath: lxml's parser and "
        "chunked event delivery, Python's int()/float() lexing (a parameter of the model) and the zarr write/read are "
        "exercised by the correspondence (rendered documents and trees, the repo's FakeTracks.xml converted as it is), not "
        "modelled. Declared-but-valueless features are not stored (nothing to store).")
    ck.assumptions += [
        "lxml's parser is taken as given: its event stream is compared with the model's `events` on every generated tree "
        "(comments, processing instructions, tail text yield no event); element.clear() is not represented because every "
        "read of attrib/text happens on the event being handled before the clear (tie: the real cursor functions are called)",
        "Python int()/float() classify attribute texts (the lexer of the abstract document); float values are compared as "
        "float(text) bit patterns, NaN == NaN",
        "NxBackend.write/write_arrays/zarr/read_to_memory are used as given (C01/C03); the model stops at the property "
        "columns handed to write_arrays",
        "well-formed = TrackMate's own invariants: unique spot ids, declared features with isint, tracks vertex-disjoint and "
        "connected, edges between existing spots, ROI on all spots or none",
    ]


def replay(rp):
    c = rp["case"]
    if "xml_case" in c or "xml_chunk_case" in c:
        from harness.corr import _c16_xml

        text, failed = _c16_xml.replay_case(c)
        print(text)
        print("REPLAY: property FAILS on this input" if failed else "REPLAY: property holds on this input")
        return 1 if failed else 0
    if os.path.isdir("/dev/shm") and os.access("/dev/shm", os.W_OK):
        tempfile.tempdir = "/dev/shm"
    o = observe(c)
    try:
        fails = [] if c.get("malformed") else oracle(c, o)
        if c.get("malformed") and "unreadable" in o:
            fails = [("C16:output-unreadable", o["unreadable"], "")]
    except Exception as ex:  # noqa: BLE001
        fails = [("C16:harness-cannot-judge-output", f"the specification oracle raised {type(ex).__name__}: {ex}", "")]
    known = {k["key"] for k in common.load_known() if k["property"] == PROP and k["kind"] == "known"}
    print(json.dumps({"flags": {k: c[k] for k in ("ds", "dt", "zf", "via") if k in c}, "xml": render(c["doc"])[:3000],
                      "observed": {k: o.get(k) for k in ("exc", "msg", "unreadable", "structure", "nodes", "edges", "graph", "lineage", "track_node_props") if k in o},
                      "failures": [[k, w] for k, w, _ in fails]}, default=str))
    real = [f for f in fails if f[0] not in known]
    print("REPLAY: property holds on this input" if not fails else
          "REPLAY: property FAILS on this input" + ("" if real else " (known finding)"))
    return 0 if not fails else 1
