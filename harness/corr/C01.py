"""C01 — write-then-read returns the same graph (ids, properties, missing masks, var-length).

Implementation: geff.core_io.write_arrays followed by geff.core_io.read_to_memory (= GeffReader.build()).
Specification oracle (independent of any model, numpy level): `_rw_shared.same_graph`.
Model: Geff.WR.writeArrays / readToMemory (lean/GeffModel/WriteRead.lean) through Drivers/C01.lean;
theorems GeffProps.C01.  Correspondence, per case:
  (a) real write -> real read, judged by the specification oracle            (-> ck.fail on a violation)
  (b) raw zarr dump of the real store  ==  the model's store after writeArrays (-> corr_broken)
  (c) model's readToMemory of the real dump == what the real reader returned   (-> corr_broken)
  (d) outcome class of the real write == outcome of the model (error branch)   (-> corr_broken)
Read-side configurations of the round trip (entry point x structure_validation x data_validation x property
selection): `_c01_readcfg.py`, model `GeffModel/ReadOpts.lean`, theorems `GeffProps/C01ReadOpts.lean`.
"""
from __future__ import annotations

import itertools
import json

import numpy as np

from harness import common
from harness.corr import _c01_readcfg as RC
from harness.corr import _rw_shared as R

PROP = "C01"


# ----------------------------------------------------------------- implementation observation
def exc_class(e: BaseException) -> str:
    if isinstance(e, FileExistsError):
        return "FileExistsError"
    if isinstance(e, ValueError):       # pydantic's ValidationError is a ValueError
        return "ValueError"
    if isinstance(e, TypeError):
        return "TypeError"
    return type(e).__name__


def make_metadata(md):
    import geff_spec

    def pm(lst):
        return {k: geff_spec.PropMetadata(identifier=k, dtype=dt, varlength=vl) for k, dt, vl in lst}
    axes = None if md.get("axes") is None else [geff_spec.Axis(name=a) for a in md["axes"]]
    return geff_spec.GeffMetadata(geff_version="1.0.0", directed=md.get("directed", True), axes=axes,
                                  node_props_metadata=pm(md.get("node_props", [])),
                                  edge_props_metadata=pm(md.get("edge_props", [])))


def apply_unsquish(props, uns):
    """documented `props_unsquish`: the 2-D property `name` is stored as one 1-D property per column"""
    props = dict(props)
    for name, news in (uns or {}).items():
        p = props[name]
        for i, nn in enumerate(news):
            props[nn] = {"values": p["values"][:, i], "missing": p["missing"]}
        del props[name]
    return props


def expected_graph(g, md, node_uns=None, edge_uns=None):
    """the graph the reader must return: the one given to the writer; documented additions (write_arrays docstring):
    on an EMPTY graph every axis named in the metadata that has no node property gets an empty float64 one;
    unsquished properties come back as their columns"""
    if node_uns or edge_uns:
        g = {**g, "node_props": apply_unsquish(g["node_props"], node_uns), "edge_props": apply_unsquish(g["edge_props"], edge_uns)}
    if md.get("axes") and len(g["node_ids"]) == 0 and g["node_props"] is not None:
        extra = {a: {"values": np.empty((0,), dtype="float64"), "missing": None} for a in md["axes"] if a not in g["node_props"]}
        return {**g, "node_props": {**g["node_props"], **extra}}
    return g


def impl_run(case):
    """write with the real writer, dump, read with the real reader; everything canonicalised."""
    import copy

    from geff.core_io import read_to_memory, write_arrays

    g = R.build_geff(case["g"])
    md = case.get("md") or {}
    obs = {"write": None, "read": None, "dump": None, "spec": []}
    with R.StoreCtx(case.get("store", "mem")) as store:
        gin = copy.deepcopy(g)
        try:
            write_arrays(store, gin["node_ids"], gin["node_props"], gin["edge_ids"], gin["edge_props"],
                         make_metadata(md), zarr_format=case.get("fmt", 2),
                         node_props_unsquish=case.get("node_unsquish"), edge_props_unsquish=case.get("edge_unsquish"),
                         structure_validation=case.get("validate", True))
            obs["write"] = "ok"
        except BaseException as e:  # noqa: BLE001
            obs["write"] = exc_class(e)
            obs["write_msg"] = str(e)[:200]
            return obs
        try:
            obs["dump"] = R.dump_store(store)
            obs["format"] = R.store_format(store)
        except BaseException as e:  # noqa: BLE001
            obs["dump_error"] = f"{type(e).__name__}: {e}"[:200]
        try:
            o = read_to_memory(store, structure_validation=case.get("validate", True))
            obs["read"] = "ok"
        except BaseException as e:  # noqa: BLE001
            obs["read"] = exc_class(e)
            obs["read_msg"] = str(e)[:200]
            return obs
        obs["inmem"] = R.enc_inmem(o)
        if wf_case(case):
            obs["spec"] = R.same_graph(expected_graph(g, md, case.get("node_unsquish"), case.get("edge_unsquish")), o)
        md_out = o["metadata"]
        obs["md_props"] = {"node": sorted([k, v.dtype, v.varlength] for k, v in md_out.node_props_metadata.items()),
                           "edge": sorted([k, v.dtype, v.varlength] for k, v in md_out.edge_props_metadata.items())}
    return obs


# ----------------------------------------------------------------- histories: several writes sharing caller objects
def history_run(h):
    """2-3 writes of DIFFERENT well-formed graphs into different fresh targets that re-use caller objects
    (`share`): "metadata" = one GeffMetadata instance for all writes; "read-metadata" = the metadata object
    returned by reading the previous geff; "props" = the same property dicts / numpy arrays handed to every
    write.  In the Lean model write_arrays is a pure function of its arguments, so whatever the shared objects
    went through before cannot matter; each step is judged by the specification oracle alone."""
    import copy

    from geff.core_io import read_to_memory, write_arrays

    share = h["share"]
    steps = h["steps"]
    shared_md = make_metadata(h.get("md") or {}) if share == "metadata" else None
    shared_props = None
    prev_md = None
    out = []
    for k, st in enumerate(steps):
        g = R.build_geff(st["g"])
        md_json = st.get("md") or h.get("md") or {}
        if share == "metadata":
            md_obj = shared_md
        elif share == "read-metadata" and prev_md is not None:
            md_obj = prev_md
        else:
            md_obj = make_metadata(md_json)
        if share == "props":
            # the same dict objects and VALUES arrays for every write; from one write to the next the caller changes
            # the masks (removes, inverts, shifts them).  The graph to come back: the original values, the current masks.
            if shared_props is None:
                shared_props = (copy.deepcopy(g["node_props"]), copy.deepcopy(g["edge_props"]))
                pristine = R.build_geff(steps[0]["g"])
                cur = {"node_props": {nm: p["missing"] for nm, p in pristine["node_props"].items()},
                       "edge_props": {nm: p["missing"] for nm, p in pristine["edge_props"].items()}}
            for key, dct in (("node_props", shared_props[0]), ("edge_props", shared_props[1])):
                for nm, mj in (st.get("masks") or {}).get(key, {}).items():
                    cur[key][nm] = None if mj is None else R.dec_arr(mj)
                    dct[nm]["missing"] = None if mj is None else R.dec_arr(mj)
            node_props, edge_props = shared_props
            want = {**g, **{key: {nm: {"values": pristine[key][nm]["values"], "missing": cur[key][nm]} for nm in pristine[key]}
                            for key in ("node_props", "edge_props")}}
        elif share == "alias":
            # several properties (node and edge side) backed by ONE ndarray / overlapping views of it, each with its own mask
            base = R.dec_arr(st["alias"]["base"])
            keep = base.copy()
            node_props, edge_props = copy.deepcopy(g["node_props"]), copy.deepcopy(g["edge_props"])
            want = {**g, "node_props": dict(copy.deepcopy(g["node_props"])), "edge_props": dict(copy.deepcopy(g["edge_props"]))}
            for side, nm, start, mj in st["alias"]["uses"]:
                kk = len(g["node_ids"]) if side == "node_props" else len(g["edge_ids"])
                m = None if mj is None else R.dec_arr(mj)
                (node_props if side == "node_props" else edge_props)[nm] = {"values": base[start:start + kk], "missing": m}
                want[side][nm] = {"values": keep[start:start + kk], "missing": None if m is None else m.copy()}
        else:
            node_props, edge_props = copy.deepcopy(g["node_props"]), copy.deepcopy(g["edge_props"])
            want = g
        ob = {"step": k, "write": None, "read": None, "spec": []}
        out.append(ob)
        with R.StoreCtx(st.get("store", "mem")) as store:
            try:
                write_arrays(store, g["node_ids"], node_props, g["edge_ids"], edge_props, md_obj,
                             zarr_format=st.get("fmt", 2), structure_validation=st.get("validate", True))
                ob["write"] = "ok"
            except BaseException as e:  # noqa: BLE001
                ob["write"] = exc_class(e)
                ob["msg"] = str(e)[:300]
                break
            try:
                o = read_to_memory(store)      # always a validated read (also after structure_validation=False)
                ob["read"] = "ok"
            except BaseException as e:  # noqa: BLE001
                ob["read"] = exc_class(e)
                ob["msg"] = str(e)[:300]
                break
            ob["spec"] = R.same_graph(expected_graph(want, md_json), o)
            prev_md = o["metadata"]
            if ob["spec"]:
                break
    return out


def history_cases(rng, n):
    """histories of well-formed graphs whose property sets, dtypes and sizes differ from step to step"""
    out = []

    def small(kind):
        nn = {"empty": 0, "one": 1, "some": rng.randint(2, 6)}[kind]
        idt = rng.choice(R.INT_DTYPES)
        ii = np.iinfo(idt)
        nodes = rng.sample(range(max(int(ii.min), -100), min(int(ii.max), 100) + 1), nn)
        ne = 0 if nn == 0 else rng.randint(0, 4)
        edges = [[rng.choice(nodes), rng.choice(nodes)] for _ in range(ne)]
        return ({"dtype": idt, "shape": [nn], "flat": nodes}, {"dtype": idt, "shape": [ne, 2], "flat": [x for e in edges for x in e]})

    pool = ["a", "b", "c", "values", "t", "ü"]
    for i in range(n):
        share = ["metadata", "metadata", "read-metadata", "props"][i % 4]
        k = rng.choice([2, 2, 3])
        steps = []
        names_prev_n, names_prev_e = None, None
        for j in range(k):
            nid, eid = small(rng.choice(["empty", "one", "some", "some"]))
            if share == "props" and j > 0:
                nid, eid = steps[0]["g"]["node_ids"], steps[0]["g"]["edge_ids"]       # same graph, same dict objects
            nn, ne = nid["shape"][0], eid["shape"][0]
            if share == "read-metadata" and j > 0:
                # the metadata read from the previous geff describes its properties: the next graph keeps those names
                n_names = names_prev_n + [x for x in rng.sample(pool, rng.randint(0, 2)) if x not in names_prev_n]
                e_names = names_prev_e + [x for x in rng.sample(pool, rng.randint(0, 1)) if x not in names_prev_e]
            else:
                n_names = rng.sample(pool, rng.randint(0, 3))
                e_names = rng.sample(pool, rng.randint(0, 2))
            g = {"node_ids": nid, "edge_ids": eid,
                 "node_props": [[nm, R.rand_prop(rng, nn)] for nm in n_names],
                 "edge_props": [[nm, R.rand_prop(rng, ne)] for nm in e_names]}
            R.set_layouts(rng, g, p=0.2)
            names_prev_n, names_prev_e = n_names, e_names
            step = {"g": g, "fmt": rng.choice([2, 3]), "validate": rng.random() < 0.7,
                    "store": "mem" if rng.random() < 0.9 else rng.choice(["local", "path", "str"])}
            if share == "props":
                if j == 0:
                    # fixed-shape properties with masks that flag something, on a non-empty graph
                    if nn == 0:
                        nid, eid = small("some")
                        nn, ne = nid["shape"][0], eid["shape"][0]
                        g.update(node_ids=nid, edge_ids=eid, node_props=[[nm, R.rand_prop(rng, nn)] for nm in n_names],
                                 edge_props=[[nm, R.rand_prop(rng, ne)] for nm in e_names])
                    g["node_props"].append(["masked", R.rand_prop(rng, nn, allow_vlen=False, dtypes=["int16", "float32", "str", "bool", "uint64"])])
                    for key, kk in (("node_props", nn), ("edge_props", ne)):
                        for _, pr in g[key]:
                            if "obj" not in pr["values"] and kk and (pr["missing"] is None or not any(pr["missing"]["flat"])):
                                flat = [rng.random() < 0.5 for _ in range(kk)]
                                flat[rng.randrange(kk)] = True
                                pr["missing"] = {"dtype": "bool", "shape": [kk], "flat": flat}
                            pr["values"].pop("layout", None) if "obj" not in pr["values"] else None
                else:
                    g0 = steps[0]["g"]
                    masks = {"node_props": {}, "edge_props": {}}
                    for key in masks:
                        for nm, pr in g0[key]:
                            if pr["missing"] is None:
                                continue
                            old_ = pr["missing"]["flat"]
                            op = rng.choice(["remove", "invert", "shift", "keep"])
                            if op == "remove":
                                masks[key][nm] = None
                            elif op == "invert":
                                masks[key][nm] = {"dtype": "bool", "shape": [len(old_)], "flat": [not b for b in old_]}
                            elif op == "shift":
                                masks[key][nm] = {"dtype": "bool", "shape": [len(old_)], "flat": old_[-1:] + old_[:-1]}
                    step["masks"] = masks
            steps.append(step)
        h = {"share": share, "steps": steps, "origin": "history-" + share}
        if share == "metadata" and rng.random() < 0.5:
            h["md"] = {"directed": rng.random() < 0.5}
        out.append(h)
    # single writes in which several properties alias ONE ndarray (the same object / overlapping views), masks differing
    for i in range(max(4, n // 4)):
        nid, eid = small("some")
        nn, ne = nid["shape"][0], eid["shape"][0]
        dt = rng.choice(["int32", "float64", "str", "bool", "uint8", "float32"])
        tail = rng.choice([[], [], [2]])
        L = max(nn, ne) + 3
        base = R.rand_array(rng, dt, [L, *tail])

        def mask(kk, want_true):
            flat = [rng.random() < 0.5 for _ in range(kk)]
            if kk and want_true:
                flat[rng.randrange(kk)] = True
            return {"dtype": "bool", "shape": [kk], "flat": flat}
        uses = [["node_props", "al0", 0, mask(nn, True)], ["node_props", "al1", 0, rng.choice([None, mask(nn, False)])],
                ["node_props", "al2", rng.randint(0, 3), mask(nn, True)]]
        if ne:
            uses.append(["edge_props", "al0", rng.randint(0, 3), rng.choice([None, mask(ne, True)])])
            uses.append(["edge_props", "al3", 0, mask(ne, True)])
        rng.shuffle(uses)
        out.append({"share": "alias", "origin": "history-alias", "steps": [
            {"g": {"node_ids": nid, "edge_ids": eid, "node_props": [], "edge_props": []}, "fmt": rng.choice([2, 3]), "validate": True,
             "alias": {"base": base, "uses": uses}}]})
    # the minimal scenario: A = {p, q}, then B = {p} through ONE metadata object
    nid, eid = tiny_ids("uint8", 2, 1)
    p_ = ["p", {"values": det_array("int16", [2], 1), "missing": None}]
    q_ = ["q", {"values": det_array("float32", [2, 2], 2), "missing": {"dtype": "bool", "shape": [2], "flat": [False, True]}}]
    w_ = ["w", {"values": det_array("uint8", [1], 3), "missing": None}]
    for val in (True, False):
        out.append({"share": "metadata", "origin": "history-metadata", "steps": [
            {"g": {"node_ids": nid, "edge_ids": eid, "node_props": [p_, q_], "edge_props": [w_]}, "fmt": 2, "validate": val},
            {"g": {"node_ids": nid, "edge_ids": eid, "node_props": [p_], "edge_props": []}, "fmt": 3, "validate": val},
            {"g": {"node_ids": tiny_ids("int64", 0, 0)[0], "edge_ids": tiny_ids("int64", 0, 0)[1], "node_props": [], "edge_props": []},
             "fmt": 2, "validate": True}]})
    return out


# ----------------------------------------------------------------- pre-state of the target: overwrite=True on a shared container
PRESTATES = ["same+masks", "renamed", "superset", "unrelated"]


def _alt_mask(k):
    m = np.zeros(k, dtype=bool)
    m[::2] = True
    return m


def prestate_graph(g, kind):
    """the geff that occupies the target BEFORE the write under test: built from the graph to come so that stale arrays
    would be visible afterwards — the same property names with missing masks everywhere (the new write has none or
    others), renamed / additional properties (dense, masked, var-length), or an unrelated graph"""
    if kind == "unrelated":
        obj = np.empty(3, dtype=object)
        for i in range(3):
            obj[i] = np.arange(i + 1, dtype="int32")
        return {"node_ids": np.array([1, 2, 3], dtype="uint8"), "edge_ids": np.array([[1, 2]], dtype="uint8"),
                "node_props": {"p": {"values": np.arange(3, dtype="int16"), "missing": np.array([True, False, True])},
                               "vl": {"values": obj, "missing": np.array([False, True, False])}},
                "edge_props": {"w": {"values": np.array([1.5], dtype="float32"), "missing": np.array([True])}}}
    out = {"node_ids": g["node_ids"].copy(), "edge_ids": g["edge_ids"].copy()}
    for key, k in (("node_props", len(g["node_ids"])), ("edge_props", len(g["edge_ids"]))):
        props = {}
        for nm, p in (g[key] or {}).items():
            name = nm + "_o" if kind == "renamed" else nm
            props[name] = {"values": p["values"].copy(), "missing": _alt_mask(k)}
        if kind == "superset":
            props["zz_old"] = {"values": np.arange(k, dtype="int16"), "missing": _alt_mask(k)}
            obj = np.empty(k, dtype=object)
            for i in range(k):
                obj[i] = np.full((i % 3,), 7, dtype="uint8")
            props["zv_old"] = {"values": obj, "missing": _alt_mask(k)}
        out[key] = props
    return out


def overwrite_run(case):
    """the target is a zarr container that holds a foreign sibling array, a foreign attribute and an OLDER geff
    (`prestate_graph`); the graph of the case is written over it with overwrite=True and read back.  Oracle: exactly
    what was written LAST comes back (the same numpy-level specification as for fresh targets)."""
    import copy

    import zarr

    from geff.core_io import read_to_memory, write_arrays

    g = R.build_geff(case["g"])
    md = case.get("md") or {}
    fmt = case.get("fmt", 2)
    obs = {"pre": None, "write": None, "read": None, "spec": [], "sibling_kept": None}
    with R.StoreCtx(case.get("store", "mem")) as store:
        try:
            root = zarr.open_group(store, mode="a", zarr_format=fmt)
            root["raw_sibling"] = np.arange(4, dtype="uint8")
            root.attrs["foreign"] = {"k": 1}
            old = prestate_graph(g, case["prestate"])
            write_arrays(store, old["node_ids"], old["node_props"], old["edge_ids"], old["edge_props"],
                         make_metadata({"directed": bool(md.get("directed", True))}), zarr_format=fmt, structure_validation=False)
            read_to_memory(store, structure_validation=False)
            obs["pre"] = "ok"
        except BaseException as e:  # noqa: BLE001
            obs["pre"] = exc_class(e)            # the pre-state could not be set up: nothing is judged
            obs["pre_msg"] = str(e)[:200]
            return obs
        gin = copy.deepcopy(g)
        try:
            write_arrays(store, gin["node_ids"], gin["node_props"], gin["edge_ids"], gin["edge_props"], make_metadata(md),
                         zarr_format=fmt, structure_validation=case.get("validate", True), overwrite=True)
            obs["write"] = "ok"
        except BaseException as e:  # noqa: BLE001
            obs["write"] = exc_class(e)
            obs["write_msg"] = str(e)[:200]
            return obs
        try:
            o = read_to_memory(store, structure_validation=case.get("validate", True))
            obs["read"] = "ok"
        except BaseException as e:  # noqa: BLE001
            obs["read"] = exc_class(e)
            obs["read_msg"] = str(e)[:200]
            return obs
        obs["spec"] = R.same_graph(expected_graph(g, md), o)
        try:
            sib = zarr.open_group(store, mode="r")["raw_sibling"][...]
            obs["sibling_kept"] = bool(np.array_equal(sib, np.arange(4, dtype="uint8")))
        except BaseException as e:  # noqa: BLE001
            obs["sibling_kept"] = exc_class(e)
    return obs


def prestate_cases(base, quick):
    """every k-th well-formed graph of the fresh-target streams, with the pre-state kinds, formats and store kinds
    rotating"""
    wf = [c for c in base if wf_case(c) and not c.get("node_unsquish") and not c.get("edge_unsquish")]
    step = 8 if quick else 2
    out = []
    kinds = ["mem", "mem", "mem", "local", "mem", "path", "mem", "str"]
    for i, c in enumerate(wf[::step]):
        out.append({**c, "prestate": PRESTATES[i % 4], "fmt": 2 + (i // 4) % 2, "store": kinds[(i // 8) % 8],
                    "origin": "prestate"})
    # the minimal scenario of a stale mask: the same masked property written again without mask
    nid, eid = tiny_ids("uint8", 2, 1)
    p_ = ["p", {"values": det_array("int16", [2], 1), "missing": None}]
    for fmt in (2, 3):
        for store in ("mem", "local", "path", "str"):
            out.append({"g": {"node_ids": nid, "edge_ids": eid, "node_props": [p_], "edge_props": []}, "prestate": "same+masks",
                        "fmt": fmt, "store": store, "origin": "prestate-minimal"})
    return out


# ----------------------------------------------------------------- well-formedness (python mirror, for tagging only)
def wf_prop(p, n):
    v, m = p["values"], p["missing"]
    if m is not None and (m["dtype"] != "bool" or m["shape"] != [n]):
        return False
    if "obj" in v:
        es = v["obj"]
        if len(es) != n:
            return False
        if any(e["dtype"] not in R.VLEN_DTYPES for e in es):
            return False
        if len({(e["dtype"], e.get("width"), len(e["shape"])) for e in es}) > 1:
            return False
        return True
    return v["dtype"] in R.PROP_DTYPES and len(v["shape"]) >= 1 and v["shape"][0] == n


def wf_case(case):
    """the graphs the property quantifies over (mirrors GeffProps.C01.WFGeff + MdConsistent)"""
    g, md = case["g"], case.get("md") or {}
    nid, eid = g["node_ids"], g["edge_ids"]
    if nid["dtype"] not in R.INT_DTYPES or eid["dtype"] != nid["dtype"]:
        return False
    if len(nid["shape"]) != 1 or len(eid["shape"]) != 2 or eid["shape"][1] != 2:
        return False
    if (g["node_props"] is None or g["edge_props"] is None) and (md.get("axes") is not None or md.get("node_props")
                                                               or md.get("edge_props") or case.get("node_unsquish")
                                                               or case.get("edge_unsquish")):
        return False
    g = {**g, "node_props": g["node_props"] or [], "edge_props": g["edge_props"] or []}
    n, e = nid["shape"][0], eid["shape"][0]
    for props, k in ((g["node_props"], n), (g["edge_props"], e)):
        names = [nm for nm, _ in props]
        if len(set(names)) != len(names) or not all(R.valid_name(nm) for nm in names):
            return False
        if not all(wf_prop(p, k) for _, p in props):
            return False
    nn = {nm for nm, _ in g["node_props"]}
    en = {nm for nm, _ in g["edge_props"]}
    # caller metadata must describe properties that end up stored (an unsquished property is replaced by its columns)
    nn_stored = (nn - set(case.get("node_unsquish") or {})) | {x for v in (case.get("node_unsquish") or {}).values() for x in v}
    en_stored = (en - set(case.get("edge_unsquish") or {})) | {x for v in (case.get("edge_unsquish") or {}).values() for x in v}
    if not {k for k, *_ in md.get("node_props", [])} <= nn_stored or not {k for k, *_ in md.get("edge_props", [])} <= en_stored:
        return False
    if not {k for k, *_ in md.get("node_props", [])} <= nn or not {k for k, *_ in md.get("edge_props", [])} <= en:
        return False
    if md.get("axes") is not None:
        if len(set(md["axes"])) != len(md["axes"]):
            return False
        for a in md["axes"]:
            if a not in nn:
                if n > 0:
                    return False
                continue
            p = dict(g["node_props"])[a]
            v = p["values"]
            if "obj" in v or p["missing"] is not None or len(v["shape"]) != 1 or v["dtype"] == "str":
                return False
    for uns, props in ((case.get("node_unsquish"), g["node_props"]), (case.get("edge_unsquish"), g["edge_props"])):
        if not uns:
            continue
        if md.get("axes") is not None:
            return False
        names = {nm for nm, _ in props}
        d = dict(props)
        new = [x for news in uns.values() for x in news]
        if len(set(new)) != len(new) or any(x in names or not R.valid_name(x) for x in new):
            return False
        for name, news in uns.items():
            if name not in d or "obj" in d[name]["values"] or len(d[name]["values"]["shape"]) != 2 \
                    or d[name]["values"]["shape"][1] != len(news):
                return False
    return True


# ----------------------------------------------------------------- generators
def tiny_ids(idt, n, e):
    ii = np.iinfo(idt)
    nodes = [int(ii.max), int(ii.min), (int(ii.max) + int(ii.min)) // 2][:n]
    edges = []
    if n:
        for k in range(e):
            edges.append([nodes[k % n], nodes[(k + 1) % n]])
    else:
        e = 0
    return ({"dtype": idt, "shape": [n], "flat": [R.jint(x) for x in nodes]},
            {"dtype": idt, "shape": [len(edges), 2], "flat": [R.jint(x) for r in edges for x in r]})


def det_tokens(dt, n, salt=0):
    """deterministic, dtype-limit-heavy values"""
    if dt == "bool":
        return [(i + salt) % 2 == 0 for i in range(n)]
    if dt == "str":
        return [R.STRINGS[(i + salt) % len(R.STRINGS)] for i in range(n)]
    if dt in R.FWIDTH:
        sp = {"float16": R.F16_SPECIAL, "float32": R.F32_SPECIAL, "float64": R.F64_SPECIAL}[dt]
        return [sp[(i + salt) % len(sp)] for i in range(n)]
    ii = np.iinfo(dt)
    lim = [int(ii.max), int(ii.min), 0, 1, int(ii.max) - 1]
    return [R.jint(lim[(i + salt) % len(lim)]) for i in range(n)]


def det_array(dt, shape, salt=0):
    j = {"dtype": dt, "shape": list(shape), "flat": det_tokens(dt, R.prod(shape), salt)}
    if dt == "str":
        j["width"] = max([len(s) for s in j["flat"]] + [1])
    return j


def masks(n):
    yield None
    for bits in itertools.product([False, True], repeat=n):
        yield {"dtype": "bool", "shape": [n], "flat": list(bits)}


TAILS = {1: [[]], 2: [[0], [1], [2]], 3: [[1, 1], [2, 0], [0, 2], [2, 2], [1, 2]]}
VSHAPES = {0: [[]], 1: [[0], [1], [2]], 2: [[0, 0], [1, 2], [2, 1], [2, 2], [0, 2]]}


def exhaustive(quick):
    """bounded-exhaustive small cases (both formats are added by the caller)"""
    out = []
    # ids: every id dtype at its limits x N x E, no properties
    for idt in R.INT_DTYPES:
        for n in (0, 1, 2, 3):
            for e in (0, 1, 2):
                nid, eid = tiny_ids(idt, n, e)
                out.append({"g": {"node_ids": nid, "edge_ids": eid, "node_props": [], "edge_props": []}, "origin": "exh-ids"})
    # dense properties: dtype x rank x N x every missing pattern, on nodes and on edges
    salt = 0
    for dt in R.PROP_DTYPES:
        for rank in (1, 2, 3):
            for tail in TAILS[rank]:
                for n in (0, 1, 2):
                    for m in masks(n):
                        salt += 1
                        if quick and rank == 3 and m is not None and salt % 2:
                            continue
                        nid, eid = tiny_ids("uint8" if salt % 2 else "int64", max(n, 1) if salt % 3 else n, n)
                        nn, ee = nid["shape"][0], eid["shape"][0]
                        if salt % 2 and nn == n:
                            g = {"node_ids": nid, "edge_ids": eid, "edge_props": [],
                                 "node_props": [["p", {"values": det_array(dt, [n, *tail], salt), "missing": m}]]}
                        elif ee == n:
                            g = {"node_ids": nid, "edge_ids": eid, "node_props": [],
                                 "edge_props": [["p", {"values": det_array(dt, [n, *tail], salt), "missing": m}]]}
                        else:
                            nid, eid = tiny_ids("uint16", n, 0)
                            g = {"node_ids": nid, "edge_ids": eid, "edge_props": [],
                                 "node_props": [["p", {"values": det_array(dt, [n, *tail], salt), "missing": m}]]}
                        out.append({"g": g, "origin": "exh-dense"})
    # var-length: element dtype x ndim x N x shape mixes x missing patterns
    for dt in R.VLEN_DTYPES:
        for ndim in (0, 1, 2):
            for n in (0, 1, 2):
                for shapes in itertools.product(VSHAPES[ndim], repeat=n):
                    for m in masks(n):
                        salt += 1
                        if m is not None and dt not in ("int8", "float64", "str") and salt % 3:
                            continue
                        if quick and ndim == 2 and n == 2 and salt % 4:
                            continue
                        elems = [det_array(dt, sh, salt + i) for i, sh in enumerate(shapes)]
                        if dt == "str":
                            w = max([e["width"] for e in elems] + [1])
                            for e in elems:
                                e["width"] = w
                        nid, eid = tiny_ids("uint8", n, 0)
                        g = {"node_ids": nid, "edge_ids": eid, "edge_props": [],
                             "node_props": [["v", {"values": {"obj": elems}, "missing": m}]]}
                        out.append({"g": g, "origin": "exh-vlen"})
    return out


def rotate_layouts(cases):
    """every third bounded-exhaustive case presents its arrays in another memory layout (rotating through all)"""
    import random as _r

    for i, c in enumerate(cases):
        if i % 3 == 0:
            R.set_layouts(_r.Random(i), c["g"], p=0.7)
    return cases


def special_cases():
    """hand-picked: several properties, name clashes with path constants, axes, caller metadata, error branch"""
    out = []
    nid, eid = tiny_ids("uint64", 3, 2)
    base = {"node_ids": nid, "edge_ids": eid}
    for names in (["values", "missing", "data"], ["props", "ids", "nodes"], ["a", "A", "\u00e9", "e\u0301"], ["0", "0.0", "c"]):
        props = [[nm, {"values": det_array("int16", [3], i), "missing": None if i % 2 else
                       {"dtype": "bool", "shape": [3], "flat": [i % 3 == 0, True, False]}}] for i, nm in enumerate(names)]
        out.append({"g": {**base, "node_props": props, "edge_props": []}, "origin": "special-names"})
    # axes: present / empty graph gets empty axis arrays / axis property absent (ValueError)
    t = ["t", {"values": det_array("float64", [3], 9), "missing": None}]
    x = ["x", {"values": det_array("int32", [3], 2), "missing": None}]
    out.append({"g": {**base, "node_props": [t, x], "edge_props": []}, "md": {"axes": ["t", "x"]}, "origin": "special-axes"})
    out.append({"g": {**base, "node_props": [t], "edge_props": []}, "md": {"axes": ["t", "x"]}, "origin": "special-axes-absent"})
    nid0, eid0 = tiny_ids("int8", 0, 0)
    out.append({"g": {"node_ids": nid0, "edge_ids": eid0, "node_props": [], "edge_props": []},
                "md": {"axes": ["t", "x"]}, "origin": "special-axes-empty-graph"})
    # caller metadata already describing the properties (dtype gets overwritten by the writer)
    out.append({"g": {**base, "node_props": [t, x], "edge_props": []},
                "md": {"node_props": [["t", "int8", True], ["x", "int32", False]]}, "origin": "special-md"})
    out.append({"g": {**base, "node_props": [t], "edge_props": []},
                "md": {"node_props": [["ghost", "int8", False]]}, "origin": "special-md-ghost"})
    # node and edge properties under ONE name (different groups): var-length on both sides with different element dtypes,
    # var-length vs fixed, same dtype
    nv = {"values": {"obj": [det_array("int8", [2], 1), det_array("int8", [0], 2), det_array("int8", [3], 3)]}, "missing": None}
    ev = {"values": {"obj": [det_array("float64", [1, 2], 4), det_array("float64", [2, 2], 5)]}, "missing": None}
    ev2 = {"values": {"obj": [det_array("int8", [1], 6), det_array("int8", [2], 7)]},
           "missing": {"dtype": "bool", "shape": [2], "flat": [True, False]}}
    ed = {"values": det_array("uint16", [2, 2], 8), "missing": None}
    for npr, epr in ((nv, ev), (nv, ev2), (nv, ed), (x[1], ev)):
        out.append({"g": {**base, "node_props": [["same", npr], x if npr is not x[1] else t], "edge_props": [["same", epr]]},
                    "origin": "special-shared-name"})
    # `None` instead of a property dict (allowed by the signature): no props group is written, nothing comes back
    out.append({"g": {**base, "node_props": None, "edge_props": None}, "origin": "special-none-props"})
    out.append({"g": {**base, "node_props": [x], "edge_props": None}, "origin": "special-none-props"})
    out.append({"g": {**base, "node_props": None, "edge_props": []}, "md": {"axes": ["t"]}, "origin": "special-none-props-axes"})
    # unsquish: a 2-D property stored as one property per column (documented), and its error branch
    pos = ["pos", {"values": det_array("float32", [3, 2], 4), "missing": {"dtype": "bool", "shape": [3], "flat": [False, True, False]}}]
    pos_f = ["pos", {"values": {**det_array("int16", [3, 3], 5), "layout": "F"}, "missing": None}]
    ew = ["w", {"values": det_array("uint8", [2, 2], 1), "missing": None}]
    out.append({"g": {**base, "node_props": [pos, x], "edge_props": []}, "node_unsquish": {"pos": ["py", "px"]}, "origin": "special-unsquish"})
    out.append({"g": {**base, "node_props": [x, pos_f], "edge_props": [ew]}, "node_unsquish": {"pos": ["a", "b", "c"]},
                "edge_unsquish": {"w": ["w0", "w1"]}, "origin": "special-unsquish"})
    out.append({"g": {**base, "node_props": [pos], "edge_props": []}, "node_unsquish": {"pos": ["only-one"]}, "origin": "unsquish-fewer-names"})
    out.append({"g": {**base, "node_props": [pos], "edge_props": []}, "node_unsquish": {"pos": ["a", "b", "c"]}, "origin": "unsquish-too-many-names"})
    out.append({"g": {**base, "node_props": [pos, x], "edge_props": []}, "node_unsquish": {"pos": ["x", "y"]}, "origin": "unsquish-name-collision"})
    out.append({"g": {**base, "node_props": [pos], "edge_props": []}, "node_unsquish": {"pos": ["pos", "q"]}, "origin": "unsquish-own-name"})
    out.append({"g": {**base, "node_props": [x], "edge_props": []}, "node_unsquish": {"x": ["a"]}, "origin": "unsquish-1d"})
    out.append({"g": {**base, "node_props": [x], "edge_props": []}, "node_unsquish": {"nope": ["a"]}, "origin": "unsquish-absent"})
    out.append({"g": {**base, "edge_props": [], "node_props": [["v", {"values": {"obj": [
        det_array("int8", [2]), det_array("int8", [1]), det_array("int8", [0])]}, "missing": None}]]},
        "node_unsquish": {"v": ["a"]}, "origin": "unsquish-vlen"})
    # error branch
    out.append({"g": {"node_ids": nid, "edge_ids": {"dtype": "int64", "shape": [1, 2], "flat": [0, 0]}, "node_props": [], "edge_props": []},
                "origin": "err-id-dtype-mismatch"})
    out.append({"g": {"node_ids": det_array("float64", [2]), "edge_ids": det_array("float64", [0, 2]),
                      "node_props": [], "edge_props": []}, "origin": "err-float-ids"})
    out.append({"g": {**base, "edge_props": [], "node_props": [["v", {"values": {"obj": [
        det_array("int8", [2]), det_array("int8", [1, 1]), det_array("int8", [0])]}, "missing": None}]]}, "origin": "err-vlen-ndim"})
    out.append({"g": {**base, "edge_props": [], "node_props": [["v", {"values": {"obj": [
        det_array("int8", [2]), det_array("int16", [1]), det_array("int8", [0])]}, "missing": None}]]}, "origin": "err-vlen-dtype"})
    out.append({"g": {**base, "edge_props": [], "node_props": [["v", {"values": {"obj": [
        det_array("float16", [2]), det_array("float16", [1]), det_array("float16", [0])]}, "missing": None}]]}, "origin": "err-vlen-f16"})
    return out


def random_case(rng, quick):
    g = R.rand_geff(rng, n_max=12 if quick else 40, e_max=20 if quick else 80, kmax=3 if quick else 6)
    c = {"g": g, "origin": "random"}
    r = rng.random()
    nn = [nm for nm, p in g["node_props"]]
    if r < 0.15 and nn:
        # caller metadata for a subset of the properties (stale dtype / varlength, to be overwritten)
        c["md"] = {"node_props": [[nm, rng.choice(R.INT_DTYPES + ["str", "float32"]), rng.random() < 0.5] for nm in nn if rng.random() < 0.7]}
    elif r < 0.25:
        ok_axes = [nm for nm, p in g["node_props"] if "obj" not in p["values"] and p["missing"] is None
                   and len(p["values"]["shape"]) == 1 and p["values"]["dtype"] not in ("str",)]
        if ok_axes or g["node_ids"]["shape"][0] == 0:
            c["md"] = {"axes": (ok_axes[:2] if ok_axes else []) + (["t_abs"] if g["node_ids"]["shape"][0] == 0 else [])}
    c["md"] = {**(c.get("md") or {}), "directed": rng.random() < 0.5}
    if "axes" not in c["md"] and "node_props" not in c["md"] and rng.random() < 0.05:
        c["g"][rng.choice(["node_props", "edge_props"])] = None
    elif "axes" not in c["md"] and rng.random() < 0.15:
        for key, ukey in (("node_props", "node_unsquish"), ("edge_props", "edge_unsquish")):
            cand = [(nm, p) for nm, p in g[key] if "obj" not in p["values"] and len(p["values"]["shape"]) == 2]
            if cand and rng.random() < 0.7:
                nm, p = rng.choice(cand)
                w = p["values"]["shape"][1] + rng.choice([0, 0, 0, 0, -1, 1])
                c[ukey] = {nm: [f"{nm}#{i}" for i in range(max(w, 0))]}
    return c


def malformed_case(rng):
    """the error branch: break one well-formedness condition"""
    g = R.rand_geff(rng, n_max=4, e_max=4, kmax=2, allow_vlen=False)
    kind = rng.choice(["id-dtype", "float-ids", "vlen-ndim", "vlen-dtype", "vlen-f16", "axis-absent", "md-ghost"])
    c = {"g": g, "origin": "malformed-" + kind}
    n = g["node_ids"]["shape"][0]
    if kind == "id-dtype":
        other = rng.choice([d for d in R.INT_DTYPES if d != g["node_ids"]["dtype"]])
        g["edge_ids"] = {"dtype": other, "shape": [0, 2], "flat": []}
    elif kind == "float-ids":
        g["node_ids"] = det_array("float32", [n])
        g["edge_ids"] = det_array("float32", [0, 2])
    elif kind in ("vlen-ndim", "vlen-dtype", "vlen-f16"):
        n = max(n, 2)
        g["node_ids"], g["edge_ids"] = tiny_ids("int16", min(n, 3), 0)
        n = g["node_ids"]["shape"][0]
        if kind == "vlen-ndim":
            elems = [det_array("int8", [1] * (1 + (i == n - 1))) for i in range(n)]
        elif kind == "vlen-dtype":
            elems = [det_array("int8" if i < n - 1 else "uint8", [2]) for i in range(n)]
        else:
            elems = [det_array("float16", [2]) for i in range(n)]
        g["node_props"] = [["v", {"values": {"obj": elems}, "missing": None}]]
    elif kind == "axis-absent":
        g["node_ids"], g["edge_ids"] = tiny_ids("int16", max(1, min(n, 3)), 0)
        g["node_props"] = []
        c["md"] = {"axes": ["t"]}
    elif kind == "md-ghost":
        c["md"] = {"node_props": [["ghost-prop", "int8", False]]}
        g["node_props"] = [p for p in g["node_props"] if p[0] != "ghost-prop"]
    return c


def shape_tag(case):
    g = case["g"]
    kinds = set()
    for lst in (g["node_props"] or [], g["edge_props"] or []):
        for _, p in lst:
            v = p["values"]
            k = "vlen" if "obj" in v else f"dense{len(v['shape'])}"
            kinds.add(k + ("+m" if p["missing"] is not None else ""))
    n = g["node_ids"]["shape"][0] if g["node_ids"]["shape"] else -1
    return ("N0" if n == 0 else "N+") + ":" + (",".join(sorted(kinds)) or "noprops")


# ----------------------------------------------------------------- model requests
def model_requests(case, obs):
    g = R.strip_width(case["g"])
    md = case.get("md") or {}
    reqs = [{"op": "write", "validate": bool(case.get("validate", True)), "g": g, "md": {"directed": md.get("directed", True), "axes": md.get("axes"),
                                           "node_props": md.get("node_props", []), "edge_props": md.get("edge_props", [])},
             "node_unsquish": None if case.get("node_unsquish") is None else [[k, v] for k, v in case["node_unsquish"].items()],
             "edge_unsquish": None if case.get("edge_unsquish") is None else [[k, v] for k, v in case["edge_unsquish"].items()]}]
    if obs.get("dump") is not None:
        reqs.append({"op": "read", "validate": bool(case.get("validate", True)), "store": R.strip_width(obs["dump"])})
    return reqs


def canon_model_store(st):
    return R.canon_store(st)


# ----------------------------------------------------------------- the check
def classify_spec(ck, case, obs, wf):
    """the specification verdict on the implementation's behaviour (no model involved)"""
    if not wf:
        # error branch: a malformed graph must be refused by ValueError / TypeError (never accepted silently
        # with a wrong read-back, never an unrelated exception).  Malformed *unsquish arguments* are outside the
        # property (correspondence only).
        if case.get("node_unsquish") or case.get("edge_unsquish"):
            return
        if obs["write"] not in ("ValueError", "TypeError"):
            if obs["write"] == "ok":
                return  # accepted although outside the property's domain: nothing is claimed
            ck.fail("C01:malformed-unrelated-exception", f"writing a malformed graph raised {obs['write']}: {obs.get('write_msg')}",
                    case, obs["write"], "ValueError or TypeError")
        return
    g = case["g"]
    empty_vlen = any("obj" in p["values"] and not p["values"]["obj"] for lst in (g["node_props"] or [], g["edge_props"] or []) for _, p in lst)
    if obs["write"] != "ok":
        key = "C01:varlength-on-empty-graph" if (empty_vlen and obs["write"] == "IndexError") else "C01:write-raises"
        ck.fail(key, f"write_arrays raised {obs['write']} on a well-formed graph: {obs.get('write_msg')}", case, obs["write"], "ok")
        return
    if obs["read"] != "ok":
        ck.fail("C01:read-raises", f"read_to_memory raised {obs['read']} on what write_arrays wrote: {obs.get('read_msg')}",
                case, obs["read"], "ok")
        return
    for key, what in obs["spec"]:
        ck.fail(key, what, case, what, "the written graph")


MODEL_VALID_DTYPES = ("bool", "int8", "int16", "int32", "int64", "uint8", "uint16", "uint32", "uint64", "float32", "float64",
                      "bytes", "str")


def run(ck: common.Check):
    ck.prove(["GeffProps.C01", "GeffProps.C01ReadOpts", "GeffProps.C01Gen"])
    # library tie: the dtype list hard-wired in GeffModel/WriteRead.lean (`validDtypes`) is the source's VALID_DTYPES
    from geff_spec._valid_values import VALID_DTYPES
    if tuple(VALID_DTYPES) != MODEL_VALID_DTYPES:
        ck.broken.append({"what": "corr C01:VALID_DTYPES", "detail": {"source": list(VALID_DTYPES), "model": list(MODEL_VALID_DTYPES)}})
    ck.rule = ("cases = corpus + bounded-exhaustive (N,E<=3; every id dtype at its limits; every property dtype x rank 1..3 x "
               "every missing pattern of length <=2; var-length element dtype x ndim 0..2 x shape mixes of extent <=2 x missing "
               "patterns) + hand-picked (names equal to path constants, axes, caller metadata, error branch) + seeded random "
               "graphs (N<=40, E<=80, <=6 properties, special floats by bit pattern, unicode strings, adversarial names) + a "
               "malformed stream; a share of the arrays in other memory layouts (Fortran order, swapped axes, strided, negative "
               "stride, big-endian, read-only); unsquish arguments (valid and invalid); every case on MemoryStore x zarr_format "
               "2 and 3, a sample on LocalStore/Path/str; histories of 2-3 writes of different well-formed graphs into fresh "
               "targets sharing one GeffMetadata instance / the metadata read from the previous geff / the same property "
               "dicts and values arrays with the masks removed, inverted or shifted between the writes, each followed by a "
               "validated read (also after structure_validation=False); single writes in which several node/edge properties "
               "alias one ndarray or overlapping views of it with different masks; every 8th (quick) / 2nd (thorough) well-formed "
               "graph also written with overwrite=True into a container that already holds a foreign sibling array, a foreign "
               "attribute and an OLDER geff (same names with masks everywhere / renamed / superset incl. var-length / unrelated), "
               "formats and store kinds rotating, judged by the same oracle (what was written last comes back); "
               "non-trivial = at least one node or one property; distinct = distinct canonical case JSON")
    cases = [c for c in R.corpus(PROP) if "steps" not in c]
    base = rotate_layouts(exhaustive(ck.quick)) + special_cases()
    nrand = 700 if ck.quick else 3000
    nmal = 150 if ck.quick else 600
    base += [random_case(ck.rng, ck.quick) for _ in range(nrand)]
    base += [malformed_case(ck.rng) for _ in range(nmal)]
    kinds = ["local", "path", "str"]
    for i, c in enumerate(base):
        for fmt in (2, 3):
            cases.append({**c, "fmt": fmt, "store": "mem"})
        # the other store kinds: quick = one kind x one format on every 10th graph; thorough = all three kinds (formats
        # alternating) on every 4th graph
        if ck.quick:
            if i % 10 == 0:
                j = (i // 10) % 3
                cases.append({**c, "fmt": 2 + (i // 30) % 2, "store": kinds[j]})
        elif i % 4 == 0:
            for j, kind in enumerate(kinds):
                cases.append({**c, "fmt": 2 + (i // 4 + j) % 2, "store": kind})
    ck.extra["cases_by_store"] = {k: sum(1 for c in cases if c.get("store", "mem") == k) for k in ["mem", *kinds]}

    obs_all = common.pmap(impl_run, cases, chunksize=8)

    # histories (shared caller objects across several writes)
    hists = [h for h in R.corpus(PROP) if "steps" in h] + history_cases(ck.rng, 240 if ck.quick else 2500)
    hobs = common.pmap(history_run, hists, chunksize=4)
    for h, obs in zip(hists, hobs):
        last = obs[-1]
        good = last["write"] == "ok" and last["read"] == "ok" and not last["spec"]
        ck.case({"history": h}, f"history:{h['share']}:{len(h['steps'])}-steps:" + ("ok" if good else f"step{last['step']}-fails"),
                nontrivial=True)
        if good:
            continue
        key = {"metadata": "C01:history-shared-metadata", "read-metadata": "C01:history-metadata-from-read",
               "props": "C01:history-shared-props", "alias": "C01:history-shared-props"}[h["share"]]
        if last["step"] == 0 and h["share"] != "alias":
            key = "C01:write-raises" if last["write"] != "ok" else ("C01:read-raises" if last["read"] != "ok" else last["spec"][0][0])
        what = (f"history of {len(h['steps'])} writes sharing caller objects ({h['share']}): step {last['step']} "
                + (f"write_arrays raised {last['write']}: {last.get('msg')}" if last["write"] != "ok" else
                   f"validated read raised {last['read']}: {last.get('msg')}" if last["read"] != "ok" else last["spec"][0][1]))
        ck.fail(key, what, {"history": h}, last, "every well-formed write succeeds and round-trips, whatever the shared objects went through")
    ck.extra["histories"] = len(hists)

    # pre-state of the target: the same graphs written with overwrite=True over an older geff in a shared container
    pcases = [c for c in R.corpus(PROP + "/prestate")] + prestate_cases(base, ck.quick)
    pobs = common.pmap(overwrite_run, pcases, chunksize=8)
    n_judged = 0
    for c, ob in zip(pcases, pobs):
        if ob["pre"] != "ok":
            ck.case(c, f"prestate:{c['prestate']}:setup-{ob['pre']}", nontrivial=False)
            continue
        n_judged += 1
        good = ob["write"] == "ok" and ob["read"] == "ok" and not ob["spec"]
        ck.case(c, f"prestate:{c['prestate']}:{c.get('store', 'mem')}{c.get('fmt', 2)}:" + ("ok" if good else "fails")
                + ("" if ob["sibling_kept"] in (True, None) else ":sibling-lost"), nontrivial=True)
        if good:
            continue
        key = ("C01:overwrite-write-raises" if ob["write"] != "ok" else "C01:overwrite-read-raises" if ob["read"] != "ok"
               else "C01:overwrite-stale:" + ob["spec"][0][0].split(":", 1)[-1])
        what = (f"target holding an older geff ({c['prestate']}) next to a foreign sibling, overwrite=True: "
                + (f"write_arrays raised {ob['write']}: {ob.get('write_msg')}" if ob["write"] != "ok" else
                   f"read_to_memory raised {ob['read']}: {ob.get('read_msg')}" if ob["read"] != "ok" else ob["spec"][0][1]))
        ck.fail(key, what, c, ob, "what is read back is exactly the graph written last")
    ck.extra["prestate_cases"] = {"run": len(pcases), "judged": n_judged}

    # read-side configurations: one written store read back under many configurations
    rc_cases = [c for c in R.corpus(PROP + "/readcfg")] + RC.cases(ck.rng, ck.quick)
    rc_obs = common.pmap(RC.rc_run, rc_cases, chunksize=2)
    ck.extra["read_configurations"] = {"graphs": len({c["gid"] for c in rc_cases}), "reads": sum(len(c["configs"]) for c in rc_cases)}

    drv = ck.driver()
    reqs, index = [], []
    for ci, (c, ob) in enumerate(zip(cases, obs_all)):
        rs = model_requests(c, ob)
        index.append((len(reqs), len(rs)))
        reqs.extend(rs)
    rc_index = []
    for c, ob in zip(rc_cases, rc_obs):
        rq = RC.model_request(c, ob)
        rc_index.append(None if rq is None else len(reqs))
        if rq is not None:
            reqs.append(rq)
    answers = drv.ask(reqs)
    if answers is None:
        ck.broken.append({"what": "driver Drivers/C01.lean", "detail": drv.broken or getattr(drv, "build_log", "")})

    n_wf = 0
    for ci, (c, ob) in enumerate(zip(cases, obs_all)):
        wf = wf_case(c)
        n_wf += wf
        g = c["g"]
        nontrivial = bool(g["node_ids"]["flat"]) or bool(g["node_props"]) or bool(g["edge_props"])
        ck.case(c, ("wf:" if wf else "malformed:") + shape_tag(c) + f":{c.get('store', 'mem')}{c.get('fmt', 2)}:" + str(ob["write"]),
                nontrivial=nontrivial)
        classify_spec(ck, c, ob, wf)
        if "dump_error" in ob:
            ck.broken.append({"what": "corr C01:dump", "detail": {"case": c, "error": ob["dump_error"]}})
        if answers is None:
            continue
        start, k = index[ci]
        mw = answers[start]
        if "err" in mw:
            ck.corr_broken("C01:driver-write", c, ob["write"], mw)
            continue
        # (d) outcome of the write, including the final validate_structure step (C04's model through the bridge
        # GeffModel/StoreTree.lean); names zarr refuses or nests are outside the model
        m_out = mw["outcome"]
        i_out = ob["write"]
        if m_out.startswith("unmodelled"):
            ck.histogram["unmodelled:" + m_out] = ck.histogram.get("unmodelled:" + m_out, 0) + 1
            continue
        if m_out != i_out:
            ck.corr_broken("C01:writeArrays-outcome", c, {"outcome": ob["write"], "msg": ob.get("write_msg")}, m_out)
            continue
        if m_out != "ok" or ob.get("dump") is None:
            continue
        # (b) the store
        if canon_model_store(mw["store"]) != R.canon_store(R.strip_width(ob["dump"])):
            ck.corr_broken("C01:writeArrays-store", c, R.canon_store(R.strip_width(ob["dump"])), canon_model_store(mw["store"]))
            continue
        # (c) the reader on the real dump
        if k > 1:
            mr = answers[start + 1]
            if "err" in mr:
                ck.corr_broken("C01:driver-read", c, ob["read"], mr)
            elif mr["outcome"] != ob["read"]:
                ck.corr_broken("C01:readToMemory-outcome", c, {"outcome": ob["read"], "msg": ob.get("read_msg")}, mr["outcome"])
            elif mr["outcome"] == "ok" and R.canon_geff(mr["geff"]) != R.strip_width(ob["inmem"]):
                ck.corr_broken("C01:readToMemory-result", c, R.strip_width(ob["inmem"]), R.canon_geff(mr["geff"]))
    ck.extra["well_formed_cases"] = n_wf
    for c, ob, ri in zip(rc_cases, rc_obs, rc_index):
        RC.classify(ck, c, ob, None if (answers is None or ri is None) else answers[ri])
    ck.assumptions += [
        "zarr stores and returns every array bit-identically for each supported dtype/codec/format (exercised by (a) on every case, not verified)",
        "numpy's choice of unicode width on the cast back is outside the Lean model (one `str` dtype); the python oracle compares the exact width",
        "the final validate_structure step of write_arrays belongs to C04's model; here it is a parameter assumed to accept the written store "
        "(checked on every case against the real validator)",
        "overwrite=True onto an existing geff is covered by the pre-state stream and its model-free oracle only (check_for_geff / delete_geff "
        "are C06's subject; the Lean theorems cover a target without a geff, generated writer included)",
    ]


def replay(rp):
    c = rp["case"]
    if "configs" in c:
        return RC.replay(c)
    if "prestate" in c:
        ob = overwrite_run(c)
        ok = ob["pre"] == "ok" and ob["write"] == "ok" and ob["read"] == "ok" and not ob["spec"]
        print(json.dumps({k: v for k, v in ob.items()}, ensure_ascii=False, default=str))
        print("REPLAY: property holds on this input" if ok else "REPLAY: property FAILS on this input")
        return 0 if ok else 1
    if "history" in c:
        obs = history_run(c["history"])
        last = obs[-1]
        ok = last["write"] == "ok" and last["read"] == "ok" and not last["spec"]
        print(json.dumps({"share": c["history"]["share"], "steps": [{k: v for k, v in o.items()} for o in obs]}, ensure_ascii=False, default=str))
        print("REPLAY: property holds on this input" if ok else "REPLAY: property FAILS on this input")
        return 0 if ok else 1
    ob = impl_run(c)
    wf = wf_case(c)
    print(json.dumps({"well_formed": wf, "write": ob["write"], "write_msg": ob.get("write_msg"), "read": ob["read"],
                      "read_msg": ob.get("read_msg"), "spec_violations": ob["spec"]}, ensure_ascii=False))
    if wf:
        ok = ob["write"] == "ok" and ob["read"] == "ok" and not ob["spec"]
    else:
        ok = ob["write"] in ("ValueError", "TypeError", "ok")
    print("REPLAY: property holds on this input" if ok else "REPLAY: property FAILS on this input")
    return 0 if ok else 1
